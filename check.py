#!/venv/bin/python
"""Static checks of the properties of compmec/shapepy.

usage: check.py <property id> [--tier quick|thorough] [--src DIR] [--replay FILE]

Parses DIR (default /repo/src/shapepy) with `ast`, runs the rules of the
property and writes /verif/evidence/<id>.json.  Exit 0 / 1 (VIOLATION) / 2
(ANALYSIS-ERROR, inconclusive).  Nothing of the repository is imported or run.
"""
import argparse
import importlib
import json
import os
import sys
import time
import warnings

warnings.simplefilter("ignore")          # SyntaxWarning of docstrings in the analysed sources
sys.path.insert(0, os.path.dirname(os.path.abspath(__file__)))

from verifkit import core  # noqa: E402


def analyse(prop, src=None):
    """run the rules of one property on one source tree -> (outcomes, errors, ctx, module)"""
    mod = importlib.import_module(f"rules.{prop}")
    try:
        ctx = core.Context(src)
    except Exception as e:
        return [], [f"cannot build the program model: {type(e).__name__}: {e}"], None, mod
    outcomes, errors = core.run_rules(prop, mod.RULES, ctx)
    # rules borrowed from the modules of other properties (rules/borrow.py): the machinery this property depends on
    from rules.borrow import BORROW
    for srcprop, fname in BORROW.get(prop, []):
        m2 = importlib.import_module(f"rules.{srcprop}")
        outs, errs = core.run_rules(prop, [getattr(m2, fname)], ctx)
        for o in outs:
            o.text += f" [borrowed from {srcprop}: {prop}'s observable behaviour goes through the function(s) this rule examines]"
            o.rule = f"R{prop[1:]}/{o.rule}"
        outcomes += outs
        errors += errs
    return outcomes, errors, ctx, mod


def main(argv=None):
    ap = argparse.ArgumentParser()
    ap.add_argument("prop")
    ap.add_argument("--tier", default="quick", choices=["quick", "thorough"])
    ap.add_argument("--src", default=None)
    ap.add_argument("--replay", default=None)
    ap.add_argument("--no-evidence", action="store_true")
    a = ap.parse_args(argv)
    tier = os.environ.get("VERIF_TIER") or a.tier
    if tier not in ("quick", "thorough"):
        tier = a.tier
    try:
        seed = int(os.environ.get("VERIF_SEED", "0"))
    except ValueError:
        seed = 0
    t0 = time.time()
    prop = a.prop
    if a.replay:
        data = json.load(open(a.replay))
        print(f"replay of {a.replay}: re-running the rules of {prop} on the current tree; recorded violations were:")
        for v in data.get("violations", []):
            print("  ", v)
    try:
        outcomes, errors, ctx, mod = analyse(prop, a.src)
        extra = {}
        if tier == "thorough" and ctx is not None:
            from selfcheck import driver
            sc = driver.run(prop, ctx, seed)
            extra["self_validation"] = sc["summary"]
            errors += sc["errors"]
            for o in sc.get("outcomes", []):
                outcomes.append(o)
        code, lines, ev = core.report(prop, tier, seed, outcomes, errors, ctx, t0, extra=extra,
                                      assumptions=getattr(mod, "ASSUMPTIONS", []),
                                      write_evidence=not a.no_evidence)
    except Exception as e:  # never let a traceback look like a violation
        import traceback
        traceback.print_exc()
        print(f"ANALYSIS-ERROR property={prop} checker crashed: {type(e).__name__}: {e}")
        return 2
    for l in lines:
        print(l)
    sv = ev["coverage"].get("self_validation")
    if sv:
        print(f"[{prop}] self-validation: {sv['variants']} variants, {sv.get('mutants_reported', 0)} breaking edits reported, "
              f"{sv.get('twins_silent', 0)} behaviour-preserving edits silent, {sv.get('skipped', 0)} skipped")
        for r in sv.get("rows", []):
            if r["result"].startswith("skipped"):
                print(f"   skipped {r['variant']}: {r['result']}")
    cov = ev["coverage"]
    print(f"[{prop}] tier={tier} rules={len(cov['per_rule'])} instances={cov['evaluations']} "
          f"distinct={cov['distinct_nontrivial']} violations={ev['violations']} "
          f"known={cov['known_findings_reported']} exit={code} wall={ev['wall_s']}s")
    return code


if __name__ == "__main__":
    sys.exit(main())
