"""Variants for C13."""
from selfcheck.driver import M, T

VARIANTS = [
    M("crossing-param-float", "curve.Intersection.lines", "param0 = diff0.cross(vector1) / denom",
      "param0 = float(diff0.cross(vector1) / denom)", ["R13.1"], "Intersection.lines"),
    M("open-linspace-int-division", "curve.Math.open_linspace", "Fraction(num) / (2 * npts)", "num / (2 * npts)", ["R13.1"], "open_linspace"),
    M("square-half-float", "primitive.Primitive.square", "side /= 2", "side *= 0.5", ["R13.1"], "Primitive.square"),
    M("points-int-division", "jordancurve.JordanCurve.points", "Fraction(num, npts + 1)", "num / (npts + 1)", ["R13.1"], "JordanCurve.points"),
    M("move-through-float", "polygon.Point2D.move", "new_x = self._x + vector[0]", "new_x = float(self._x) + vector[0]", ["R13.1"], "Point2D.move"),
    # (float sample parameters that only feed containment predicates are not C13 violations: not listed)
    M("crossing-param-rounded", "curve.Intersection.lines", "return (param0, param1)",
      "return (param0.limit_denominator(10 ** 9), param1.limit_denominator(10 ** 9))", ["R13.1"], "Intersection.lines"),
    M("moment-divisor-float", "shape.IntegrateShape.polynomial", "return total / (1 + expx)", "return total / float(1 + expx)", ["R13.1"]),
    M("closed-linspace-np", "curve.Math.closed_linspace", "return tuple((Fraction(num, npts - 1) for num in range(npts)))",
      "return tuple(np.linspace(0, 1, npts))", ["R13.1"]),
    M("caract-matrix-float-dtype", "curve.Math.bezier_caract_matrix", "dtype='object'", "dtype='float64'", ["R13.1"]),
    M("revert-F1-float-cap", "polygon.Point2D.__init__", "limit_denominator(10 ** 9)", "limit_denominator(1000000000.0)", ["R13.2"], count=2),
    M("cap-too-small", "polygon.Point2D.__init__", "limit_denominator(10 ** 9)", "limit_denominator(10 ** 6)", ["R13.2"], count=2),
    M("fraction-of-float", "curve.Math.open_linspace", "Fraction(num) / (2 * npts)", "Fraction(num * 1.0) / (2 * npts)", ["R13.1", "R13.2"]),
    T("open-linspace-two-arg-fraction", "curve.Math.open_linspace", "Fraction(num) / (2 * npts)", "Fraction(num, 2 * npts)"),
    T("cap-literal-spelling", "polygon.Point2D.__init__", "limit_denominator(10 ** 9)", "limit_denominator(1000000000)", count=2),
    T("predicate-uses-float", "curve.Intersection.lines", "if param0 < 0 or 1 < param0:", "if float(param0) < 0 or 1 < param0:"),
    T("midpoint-other-exact", "shape.FollowPath.midpoints_one_shape", "segment(Fraction(1, 2))", "segment(Fraction(2, 4))"),
    M("point-cross-sign", "polygon.Point2D.cross", "self[0] * other[1] - self[1] * other[0]", "self[1] * other[0] - self[0] * other[1]", ["R13.4"]),
    M("point-sub-adds", "polygon.Point2D.__sub__", "new -= other", "new += other", ["R13.4"]),
    M("point-mul-in-place", "polygon.Point2D.__mul__", "new = self.__copy__()", "new = self", ["R13.4"]),
    M("point-eq-ignores-y", "polygon.Point2D.__eq__", "if abs(self[1] - other[1]) > 1e-09:\n        return False", "pass", ["R13.4"]),
    M("point-getitem-swapped", "polygon.Point2D.__getitem__", "return self._x if index == 0 else self._y", "return self._y if index == 0 else self._x", ["R13.4"]),
    M("point-isub-moves-plus", "polygon.Point2D.__isub__", "return self.move(-other)", "return self.move(other)", ["R13.4"]),
    M("point-truediv-x-only", "polygon.Point2D.__itruediv__", "self._y /= other", "pass", ["R13.4"]),
    T("point-inner-via-items", "polygon.Point2D.inner", "return self[0] * other[0] + self[1] * other[1]", "return self._x * other[0] + other[1] * self._y"),
]
