"""Variants for C12."""
from selfcheck.driver import M, T

VARIANTS = [
    M("lines-parallel-tolerance", "curve.Intersection.lines", "if denom != 0:", "if abs(denom) > 1e-09:", ["R12.1"], "Intersection.lines"),
    M("area-order-epsilon", "shape.SimpleShape.__contains_simple", "if areaA > areaB or jordana not in self:",
      "if areaA > areaB + 1e-06 or jordana not in self:", ["R12.1"], "__contains_simple"),
    M("box-overlap-margin", "polygon.Box.__and__", "if xmax < xmin:", "if xmax + 1e-09 < xmin:", ["R12.1"], "Box.__and__"),
    M("oncurve-squared-distance", "curve.PlanarCurve.__contains__", "distances = tuple((abs(vector) for vector in vectors))",
      "distances = tuple((vector.norm2() for vector in vectors))", ["R12.1"], "PlanarCurve.__contains__"),
    M("winding-absolute-threshold", "curve.IntegratePlanar.winding_number_linear", "wind = (angleb - anglea) / math.tau",
      "wind = (angleb - anglea) / math.tau\n    if abs(float(pointa[0] - pointb[0])) < 1e-12:\n        return 0", ["R12.1"]),
    M("round-of-a-length", "jordancurve.IntegrateJordan.winding_number", "return round(wind)", "return round(wind * float(jordan))",
      ["R12.1"], "winding_number"),
    M("winding-about-origin", "curve.IntegratePlanar.winding_number_linear",
      "float(pointa[1] - center[1]), float(pointa[0] - center[0])", "float(pointa[1]), float(pointa[0])", ["R12.2"]),
    M("lines-cross-of-positions", "curve.Intersection.lines", "param0 = diff0.cross(vector1) / denom",
      "param0 = ptb0.cross(vector1) / denom", ["R12.2"]),
    M("isclose-absolute-tolerance", "curve.Intersection.lines", "if denom != 0:", "if not math.isclose(denom, 0, abs_tol=1e-12):", ["R12.1"]),
    T("isclose-relative-only", "shape.SimpleShape.__contains_simple", "if areaA > areaB or jordana not in self:",
      "if (areaA > areaB and (not math.isclose(areaA, areaB, rel_tol=1e-12))) or jordana not in self:"),
    T("param-tolerance-value", "jordancurve.JordanCurve.split", "if abs(node) < 1e-06 or abs(node - 1) < 1e-06:",
      "if abs(node) < 1e-07 or abs(1 - node) < 1e-07:"),
    T("parallel-test-spelling", "curve.Intersection.lines", "if denom != 0:", "if not denom == 0:"),
    T("known-tolerance-value", "curve.PlanarCurve.__contains__", "if dist < 1e-06:", "if dist < 1e-07:"),
    T("relative-area-order", "shape.SimpleShape.__contains_simple", "if areaA > areaB or jordana not in self:",
      "if areaA - areaB > 0 or jordana not in self:"),
]
