"""Variants for C20."""
from selfcheck.driver import M, T

VARIANTS = [
    M("revert-F8-cubic-skipped", "plot.patch_segment",
      "elif segment.degree == 3:\n        vertices += list(segment.ctrlpoints[1:])\n        commands += [Path.CURVE4] * 3\n    else:\n        raise ValueError('Cannot plot a segment of degree %d' % segment.degree)",
      "", ["R20.1"]),
    M("cubic-as-curve3", "plot.patch_segment", "commands += [Path.CURVE4] * 3", "commands += [Path.CURVE3] * 3", ["R20.1"]),
    M("quadratic-one-code", "plot.patch_segment", "commands += [Path.CURVE3] * 2", "commands += [Path.CURVE3]", ["R20.1"]),
    M("line-uses-first-point", "plot.patch_segment", "vertices.append(segment.ctrlpoints[1])", "vertices.append(segment.ctrlpoints[0])", ["R20.1"]),
    M("unknown-degree-silent", "plot.patch_segment", "else:\n        raise ValueError('Cannot plot a segment of degree %d' % segment.degree)", "else:\n        pass", ["R20.1"]),
    M("path-jordan-not-closed", "plot.path_jordan", "commands.append(Path.CLOSEPOLY)", "commands.append(Path.LINETO)", ["R20.3"]),
    M("path-jordan-skips-first-segment", "plot.path_jordan", "for segment in jordan.segments:", "for segment in jordan.segments[1:]:", ["R20.3"]),
    M("path-shape-first-curve-only", "plot.path_shape", "for jordan in connected.jordans:", "for jordan in connected.jordans[:1]:", ["R20.3"]),
    M("path-shape-no-moveto", "plot.path_shape", "commands.append(Path.MOVETO)", "commands.append(Path.LINETO)", ["R20.3"]),
    M("path-jordan-starts-at-second-point", "plot.path_jordan", "vertices = [jordan.segments[0].ctrlpoints[0]]", "vertices = [jordan.segments[0].ctrlpoints[-1]]", ["R20.3"]),
    M("fill-decided-once", "plot.ShapePloter.plot_shape", "if float(connected) > 0:", "if float(shape) > 0:", ["R20.4"]),
    M("fill-inverted", "plot.ShapePloter.plot_shape", "if float(connected) > 0:", "if float(connected) < 0:", ["R20.4"]),
    M("empty-draws-background", "plot.ShapePloter.plot_shape", "if isinstance(shape, EmptyShape):\n        return", "if isinstance(shape, EmptyShape):\n        self.gca().set_facecolor('#BFFFBF')\n        return", ["R20.4"]),
    M("outline-colour-by-component", "plot.ShapePloter.plot_shape", "color = pos_color if float(jordan) > 0 else neg_color", "color = pos_color if float(connected) > 0 else neg_color", ["R20.4"]),
    M("outline-first-curve-only", "plot.ShapePloter.plot_shape", "for jordan in connected.jordans:", "for jordan in connected.jordans[:1]:", ["R20.4"]),
    M("disjoint-drawn-as-one", "plot.ShapePloter.plot_shape", "connecteds = shape.subshapes if isinstance(shape, DisjointShape) else [shape]", "connecteds = [shape]", ["R20.4"]),
    M("plot-cleans-shape", "plot.path_jordan", "vertices = [jordan.segments[0].ctrlpoints[0]]", "jordan.clean()\n    vertices = [jordan.segments[0].ctrlpoints[0]]", ["R20.5"]),
    T("patch-else-assert", "plot.patch_segment", "raise ValueError('Cannot plot a segment of degree %d' % segment.degree)", "raise NotImplementedError(segment.degree)"),
    T("fill-positive-area", "plot.ShapePloter.plot_shape", "if float(connected) > 0:", "if 0 < float(connected):"),
    T("path-jordan-extend", "plot.path_jordan", "vertices += verts\n        commands += comms", "vertices.extend(verts)\n        commands.extend(comms)"),
]
