"""Variants for C07."""
from selfcheck.driver import M, T

F5_BODY = """if len(self.subshapes) != len(other.subshapes):
        return False
    othe_subshapes = list(other.subshapes)
    for subshape in self.subshapes:
        for j, osbshape in enumerate(othe_subshapes):
            if subshape == osbshape:
                othe_subshapes.pop(j)
                break
        else:
            return False
    return True"""

VARIANTS = [
    M("revert-F4-degree-assert", "curve.PlanarCurve.__or__", "if self.degree != other.degree:\n        raise ValueError('Union is not a bezier curve!')",
      "assert self.degree == other.degree", ["R07.1"], "PlanarCurve.__or__"),
    M("revert-F13-cusp-division", "curve.PlanarCurve.__or__", "if denomin == 0:\n            raise ValueError('Union is not a bezier curve!')", "pass",
      ["R07.1"], "PlanarCurve.__or__"),
    M("clean-handler-narrowed", "jordancurve.JordanCurve.clean", "except ValueError:", "except TypeError:", ["R07.1"]),
    M("eq-data-assert", "jordancurve.JordanCurve.__eq__", "selcopy = self.__copy__().clean()", "selcopy = self.__copy__().clean()\n    assert float(selcopy) == float(other)", ["R07.1"]),
    M("planar-eq-asserts-npts", "curve.PlanarCurve.__eq__", "if self.npts != other.npts:\n        return False", "assert self.npts == other.npts", ["R07.1"]),
    M("simple-eq-raises-for-other-kinds", "shape.SimpleShape.__eq__", "if not isinstance(other, BaseShape):\n        raise ValueError",
      "if not isinstance(other, SimpleShape):\n        raise ValueError", ["R07.1"]),
    M("connected-eq-asserts-own-kind", "shape.ConnectedShape.__eq__", "assert isinstance(other, BaseShape)", "assert isinstance(other, ConnectedShape)", ["R07.1"]),
    M("simple-eq-raises-for-shapes", "shape.SimpleShape.__eq__", "if not isinstance(other, BaseShape):\n        raise ValueError",
      "if isinstance(other, DisjointShape):\n        raise ValueError", ["R07.1"]),
    T("simple-eq-raise-last", "shape.SimpleShape.__eq__",
      "if not isinstance(other, BaseShape):\n        raise ValueError\n    if not isinstance(other, SimpleShape):\n        return False\n    return self.jordans[0] == other.jordans[0]",
      "if isinstance(other, SimpleShape):\n        return self.jordans[0] == other.jordans[0]\n    if isinstance(other, BaseShape):\n        return False\n    raise ValueError"),
    M("revert-F5-area-only", "shape.ConnectedShape.__eq__", F5_BODY, "return True", ["R07.2"], "ConnectedShape.__eq__"),
    M("connected-eq-ordered", "shape.ConnectedShape.__eq__", F5_BODY,
      "if len(self.subshapes) != len(other.subshapes):\n        return False\n    for a, b in zip(self.subshapes, other.subshapes):\n        if a != b:\n            return False\n    return True",
      ["R07.2"], "ConnectedShape.__eq__"),
    M("connected-eq-no-length-check-no-pop", "shape.ConnectedShape.__eq__", "othe_subshapes.pop(j)\n                break", "break", ["R07.2"]),
    M("disjoint-eq-leftover-ignored", "shape.DisjointShape.__eq__", "return not (len(self_subshapes) or len(othe_subshapes))", "return True", ["R07.2"]),
    M("disjoint-eq-kind-guard-dropped", "shape.DisjointShape.__eq__", "if not isinstance(other, DisjointShape):\n        return False", "pass", ["R07.2"]),
    M("simple-eq-kind-guard-dropped", "shape.SimpleShape.__eq__", "if not isinstance(other, SimpleShape):\n        return False", "pass", ["R07.2"]),
    M("revert-F11-float-precheck", "shape.SimpleShape.__eq__", "return self.jordans[0] == other.jordans[0]",
      "if float(self) != float(other):\n        return False\n    return self.jordans[0] == other.jordans[0]", ["R07.4", "R07.2"]),
    M("disjoint-float-precheck", "shape.DisjointShape.__eq__", "self_subshapes = list(self.subshapes)",
      "if float(self) != float(other):\n        return False\n    self_subshapes = list(self.subshapes)", ["R07.4"]),
    M("point-eq-type-sensitive", "polygon.Point2D.__eq__", "if abs(self[0] - other[0]) > 1e-09:",
      "if type(self[0]) is not type(other[0]) or abs(self[0] - other[0]) > 1e-09:", ["R07.5"]),
    M("revert-F12-wrong-modulus", "jordancurve.JordanCurve.__eq__", "nsegments = len(selcopy.segments)", "nsegments = len(self.segments)", ["R07.6"]),
    M("is-rotation-wrong-modulus", "shape.FollowPath.is_rotation", "if len(oneobj) != len(other):\n        return False", "pass", ["R07.6"]),
    M("unite-wrong-tangent", "curve.PlanarCurve.__or__", "dbpt = other.ctrlpoints[1] - other.ctrlpoints[0]", "dbpt = other.ctrlpoints[-1] - other.ctrlpoints[-2]", ["R07.7"]),
    M("eq-rotation-offset-from-vertices", "jordancurve.JordanCurve.__eq__",
      "segment1 = othcopy.segments[0]\n    for index, segment0 in enumerate(selcopy.segments):\n        if segment0 == segment1:\n            break",
      "start_point = othcopy.vertices[0]\n    for index, vertex in enumerate(selcopy.vertices):\n        if vertex == start_point:\n            break", ["R07.8"]),
    M("eq-no-rotation-tolerance", "jordancurve.JordanCurve.__eq__", "segment0 = selcopy.segments[(i + index) % nsegments]", "segment0 = selcopy.segments[i]", ["R07.8"]),
    M("eq-ignores-sampling", "jordancurve.JordanCurve.__eq__", "if point not in self:\n            return False", "pass", ["R07.8"]),
    M("eq-compares-first-segment-only", "jordancurve.JordanCurve.__eq__", "if segment0 != segment1:\n            return False", "pass", ["R07.8"]),
    T("connected-eq-matching-renamed", "shape.ConnectedShape.__eq__", "othe_subshapes = list(other.subshapes)", "othe_subshapes = [s for s in other.subshapes]"),
    T("eq-modulus-inline", "jordancurve.JordanCurve.__eq__", "segment0 = selcopy.segments[(i + index) % nsegments]",
      "segment0 = selcopy.segments[(i + index) % len(selcopy.segments)]"),
    T("simple-eq-ne", "shape.SimpleShape.__eq__", "return self.jordans[0] == other.jordans[0]", "return not self.jordans[0] != other.jordans[0]"),
    T("cusp-guard-spelling", "curve.PlanarCurve.__or__", "if denomin == 0:", "if not denomin:"),
    M("eq-exact-signed-length-precheck", "jordancurve.JordanCurve.__eq__", "assert isinstance(other, JordanCurve)",
      "assert isinstance(other, JordanCurve)\n    if float(self) != float(other):\n        return False", ["R07.12"]),
    M("eq-exact-length-through-locals", "jordancurve.JordanCurve.__eq__", "assert isinstance(other, JordanCurve)",
      "assert isinstance(other, JordanCurve)\n    mine = abs(float(self))\n    theirs = abs(float(other))\n    if mine != theirs:\n        return False", ["R07.12"]),
]
