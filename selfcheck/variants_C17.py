"""Variants for C17."""
from selfcheck.driver import M, T

VARIANTS = [
    M("setter-no-identity-assert", "jordancurve.JordanCurve.segments:set", "assert id(start_point) == id(end_point)", "pass", ["R17.1"]),
    M("from-segments-no-wrap", "jordancurve.JordanCurve.from_segments", "for i, bezi in enumerate(beziers):", "for i, bezi in enumerate(beziers[:-1]):", ["R17.1"]),
    M("from-ctrlpoints-bypasses-funnel", "jordancurve.JordanCurve.from_ctrlpoints", "return cls.from_segments(beziers)", "return cls(beziers)", ["R17.1"]),
    M("from-vertices-accepts-str", "jordancurve.JordanCurve.from_vertices", "if isinstance(vertices, str):\n        raise TypeError", "pass", ["R17.1"]),
    M("vertices-dedup-by-value", "jordancurve.JordanCurve.vertices",
      "if id(point) not in ids:\n                ids.append(id(point))\n                vertices.append(point)",
      "if point not in vertices:\n                vertices.append(point)", ["R17.2"]),
    M("vertices-only-end-points", "jordancurve.JordanCurve.vertices", "for point in segment.ctrlpoints:", "for point in segment.ctrlpoints[:1]:", ["R17.2"]),
    M("box-from-end-points", "curve.PlanarCurve.box", "xmin = min((point[0] for point in self.ctrlpoints))",
      "xmin = min(self.ctrlpoints[0][0], self.ctrlpoints[-1][0])", ["R17.3"]),
    M("box-ymax-uses-x", "curve.PlanarCurve.box", "ymax = max((point[1] for point in self.ctrlpoints))", "ymax = max((point[0] for point in self.ctrlpoints))", ["R17.3"]),
    M("box-corners-swapped", "curve.PlanarCurve.box", "return Box(Point2D(xmin, ymin), Point2D(xmax, ymax))", "return Box(Point2D(xmin, ymax), Point2D(xmax, ymin))", ["R17.3"]),
    M("jordan-box-skips-last", "jordancurve.JordanCurve.box", "for bezier in self.segments:", "for bezier in self.segments[:-1]:", ["R17.3"]),
    M("shape-box-first-curve", "shape.DefinedShape.box", "for jordan in self.jordans:", "for jordan in self.jordans[:1]:", ["R17.3"]),
    M("box-or-intersects", "polygon.Box.__or__", "xmin = min(self.lowpt[0], other.lowpt[0])", "xmin = max(self.lowpt[0], other.lowpt[0])", ["R17.3"]),
    M("box-ror-none", "polygon.Box.__ror__", "return self", "return other", ["R17.3"]),
    M("signed-length-sign-flipped", "jordancurve.JordanCurve.__float__", "self.__lenght = lenght if area > 0 else -lenght", "self.__lenght = lenght if area < 0 else -lenght", ["R17.4"]),
    M("signed-length-unsigned", "jordancurve.JordanCurve.__float__", "self.__lenght = lenght if area > 0 else -lenght", "self.__lenght = lenght", ["R17.4"]),
    T("box-sorted-form", "curve.PlanarCurve.box", "xmin = min((point[0] for point in self.ctrlpoints))", "xmin = sorted((point[0] for point in self.ctrlpoints))[0]"),
    T("signed-length-if", "jordancurve.JordanCurve.__float__", "self.__lenght = lenght if area > 0 else -lenght", "self.__lenght = -lenght if area <= 0 else lenght"),
    T("box-or-tuple", "polygon.Box.__or__", "xmin = min(self.lowpt[0], other.lowpt[0])", "xmin = min((self.lowpt[0], other.lowpt[0]))"),
]
