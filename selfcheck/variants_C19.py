"""Variants for C19."""
from selfcheck.driver import M, T, M2

VARIANTS = [
    M("connected-is-exists", "shape.ConnectedShape._contains_point",
      "if not subshape.contains_point(point, boundary):\n            return False\n    return True",
      "if subshape.contains_point(point, boundary):\n            return True\n    return False", ["R19.1a"]),
    M("connected-float-first-only", "shape.ConnectedShape.__float__", "return sum(map(float, self.subshapes))", "return float(self.subshapes[0])", ["R19.1b"]),
    M("connected-order-unsorted", "shape.ConnectedShape.subshapes:set", "values = sorted(zip(areas, values), key=algori, reverse=True)", "values = list(zip(areas, values))", ["R19.2"]),
    M("connected-order-ascending", "shape.ConnectedShape.subshapes:set", "values = sorted(zip(areas, values), key=algori, reverse=True)", "values = sorted(zip(areas, values), key=algori)", ["R19.2"]),
    M("disjoint-order-unsorted", "shape.DisjointShape.subshapes:set", "values = sorted(zip(areas, lenghts, values), key=algori, reverse=True)", "values = list(zip(areas, lenghts, values))", ["R19.2"]),
    M("disjoint-order-by-abs-area", "shape.DisjointShape.subshapes:set", "areas = map(float, values)", "areas = [abs(float(v)) for v in values]", ["R19.2"]),
    M2("collapse-before-empty-removal", [
        ("shape.DisjointShape.__new__", "if len(subshapes) == 1:\n        return copy(subshapes[0])", "pass"),
        ("shape.DisjointShape.__new__", "subshapes = list(subshapes)", "subshapes = list(subshapes)\n    if len(subshapes) == 1:\n        return copy(subshapes[0])")],
       ["R19.3"]),
    M("single-not-copied", "shape.DisjointShape.__new__", "return copy(subshapes[0])", "return subshapes[0]", ["R19.3"]),
    M("empty-not-removed", "shape.DisjointShape.__new__", "while EmptyShape() in subshapes:\n        subshapes.remove(EmptyShape())", "pass", ["R19.3"]),
    M("empty-list-instance", "shape.DisjointShape.__new__", "if len(subshapes) == 0:\n        return EmptyShape()", "pass", ["R19.3"]),
    M("only-first-empty-removed", "shape.DisjointShape.__new__", "while EmptyShape() in subshapes:", "if EmptyShape() in subshapes:", ["R19.3"]),
    M("init-overwrites", "shape.DisjointShape.__init__", "super().__init__()", "super().__init__()\n    self.subshapes = subshapes", ["R19.3"]),
    M("connected-invert-stays-connected", "shape.ConnectedShape.__invert__", "return DisjointShape(simples)", "return ConnectedShape(simples)", ["R19.4"]),
    T("order-key-tuple", "shape.ConnectedShape.subshapes:set", "algori = lambda pair: pair[0]", "algori = lambda pair: (pair[0],)"),
    T("empty-removal-comprehension", "shape.DisjointShape.__new__", "while EmptyShape() in subshapes:\n        subshapes.remove(EmptyShape())",
      "subshapes = [s for s in subshapes if s is not EmptyShape()]"),
    # higher-order spellings (normalised at parse time, verifkit/funcnorm.py)
    T("disjoint-area-by-reduce", "shape.DisjointShape.__float__", "total = 0\n    for subshape in self.subshapes:\n        total += float(subshape)\n    return float(total)",
      "total = functools.reduce(operator.add, map(float, self.subshapes), 0)\n    return float(total)"),
    M("disjoint-area-by-reduce-of-abs", "shape.DisjointShape.__float__", "total = 0\n    for subshape in self.subshapes:\n        total += float(subshape)\n    return float(total)",
      "total = functools.reduce(operator.add, map(abs, map(float, self.subshapes)), 0)\n    return float(total)", ["R19.1b", "R19.1"]),
    M("disjoint-area-by-reduce-skips-first", "shape.DisjointShape.__float__", "total = 0\n    for subshape in self.subshapes:\n        total += float(subshape)\n    return float(total)",
      "total = functools.reduce(operator.add, map(float, self.subshapes[1:]), 0)\n    return float(total)", ["R19.1b", "R19.1"]),
    M("connected-point-box-reject", "shape.ConnectedShape._contains_point", "for subshape in self.subshapes:", "if point not in self.box():\n        return False\n    for subshape in self.subshapes:", ["R19.1c", "R19.1"]),
]
