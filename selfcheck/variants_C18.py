"""Variants for C18."""
from selfcheck.driver import M, T, M2

VARIANTS = [
    M("derivative-same-degree", "curve.Derivate.non_rational_bezier", "derive = Derivate.non_rational_bezier_once(degree - i)", "derive = Derivate.non_rational_bezier_once(degree)", ["R18.1"]),
    M("derivative-right-multiplied", "curve.Derivate.non_rational_bezier", "matrix = np.dot(derive, matrix)", "matrix = np.dot(matrix, derive)", ["R18.1"]),
    M("derivative-one-too-many", "curve.Derivate.non_rational_bezier", "for i in range(times):", "for i in range(times + 1):", ["R18.1"]),
    M("derivative-zero-wrong-width", "curve.Derivate.non_rational_bezier", "return ((0,) * (degree + 1),)", "return ((0,) * degree,)", ["R18.1"]),
    M("call-scalar-returns-tuple", "curve.BaseCurve.__call__", "return self.eval((nodes,))[0]", "return self.eval((nodes,))", ["R18.2"]),
    M("call-iterable-first-only", "curve.BaseCurve.__call__", "iter(nodes)\n        return self.eval(nodes)", "iter(nodes)\n        return self.eval(nodes[:1])", ["R18.2"]),
    M("memo-key-incomplete", "curve.Operations.degree_decrease", "if (degree, times) not in Operations.__degree_decre:", "if degree not in Operations.__degree_decre:", ["R18.3a"]),
    M2("derivative-cached-on-object", [("curve.BezierCurve.derivate", "matrix = Derivate.non_rational_bezier(self.degree, times)\n    new_ctrlpoints = np.dot(matrix, self.ctrlpoints)\n    return self.__class__(new_ctrlpoints)",
        "if times not in self.__derivated:\n        matrix = Derivate.non_rational_bezier(self.degree, times)\n        new_ctrlpoints = np.dot(matrix, self.ctrlpoints)\n        self.__derivated[times] = self.__class__(new_ctrlpoints)\n    return self.__derivated[times]"),
        ("curve.BezierCurve.ctrlpoints:set", "self.__ctrlpoints = tuple(other)", "self.__ctrlpoints = tuple(other)\n    self.__derivated = {}"),
        ("curve.PlanarCurve.derivate", "matrix = Derivate.non_rational_bezier(self.degree, times)\n    new_ctrlpoints = np.dot(matrix, self.ctrlpoints)\n    return self.__class__(new_ctrlpoints)",
         "return self.__class__(self.__planar.derivate(times).ctrlpoints)")], ["R18.3b"]),
    M("box-from-end-points", "curve.PlanarCurve.box", "ymin = min((point[1] for point in self.ctrlpoints))", "ymin = min(self.ctrlpoints[0][1], self.ctrlpoints[-1][1])", ["R18.4"]),
    M("contains-ignores-box", "curve.PlanarCurve.__contains__", "if point not in self.box():\n        return False", "if point not in self.box():\n        return True", ["R18.5"]),
    M("contains-all-distances", "curve.PlanarCurve.__contains__", "if dist < 1e-06:\n            return True\n    return False", "if dist >= 1e-06:\n            return False\n    return True", ["R18.5"]),
    M("winding-wrap-missing", "curve.IntegratePlanar.winding_number_linear", "if abs(wind) < 0.5:\n        return wind\n    return wind - 1 if wind > 0 else wind + 1", "return wind", ["R18.6"]),
    M("winding-wrap-wrong-side", "curve.IntegratePlanar.winding_number_linear", "return wind - 1 if wind > 0 else wind + 1", "return wind + 1 if wind > 0 else wind - 1", ["R18.6"]),
    M("winding-normalised-by-pi", "curve.IntegratePlanar.winding_number_linear", "wind = (angleb - anglea) / math.tau", "wind = (angleb - anglea) / math.pi", ["R18.6"]),
    M("comb-off-by-one", "curve.Math.comb", "for j in range(n - i + 1, n + 1):", "for j in range(n - i + 2, n + 1):", ["R18.7"]),
    M("caract-sign", "curve.Math.bezier_caract_matrix", "matrix[i, j] = -val if (degree + i + j) % 2 else val", "matrix[i, j] = -val if (i + j) % 2 else val", ["R18.7"]),
    M("caract-binomial", "curve.Math.bezier_caract_matrix", "val = Math.comb(degree, i) * Math.comb(degree - i, j)", "val = Math.comb(degree, i) * Math.comb(degree, j)", ["R18.7"]),
    M("horner-order", "curve.Math.horner_method", "value *= node\n        value += coef", "value += coef\n        value *= node", ["R18.7"]),
    M("open-linspace-closed", "curve.Math.open_linspace", "for num in range(1, 2 * npts, 2)", "for num in range(0, 2 * npts, 2)", ["R18.7"]),
    M("closed-linspace-denominator", "curve.Math.closed_linspace", "Fraction(num, npts - 1)", "Fraction(num, npts)", ["R18.7"]),
    M("winding-default-samples-degree", "curve.IntegratePlanar.winding_number", "nnodes = curve.npts if nnodes is None else nnodes", "nnodes = curve.degree if nnodes is None else nnodes", ["R18.8"]),
    M("winding-skips-last-chord", "curve.IntegratePlanar.winding_number", "zip(nodes[:-1], nodes[1:])", "zip(nodes[:-2], nodes[1:-1])", ["R18.8"]),
    M("derivate-transposed-product", "curve.PlanarCurve.derivate", "np.dot(matrix, self.ctrlpoints)", "np.dot(self.ctrlpoints, matrix)", ["R18.8"]),
    T("call-dispatch-hasattr", "curve.BaseCurve.__call__", "iter(nodes)\n        return self.eval(nodes)", "nodes = tuple(nodes)\n        return self.eval(nodes)"),
    T("winding-wrap-as-if", "curve.IntegratePlanar.winding_number_linear", "return wind - 1 if wind > 0 else wind + 1", "if wind > 0:\n        return wind - 1\n    return wind + 1"),
    T("derivative-loop-var", "curve.Derivate.non_rational_bezier", "for i in range(times):\n        derive = Derivate.non_rational_bezier_once(degree - i)", "for k in range(times):\n        derive = Derivate.non_rational_bezier_once(degree - k)"),
    # the characteristic matrix is symmetric (its (i, j) entry is C(p, i) C(p - i, j) (-1)^(p + i + j) = p! / (i! j! (p-i-j)!)
    # up to the sign): multiplying from the other side gives the same canonical points
    T("eval-matrix-on-the-other-side", "curve.BezierCurve.eval", "canon_pts = np.dot(self.ctrlpoints, matrix)", "canon_pts = np.dot(matrix, self.ctrlpoints)"),
    M("eval-results-reversed", "curve.BezierCurve.eval", "results[k] = Math.horner_method(node, canon_pts)", "results[-1 - k] = Math.horner_method(node, canon_pts)", ["R18.13"]),
]
