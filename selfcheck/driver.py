"""Checker self-validation (thorough tier).

For every rule a set of single-edit variants of the *current* tree is generated
(edits are applied to the normalised `ast.unparse` text of one function, so they
do not depend on formatting or line numbers), written to a scratch directory
outside /repo and /verif, analysed statically by the same rules, and removed.

  mutant : a breaking edit  -> the check must report a violation of the expected
           rule (and, when given, name the expected construct)
  twin   : a behaviour-preserving edit -> the check must stay silent

A missed mutant or a noisy twin means the *checker* is broken: it is reported as
ANALYSIS-ERROR (exit 2), never as a property violation.  A variant whose anchor
text is not present in the current tree is skipped and listed.
"""
from __future__ import annotations

import ast
import concurrent.futures as cf
import glob
import importlib
import os
import random
import shutil
import subprocess
import sys
import tempfile
import warnings

ROOT = os.path.dirname(os.path.dirname(os.path.abspath(__file__)))


class Variant:
    def __init__(self, name, kind, target, old, new, expect=(), construct=None, why="", count=1):
        """target: function qname ('shape.DefinedShape.__or__', setters with ':set'),
        or 'mod:<module>' to edit the unparsed module text"""
        self.name, self.kind, self.target, self.old, self.new = name, kind, target, old, new
        self.expect = tuple(expect)
        self.construct = construct
        self.why = why
        self.count = count


def M(name, target, old, new, expect, construct=None, why="", count=1):
    return Variant(name, "mutant", target, old, new, expect, construct, why, count)


def T(name, target, old, new, why="", count=1):
    return Variant(name, "twin", target, old, new, (), None, why, count)


def M2(name, edits, expect, construct=None, why=""):
    """mutant made of several cooperating edits [(target, old, new), ...]"""
    return Variant(name, "mutant", list(edits), None, None, expect, construct, why)


def T2(name, edits, why=""):
    return Variant(name, "twin", list(edits), None, None, (), None, why)


def _find_fn(tree, cls, name, setter):
    body = tree.body
    if cls:
        for n in body:
            if isinstance(n, ast.ClassDef) and n.name == cls:
                body = n.body
                break
        else:
            return None, None
    for i, n in enumerate(body):
        if isinstance(n, ast.FunctionDef) and n.name == name:
            decos = [ast.unparse(d) for d in n.decorator_list]
            is_set = any(d.endswith(".setter") for d in decos)
            if is_set == setter:
                return body, i
    return None, None


def apply_variant(src, dst, v):
    """copy the package from src to dst with variant v applied.
    returns None on success or a string saying why it is not applicable."""
    os.makedirs(dst, exist_ok=True)
    for f in glob.glob(os.path.join(src, "*.py")):
        shutil.copy(f, dst)
    if isinstance(v.target, (list, tuple)):       # several cooperating sites
        for (target, old, new) in v.target:
            na = _apply_one(dst, Variant(v.name, v.kind, target, old, new))
            if na:
                return na
        return None
    return _apply_one(dst, v)


def _apply_one(dst, v):
    if v.target.startswith("mod:"):
        mod = v.target[4:]
        path = os.path.join(dst, mod + ".py")
        with warnings.catch_warnings():
            warnings.simplefilter("ignore")
            text = ast.unparse(ast.parse(open(path).read()))
        if text.count(v.old) < 1:
            return f"anchor text not found in module {mod}"
        text = text.replace(v.old, v.new, v.count)
        ast.parse(text)
        open(path, "w").write(text)
        return None
    q = v.target
    setter = q.endswith(":set")
    if setter:
        q = q[:-4]
    parts = q.split(".")
    mod, cls, name = (parts[0], None, parts[1]) if len(parts) == 2 else (parts[0], parts[1], parts[2])
    path = os.path.join(dst, mod + ".py")
    if not os.path.exists(path):
        return f"module {mod} not found"
    with warnings.catch_warnings():
        warnings.simplefilter("ignore")
        tree = ast.parse(open(path).read())
    body, i = _find_fn(tree, cls, name, setter)
    if body is None:
        return f"function {v.target} not found"
    text = ast.unparse(body[i])
    if text.count(v.old) < 1:
        return "anchor text not found in " + v.target
    text = text.replace(v.old, v.new, v.count)
    try:
        new = ast.parse(text).body
    except SyntaxError as e:
        return f"edited text does not parse: {e}"
    body[i:i + 1] = new
    ast.fix_missing_locations(tree)
    with warnings.catch_warnings():
        warnings.simplefilter("ignore")
        open(path, "w").write(ast.unparse(tree))
    return None


def apply_patch(src, dst, patch):
    """seeded change: a unified diff against the repository root (a/src/shapepy/...)"""
    root = os.path.join(dst, "root")
    pk = os.path.join(root, "src", "shapepy")
    os.makedirs(pk, exist_ok=True)
    for f in glob.glob(os.path.join(src, "*.py")):
        shutil.copy(f, pk)
    r = subprocess.run(["patch", "-p1", "-s", "-f", "--no-backup-if-mismatch", "-d", root, "-i", patch],
                       capture_output=True, text=True)
    if r.returncode != 0:
        return None, "patch does not apply to the current tree"
    return pk, None


def _work(args):
    prop, src, kind, payload = args
    warnings.simplefilter("ignore")
    sys.path.insert(0, ROOT)
    import check
    from verifkit import core
    tmp = tempfile.mkdtemp(prefix="verif_variant_")
    try:
        if kind == "patch":
            vsrc, na = apply_patch(src, tmp, payload)
        else:
            vsrc = os.path.join(tmp, "shapepy")
            na = apply_variant(src, vsrc, payload)
        if na:
            return {"na": na}
        outcomes, errors, ctx, mod = check.analyse(prop, vsrc)
        viol, kn, und, errors = core.classify(prop, outcomes, errors)
        return {"na": None,
                "violations": [(o.rule, i.construct, i.fact) for o, i in viol],
                "undecided": [(o.rule, i.construct, i.fact) for o, i in und],
                "errors": errors}
    except Exception as e:
        return {"na": None, "violations": [], "undecided": [], "errors": [f"{type(e).__name__}: {e}"]}
    finally:
        shutil.rmtree(tmp, ignore_errors=True)


def seeded_for(prop):
    out = []
    for d in sorted(glob.glob(os.path.join(ROOT, "seeded", "*"))):
        meta = os.path.join(d, "meta.json")
        patch = os.path.join(d, "patch.diff")
        if not (os.path.exists(meta) and os.path.exists(patch)):
            continue
        import json
        m = json.load(open(meta))
        if prop in m.get("caught_by", []):
            out.append((os.path.basename(d), patch))
    return out


def neutral_patches():
    """behaviour-preserving refactors of whole modules (written independently of the checker): every check must
    stay silent on them"""
    return [(os.path.basename(os.path.dirname(p)), p) for p in sorted(glob.glob(os.path.join(ROOT, "neutral", "*", "patch.diff")))]


def run(prop, ctx, seed=0):
    from verifkit.core import Outcome
    try:
        mod = importlib.import_module(f"selfcheck.variants_{prop}")
        variants = list(mod.VARIANTS)
    except ModuleNotFoundError:
        variants = []
    random.Random(seed).shuffle(variants)
    src = ctx.model.src
    jobs = [(prop, src, "edit", v) for v in variants]
    seeded = seeded_for(prop)
    jobs += [(prop, src, "patch", p) for _, p in seeded]
    names = [(v.name, v.kind, v) for v in variants] + [("seeded/" + n, "mutant", None) for n, _ in seeded]
    neutral = neutral_patches()
    jobs += [(prop, src, "patch", p) for _, p in neutral]
    names += [("neutral/" + n, "twin", None) for n, _ in neutral]
    errors, rows = [], []
    out = Outcome("SELF", "checker self-validation: breaking single-edit variants of the current tree must be "
                          "reported with the expected rule, behaviour-preserving twins must stay silent", floor=0)
    if not jobs:
        return {"summary": {"variants": 0}, "errors": [], "outcomes": []}
    with cf.ProcessPoolExecutor(max_workers=min(16, len(jobs))) as ex:
        results = list(ex.map(_work, jobs))
    caught = silent = skipped = 0
    for (name, kind, v), r in zip(names, results):
        if r["na"]:
            skipped += 1
            rows.append({"variant": name, "kind": kind, "result": "skipped: " + r["na"]})
            if "does not parse" in r["na"]:
                errors.append(f"SELF: variant `{name}` is malformed: {r['na']}")
            continue
        viol = r["violations"]
        if name.startswith("neutral/"):
            # a recorded (known) finding that a refactor moved into another function is the same finding, not an
            # alarm of the checker: compare by (rule, fact) for the neutral patches
            from verifkit.core import load_known
            moved = {(k["rule"], k["fact"]) for k in load_known() if k["property"] == prop and k.get("status") == "known"}
            viol = [x for x in viol if (x[0], x[2]) not in moved]
        if kind == "mutant":
            hit = [x for x in viol if (v is None or not v.expect or x[0] in v.expect)
                   and (v is None or v.construct is None or v.construct in x[1])]
            if hit:
                caught += 1
                rows.append({"variant": name, "kind": kind, "result": "reported", "by": list(hit[0])})
                out.ok("variant:" + name, "breaking edit reported by " + hit[0][0])
            else:
                errors.append(f"SELF: mutant `{name}` was NOT reported by {list(v.expect) if v else 'any rule'}"
                              f" (got violations {viol[:3]}, undecided {r['undecided'][:2]}, errors {r['errors'][:2]})")
                rows.append({"variant": name, "kind": kind, "result": "MISSED", "got": viol[:3]})
        else:
            if viol or r["undecided"] or r["errors"]:
                errors.append(f"SELF: behaviour-preserving twin `{name}` raised "
                              f"{(viol or r['undecided'] or r['errors'])[:2]}")
                rows.append({"variant": name, "kind": kind, "result": "NOISY", "got": (viol or r["undecided"] or r["errors"])[:3]})
            else:
                silent += 1
                rows.append({"variant": name, "kind": kind, "result": "silent"})
                out.ok("variant:" + name, "behaviour-preserving edit accepted")
    summary = {"variants": len(jobs), "mutants_reported": caught, "twins_silent": silent, "skipped": skipped,
               "rows": rows}
    return {"summary": summary, "errors": errors, "outcomes": [out]}
