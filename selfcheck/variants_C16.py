"""Variants for C16."""
from selfcheck.driver import M, T

TRI_TRY = "try:\n        float(side)\n        assert side > 0\n        center = Point2D(center)\n    except (ValueError, TypeError, AssertionError):\n        raise ValueError('Input invalid')"

VARIANTS = [
    M("revert-F7-triangle-unvalidated", "primitive.Primitive.triangle", TRI_TRY, "center = Point2D(center)", ["R16.1"]),
    M("square-accepts-zero", "primitive.Primitive.square", "assert side > 0", "assert side >= 0", ["R16.1"]),
    M("square-handler-misses-assert", "primitive.Primitive.square", "except (ValueError, TypeError, AssertionError):", "except (ValueError, TypeError):", ["R16.1"]),
    M("circle-min-divisions-3", "primitive.Primitive.circle", "assert ndivangle >= 4", "assert ndivangle >= 3", ["R16.1"]),
    M("circle-min-divisions-5", "primitive.Primitive.circle", "assert ndivangle >= 4", "assert ndivangle > 4", ["R16.1"]),
    M("regular-accepts-float-nsides", "primitive.Primitive.regular_polygon", "assert isinstance(nsides, int)", "float(nsides)", ["R16.1"]),
    M("regular-min-sides-2", "primitive.Primitive.regular_polygon", "assert nsides >= 3", "assert nsides >= 2", ["R16.1"]),
    M("circle-centre-outside-try", "primitive.Primitive.circle", "center = Point2D(center)\n        assert isinstance(ndivangle, int)",
      "assert isinstance(ndivangle, int)", ["R16.1"]),
    M("polygon-reverses", "primitive.Primitive.polygon", "vertices = tuple((Point2D(vertex) for vertex in vertices))",
      "vertices = tuple((Point2D(vertex) for vertex in reversed(vertices)))", ["R16.2"]),
    M("polygon-drops-duplicates", "primitive.Primitive.polygon", "vertices = tuple((Point2D(vertex) for vertex in vertices))",
      "vertices = tuple((Point2D(vertex) for vertex in vertices))[:-1]", ["R16.2"]),
    M("from-vertices-no-closing-segment", "jordancurve.JordanCurve.from_vertices", "vertices.append(vertices[0])", "vertices.append(vertices[-1])", ["R16.2"]),
    M("square-clockwise", "primitive.Primitive.square", "vertices = [(side, side), (-side, side), (-side, -side), (side, -side)]",
      "vertices = [(side, side), (side, -side), (-side, -side), (-side, side)]", ["R16.3"]),
    M("square-not-halved", "primitive.Primitive.square", "side /= 2", "side /= 1", ["R16.3"]),
    M("square-centre-ignored", "primitive.Primitive.square", "vertices = [center + Point2D(vertex) for vertex in vertices]",
      "vertices = [Point2D(vertex) for vertex in vertices]", ["R16.3"]),
    M("triangle-clockwise", "primitive.Primitive.triangle", "vertices = [(0, 0), (side, 0), (0, side)]", "vertices = [(0, 0), (0, side), (side, 0)]", ["R16.3"]),
    M("regular4-wrong-vertex", "primitive.Primitive.regular_polygon", "(-radius, 0), (0, -radius)]", "(-radius, 0), (0, radius)]", ["R16.3"]),
    M("circle-not-closed", "primitive.Primitive.circle", "end_point = beziers[0].ctrlpoints[0]", "end_point = copy(start_point).rotate(angle)", ["R16.4"]),
    M("circle-one-arc-short", "primitive.Primitive.circle", "for i in range(ndivangle - 1):", "for i in range(ndivangle - 2):", ["R16.4"]),
    M("circle-clockwise-step", "primitive.Primitive.circle", "angle = math.tau / ndivangle", "angle = -math.tau / ndivangle", ["R16.4"]),
    M("circle-middle-not-rotated", "primitive.Primitive.circle", "middle_point = copy(middle_point).rotate(angle)", "middle_point = copy(middle_point)", ["R16.4"]),
    M("circle-not-moved", "primitive.Primitive.circle", "jordan_curve.move(center)", "pass", ["R16.4"]),
    M("circle-height-full-angle", "primitive.Primitive.circle", "height = np.tan(angle / 2)", "height = np.tan(angle)", ["R16.4"]),
    M("circle-radius-once", "primitive.Primitive.circle", "middle_point = radius * Point2D(1, height)", "middle_point = Point2D(1, height)", ["R16.4"]),
    T("square-validation-order", "primitive.Primitive.square", "float(side)\n        assert side > 0", "assert float(side) > 0"),
    T("triangle-vertex-loop", "primitive.Primitive.triangle", "vertices = tuple((center + Point2D(vertex) for vertex in vertices))",
      "vertices = [center + Point2D(vertex) for vertex in vertices]"),
    T("circle-range-spelling", "primitive.Primitive.circle", "for i in range(ndivangle - 1):", "for i in range(1, ndivangle):"),
]
