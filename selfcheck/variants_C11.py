"""Variants for C11."""
from selfcheck.driver import M, T, M2, T2
from selfcheck.variants_C08 import F3_OLD, F3_REVERT

F3_TRY_FINALLY = """contains = False
        self.invert()
        try:
            for subshape in other.subshapes:
                subshape.invert()
                try:
                    if self in subshape:
                        contains = True
                finally:
                    subshape.invert()
                if contains:
                    break
        finally:
            self.invert()
        return contains"""

VARIANTS = [
    M("revert-F3-inplace-invert", "shape.SimpleShape._contains_shape", F3_OLD, F3_REVERT, ["R11.1"], "_contains_shape"),
    M("inplace-invert-try-finally", "shape.SimpleShape._contains_shape", F3_OLD, F3_TRY_FINALLY, ["R11.1"], "_contains_shape",
      why="a try/finally restore still leaves the operands inverted when the interrupt lands inside the restoring call"),
    M("contains-point-temp-move", "shape.SimpleShape._contains_point", "jordan = self.jordans[0]\n",
      "jordan = self.jordans[0]\n    jordan.move(point)\n    jordan.move(-point)\n", ["R11.1"]),
    M("eq-temporarily-cleans", "jordancurve.JordanCurve.__eq__", "selcopy = self.__copy__().clean()", "selcopy = self.clean()",
      ["R11.1"]),
    M("setter-work-after-store", "jordancurve.JordanCurve.segments:set",
      "self.__segments = tuple(segments)", "self.__segments = tuple(segments)\n    for segment in self.__segments:\n        segment.clean()",
      ["R11.2"]),
    M("invert-direct-store", "jordancurve.JordanCurve.invert", "self.segments = tuple(new_segments)",
      "self.__segments = tuple(new_segments)", ["R11.2"]),
    M("split-segment-mutates-live", "jordancurve.JordanCurve.__split_segment", "points = list(new_segments[0].ctrlpoints)",
      "segment.ctrlpoints = segment.ctrlpoints\n    points = list(new_segments[0].ctrlpoints)", ["R11.2"]),
    M("split-segment-two-commits", "jordancurve.JordanCurve.__split_segment", "total_segments.pop(index)\n",
      "total_segments.pop(index)\n    self.segments = total_segments\n", ["R11.2"]),
    M("split-segment-work-after-commit", "jordancurve.JordanCurve.__split_segment", "self.segments = total_segments",
      "self.segments = total_segments\n    self.clean()", ["R11.2", "R11.1"]),
    M("float-incremental-fill", "jordancurve.JordanCurve.__float__",
      "lenght = IntegrateJordan.lenght(self)\n        area = IntegrateJordan.area(self)\n        self.__lenght = lenght if area > 0 else -lenght",
      "self.__lenght = IntegrateJordan.lenght(self)\n        if IntegrateJordan.area(self) <= 0:\n            self.__lenght *= -1",
      ["R11.2"]),
    # since F14 (products computed before the first store) a factor that cannot multiply a coordinate is rejected
    # before any write even without the float() calls: behaviour-preserving for this property
    # ... except for a factor beyond the range of floats (10**400): it multiplies the exact coordinates of the first
    # vertices and fails on the first float one, so without any float() validation the figure is left half scaled
    M2("scale-unvalidated-both-levels", [("jordancurve.JordanCurve.scale", "float(yscale)", "pass"),
                                         ("polygon.Point2D.scale", "float(yscale)", "pass")], ["R11.4"]),
    T2("rotate-unvalidated-both-levels", [("jordancurve.JordanCurve.rotate", "float(angle)", "pass"),
                                          ("polygon.Point2D.rotate", "float(angle)", "pass")]),
    M("shape-move-writes-first", "shape.DefinedShape.move", "point = Point2D(*point)\n",
      "point = Point2D(*point)\n    self.jordans[0].vertices[0].move(point)\n", ["R11.3"]),
    T("scale-validated-at-point-level-only", "jordancurve.JordanCurve.scale", "float(yscale)", "pass"),
    T("move-validate-by-assert", "jordancurve.JordanCurve.move", "point = Point2D(*point)", "point = Point2D(*point)\n    assert isinstance(point, Point2D)"),
    T("F3-loop-as-any", "shape.SimpleShape._contains_shape", F3_OLD,
      "inverted = ~self\n        return any((inverted in ~subshape for subshape in other.subshapes))"),
    M("point-scale-writes-x-before-y-product", "polygon.Point2D.scale",
      "new_x = self._x * xscale\n    new_y = self._y * yscale\n    self._x = new_x\n    self._y = new_y",
      "self._x = self._x * xscale\n    self._y = self._y * yscale", ["R11.4"]),
    M("point-move-writes-x-before-y-sum", "polygon.Point2D.move",
      "new_x = self._x + vector[0]\n    new_y = self._y + vector[1]\n    self._x = new_x\n    self._y = new_y",
      "self._x += vector[0]\n    self._y += vector[1]", ["R11.4"]),
    T("point-move-tuple-store", "polygon.Point2D.move", "self._x = new_x\n    self._y = new_y", "self._x, self._y = (new_x, new_y)"),
    T("point-scale-tuple-store", "polygon.Point2D.scale", "self._x = new_x\n    self._y = new_y", "self._x, self._y = (new_x, new_y)"),
]
