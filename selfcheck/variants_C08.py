"""Variants for C08 (engine O)."""
from selfcheck.driver import M, T

F3_OLD = """inverted = ~self
        for subshape in other.subshapes:
            if inverted in ~subshape:
                return True
        return False"""
F3_REVERT = """contains = False
        self.invert()
        for subshape in other.subshapes:
            subshape.invert()
            if self in subshape:
                contains = True
            subshape.invert()
            if contains:
                break
        self.invert()
        return contains"""

VARIANTS = [
    M("or-returns-self", "shape.DefinedShape.__or__", "if other in self:\n        return copy(self)",
      "if other in self:\n        return self", ["R08.1"], "DefinedShape.__or__"),
    M("and-returns-other", "shape.DefinedShape.__and__", "if other in self:\n        return copy(other)",
      "if other in self:\n        return other", ["R08.1"], "DefinedShape.__and__"),
    M("empty-or-returns-other", "shape.EmptyShape.__or__", "return copy(other)", "return other", ["R08.1"],
      "EmptyShape.__or__"),
    M("whole-and-returns-other", "shape.WholeShape.__and__", "return copy(other)", "return other", ["R08.1"],
      "WholeShape.__and__"),
    M("follow-path-no-copy", "shape.FollowPath.indexs_to_jordan", "new_bezier = copy(new_bezier)", "new_bezier = new_bezier", ["R08.1", "R08.4"]),
    M("jordan-deepcopy-shares-points", "jordancurve.JordanCurve.__deepcopy__",
      "list((copy(point) for point in segment.ctrlpoints))", "list((point for point in segment.ctrlpoints))",
      ["R08.1", "R08.3"], "JordanCurve.__deepcopy__"),
    M("planar-deepcopy-alias", "curve.PlanarCurve.__deepcopy__", "copy(point) for point", "Point2D(point) for point",
      ["R08.1", "R08.3"], "PlanarCurve.__deepcopy__"),
    M("point-deepcopy-alias", "polygon.Point2D.__deepcopy__", "self.__class__(self._x, self._y)", "self.__class__(self)",
      ["R08.1", "R08.3"], "Point2D.__deepcopy__"),
    M("contains-point-temp-move", "shape.SimpleShape._contains_point", "jordan = self.jordans[0]\n",
      "jordan = self.jordans[0]\n    jordan.move(point)\n    jordan.move(-point)\n", ["R08.4"], "_contains_point"),
    M("adopt-without-copy", "shape.SimpleShape.__set_jordancurve", "self.__jordancurve = copy(other)",
      "self.__jordancurve = other", ["R08.2"]),
    M("revert-F3-inplace-invert", "shape.SimpleShape._contains_shape", F3_OLD, F3_REVERT, ["R08.4"], "_contains_shape"),
    M("invert-op-in-place", "shape.SimpleShape.__invert__", "self.__class__(~self.jordans[0])",
      "self.__class__(self.jordans[0].invert())", ["R08.4"], "SimpleShape.__invert__"),
    M("jordan-invert-op-in-place", "jordancurve.JordanCurve.__invert__", "self.__copy__().invert()",
      "self.invert()", ["R08.1", "R08.4"]),
    M("eq-cleans-operand", "jordancurve.JordanCurve.__eq__", "selcopy = self.__copy__().clean()", "selcopy = self.clean()",
      ["R08.4"], "JordanCurve.__eq__"),
    M("abs-returns-self", "jordancurve.JordanCurve.__abs__", "return copy if float(self) > 0 else copy.invert()",
      "return self if float(self) > 0 else copy.invert()", ["R08.1"]),
    M("point-add-in-place", "polygon.Point2D.__add__", "new = self.__copy__()", "new = self", ["R08.1", "R08.4"]),
    M("box-query-moves", "jordancurve.JordanCurve.box", "box = None\n", "box = None\n    self.clean()\n", ["R08.4"]),
    T("copy-to-new-local", "shape.DefinedShape.__or__", "if other in self:\n        return copy(self)",
      "if other in self:\n        result = copy(self)\n        return result"),
    T("deepcopy-spelling", "shape.DefinedShape.__and__", "if self in other:\n        return copy(self)",
      "if self in other:\n        return self.__deepcopy__(None)"),
    T("follow-path-rename", "shape.FollowPath.indexs_to_jordan",
      "new_bezier = jordans[index_jordan].segments[index_segment]\n        new_bezier = copy(new_bezier)\n        beziers.append(new_bezier)",
      "piece = copy(jordans[index_jordan].segments[index_segment])\n        beziers.append(piece)"),
    T("invert-via-copy", "jordancurve.JordanCurve.__invert__", "self.__copy__().invert()", "copy(self).invert()"),
]
