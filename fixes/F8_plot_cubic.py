"""C20 / R20.1: patch_segment silently skipped cubic segments."""
import sys
from shapepy.curve import PlanarCurve
from shapepy.plot import patch_segment
seg = PlanarCurve([(0, 0), (1, 0), (1, 1), (0, 1)])
v, c = patch_segment(seg)
print(v, c)
sys.exit(0 if len(v) == 3 and len(c) == 3 else 1)
