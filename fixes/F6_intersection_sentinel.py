"""C14 / R14.1: PlanarCurve.__and__ returned () both for 'identical segments'
and for 'boxes overlap but no crossing', so disjoint curves were reported with
(None, None) entries."""
import sys
from shapepy.jordancurve import JordanCurve
ja = JordanCurve.from_vertices([(0, 0), (4, 4), (0, 4)])
jb = JordanCurve.from_vertices([(3, 0), (7, 4), (7, 0)])
res = ja.intersection(jb)
print("disjoint triangles:", res)
sys.exit(0 if res == () else 1)
