"""C03 / R03.1: SimpleShape.__contains_simple returned True for two unbounded
simple shapes without looking."""
import sys
from shapepy import Primitive, WholeShape
L = Primitive.polygon([(0, 0), (4, 0), (4, 1), (1, 1), (1, 4), (0, 4)])
sq = Primitive.polygon([(2, 2), (3, 2), (3, 3), (2, 3)])
A, B = ~L, ~sq
r1, r2 = A in B, B in A
u = A | B
print("~L in ~sq:", r1, " ~sq in ~L:", r2, " (~L)|(~sq):", type(u).__name__)
big, small = Primitive.square(side=6), Primitive.square(side=2)
r3, r4 = (~big) in (~small), (~small) in (~big)
print("~big in ~small:", r3, " ~small in ~big:", r4)
sys.exit(0 if (not r1 and not r2 and u is WholeShape() and r3 and not r4) else 1)
