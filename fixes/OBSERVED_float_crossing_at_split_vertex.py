from shapepy import Primitive, JordanCurve, SimpleShape
from copy import deepcopy
def build():
    u = SimpleShape(JordanCurve.from_vertices([(0,0),(3,0),(3,4),(2,4),(2,1),(1,1),(1,4),(0,4)]))   # U shape
    a = SimpleShape(JordanCurve.from_vertices([(0.25,2.0),(2.75,2.0),(2.75,3.0),(0.25,3.0)]))       # bar across the prongs
    return a, u
a, u = build()
print("fresh: a in u =", a in u)
_ = a | u
print("after a | u: a in u =", a in u)
a2, u2 = deepcopy(a), deepcopy(u)
print("deep copies of the used operands:", a2 in u2)
fa, fu = build()
print("fresh again:", fa in fu, " union area fresh", float(fa | fu), " used", float(a | u))
