"""C18 / R18.12 (also C07 "== always returns", C02): Projection.newton_iteration ran Newton steps in exact rational
arithmetic without ever rounding the iterates.  On a curved segment with integer control points the number of digits
multiplies at every step and the call does not return."""
import signal
import sys
from shapepy.jordancurve import JordanCurve


def too_slow(signum, frame):
    print("`teardrop == teardrop` did not return within 30 s")
    sys.exit(1)


signal.signal(signal.SIGALRM, too_slow)
signal.alarm(30)
tear = JordanCurve.from_ctrlpoints([[(0, 0), (3, 3), (-3, 3), (0, 0)]])      # one closed cubic, integer control points
start = tear.points(0)[0]
print("start point on the curve:", start in tear)
same = tear == tear
print("teardrop == teardrop:", same)
signal.alarm(0)
sys.exit(0 if same is True else 1)
