"""C11 / R11.1 (+C08 R08.4): SimpleShape._contains_shape inverted both operands
in place and restored them afterwards; an exception in between left the
caller's shapes inside out."""
import sys
from shapepy import Primitive
import shapepy.shape as sh
big = Primitive.square(side=6)
conn = Primitive.square(side=4) - Primitive.square(side=2)
before = (float(big), [float(s) for s in conn.subshapes])
orig = sh.SimpleShape._contains_jordan
def boom(self, *a, **k):
    raise RuntimeError("boom")
sh.SimpleShape._contains_jordan = boom
try:
    conn in big
except RuntimeError:
    pass
sh.SimpleShape._contains_jordan = orig
after = (float(big), [float(s) for s in conn.subshapes])
print("before", before, "after", after)
sys.exit(0 if before == after else 1)
