"""C07 / R07.1: == on a curve with a cusp (consecutive tangents equal and
opposite) raised ZeroDivisionError inside PlanarCurve.__or__ (reached through
JordanCurve.clean, which only handles ValueError)."""
import sys
from shapepy.jordancurve import JordanCurve
c = JordanCurve.from_ctrlpoints([[(0, 0), (1, 2), (2, 1)], [(2, 1), (1, 2), (3, 3)], [(3, 3), (-2, 3), (0, 0)]])
try:
    r = (c == c)
    print("c == c ->", r)
    sys.exit(0 if r is True else 1)
except ZeroDivisionError as e:
    print("== raised ZeroDivisionError:", e)
    sys.exit(1)
