"""C15 / R15.2 (also C17 "each control point once", C06 closed chain glued at shared points): BezierCurve.clean
replaced the end points of a degree-reduced segment by new objects, so a JordanCurve with a degree-reducible piece
listed its junction vertices twice."""
import sys
from shapepy.jordancurve import JordanCurve
from shapepy.curve import PlanarCurve
from shapepy.polygon import Point2D

a, b, c = (0, -1), (2, 0), (0, 1)
plain = JordanCurve.from_ctrlpoints([[a, b, c], [c, a]])
redu = JordanCurve.from_ctrlpoints([[a, b, c], [c, (0, 0), a]])      # the straight edge given as a (reducible) quadratic
print("vertices, edge as a line     :", plain.vertices)
print("vertices, edge as a quadratic:", redu.vertices)
ok = len(redu.vertices) == 3 and plain == redu
segs = [PlanarCurve([Point2D(a), Point2D(b), Point2D(c)]), PlanarCurve([Point2D(c), Point2D(0, 0), Point2D(a)])]
third = JordanCurve.from_segments(segs)
glued = all(third.segments[i].ctrlpoints[-1] is third.segments[(i + 1) % 2].ctrlpoints[0] for i in range(2))
print("junctions of from_segments(...) are shared objects:", glued)
ok = ok and glued and len(third.vertices) == 3
sys.exit(0 if ok else 1)
