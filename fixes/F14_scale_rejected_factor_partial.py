"""C11 / R11.4: an in-place scale whose second factor is rejected (a numeric
string or bytes passes the float() validation but cannot multiply a coordinate)
raised TypeError after the first control point's x coordinate had already been
scaled, leaving the figure partially transformed."""
import sys
from shapepy import Primitive
bad = 0
for factors in ((2, "3"), (2, b"3")):
    shape = Primitive.square(2, (1, 1))
    before = [tuple(v) for v in shape.jordans[0].vertices]
    try:
        shape.scale(*factors)
        print("scale", factors, "accepted")
        continue
    except (TypeError, ValueError) as e:
        after = [tuple(v) for v in shape.jordans[0].vertices]
        if before != after:
            print("scale", factors, "raised", type(e).__name__, "but the shape changed:", before[0], "->", after[0])
            bad = 1
        else:
            print("scale", factors, "raised", type(e).__name__, "and the shape is unchanged")
sys.exit(bad)
