"""C16 / R16.1: Primitive.triangle validated nothing."""
import sys
from shapepy import Primitive
bad = 0
for args in [dict(side=0), dict(side=-1), dict(side="a")]:
    try:
        t = Primitive.triangle(**args)
        print(args, "accepted, area", float(t)); bad += 1
    except ValueError:
        print(args, "ValueError (ok)")
    except Exception as e:
        print(args, "raised", type(e).__name__); bad += 1
sys.exit(1 if bad else 0)
