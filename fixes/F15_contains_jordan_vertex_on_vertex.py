"""C03 / R03.4 (also C01, C10): SimpleShape._contains_jordan took the crossings from `jordan & curve`, which drops
every crossing where both curves are at a segment end, so a piece of the curve running from one vertex of the shape's
boundary to another one -- through the outside -- was never sampled."""
import sys
from copy import deepcopy
from shapepy import JordanCurve, SimpleShape, EmptyShape

U = SimpleShape(JordanCurve.from_vertices([(0, 0), (6, 0), (6, 5), (4, 5), (4, 2), (2, 2), (2, 5), (0, 5)]))
bar = SimpleShape(JordanCurve.from_vertices([(1, 3), (5, 3), (5, 4), (1, 4)]))
ok = True
fresh = bar in U                                   # False: the bar bridges the gap between the prongs
u2, b2 = deepcopy(U), deepcopy(bar)
u2 & b2                                            # splits both boundaries at the crossing points
after = b2 in u2
print("bar in U: fresh", fresh, " after U & bar:", after, "(both must be False)")
ok &= (fresh is False) and (after is False)
# the same with fresh objects that have vertices at the crossing points
U3 = SimpleShape(JordanCurve.from_vertices([(0, 0), (6, 0), (6, 5), (4, 5), (4, 4), (4, 3), (4, 2), (2, 2), (2, 3), (2, 4),
                                            (2, 5), (0, 5)]))
bar3 = SimpleShape(JordanCurve.from_vertices([(1, 3), (2, 3), (4, 3), (5, 3), (5, 4), (4, 4), (2, 4), (1, 4)]))
r3 = bar3 in U3
print("bar with vertices on the vertices of U in U:", r3, "(must be False)")
ok &= r3 is False
gap = SimpleShape(JordanCurve.from_vertices([(2, 3), (4, 3), (4, 4), (2, 4)]))   # sits in the gap, touching both prongs
r4 = deepcopy(U3) & gap
print("U & (square in the gap):", "EmptyShape" if r4 is EmptyShape() else f"area {float(r4)}", "(must be empty)")
ok &= r4 is EmptyShape()
sys.exit(0 if ok else 1)
