"""C07 / R07.1: `==` on a curve with consecutive segments of different degree
raised AssertionError (PlanarCurve.__or__ asserted equal degrees while
JordanCurve.clean only handles ValueError)."""
import sys
from shapepy import Primitive
c = Primitive.circle() & Primitive.square(side=1.5)
try:
    r = (c == c)
    print("c == c ->", r)
    sys.exit(0 if r is True else 1)
except AssertionError:
    print("AssertionError raised by ==")
    sys.exit(1)
