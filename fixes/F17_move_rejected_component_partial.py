"""C11 / R11.4: Point2D.move stored the new x before computing the new y.  A vector whose second component passes the
float() validation but does not add to the coordinates (a Decimal next to Fraction / float coordinates) raised TypeError
after the x coordinate of the first control point had been moved."""
import sys
from decimal import Decimal
from shapepy import Primitive

ok = True
for label, make in (("square", lambda: Primitive.square(side=2)),
                    ("ring", lambda: Primitive.square(side=6) - Primitive.square(side=2))):
    shape = make()
    before = [tuple(v) for j in shape.jordans for v in j.vertices]
    try:
        shape.move(1, Decimal("2"))
        raised = None
    except Exception as ex:          # noqa: BLE001 - any rejection
        raised = type(ex).__name__
    after = [tuple(v) for j in shape.jordans for v in j.vertices]
    changed = sum(1 for a, b in zip(before, after) if a != b)
    print(f"{label}: move(1, Decimal('2')) raised {raised}; {changed} of {len(before)} vertices changed")
    if raised is not None and changed:
        ok = False
sys.exit(0 if ok else 1)
