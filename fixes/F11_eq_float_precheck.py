"""C07 / R07.4: SimpleShape/DisjointShape.__eq__ rejected on bit-unequal float
areas, so a float polygon compared unequal to itself with the vertex list
rotated."""
import sys, math, random
from shapepy import Primitive
random.seed(1)
cnt = 0
for t in range(200):
    n = random.randint(3, 9)
    pts = [(random.uniform(1, 2) * math.cos(2 * math.pi * k / n),
            random.uniform(1, 2) * math.sin(2 * math.pi * k / n)) for k in range(n)]
    r = random.randint(1, n - 1)
    a = Primitive.polygon(pts); b = Primitive.polygon(pts[r:] + pts[:r])
    if not (a == b):
        cnt += 1
print("rotated float polygons unequal to themselves:", cnt, "/ 200")
sys.exit(1 if cnt else 0)
