"""C07 / R07.6: JordanCurve.__eq__ indexed the *cleaned* copy modulo the length of
the uncleaned curve: `a == b` raised IndexError when `a` carries a redundant
vertex and `b` starts at another vertex (while `b == a` was True)."""
import sys
from shapepy.jordancurve import JordanCurve
a = JordanCurve.from_vertices([(0, 0), (2, 0), (4, 0), (4, 4), (0, 4)])   # redundant vertex (2, 0)
b = JordanCurve.from_vertices([(4, 4), (0, 4), (0, 0), (4, 0)])           # same square, other start
try:
    r1, r2 = (a == b), (b == a)
    print("a == b:", r1, " b == a:", r2)
    sys.exit(0 if (r1 is True and r2 is True) else 1)
except IndexError as e:
    print("a == b raised IndexError:", e)
    sys.exit(1)
