"""C07 / R07.2: ConnectedShape.__eq__ compared total areas only."""
import sys
from shapepy import Primitive
a = Primitive.square(side=4) - Primitive.square(side=2)
b = Primitive.square(side=4, center=(10, 0)) - Primitive.square(side=2, center=(10, 0))
c = Primitive.square(side=4) - Primitive.square(side=2)
print("a == b (different places):", a == b, " a == c (same):", a == c)
sys.exit(0 if (a != b and a == c) else 1)
