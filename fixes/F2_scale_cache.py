"""C10 / R10.1: JordanCurve.scale did not reset the cached signed length."""
import sys
from shapepy import Primitive
from shapepy.jordancurve import JordanCurve
j = Primitive.square(side=2).jordans[0]
before = float(j)
j.scale(3, 3)
fresh = float(JordanCurve.from_vertices([tuple(v) for v in j.vertices]))
print("before", before, "after scale", float(j), "fresh copy", fresh)
sys.exit(0 if float(j) == fresh else 1)
