"""C13 / R13.2: Point2D.__init__ called limit_denominator(1e9) (a float).
On Python 3.12 that yields a Fraction whose numerator/denominator are floats
and `p in shape` later raises TypeError.  Exit 1 when the defect is present."""
import sys
from fractions import Fraction as F
from shapepy import Primitive
from shapepy.polygon import Point2D
p = Point2D(F(10**10 + 1, 3 * 10**9 + 1), F(1, 7))
ok = isinstance(p._x.numerator, int) and isinstance(p._x.denominator, int)
a = Primitive.polygon([(F(0), F(0)), (F(7, 3), F(1, 11)), (F(5, 13), F(17, 7))])
b = Primitive.polygon([(F(1, 5), F(-1, 3)), (F(9, 4), F(2, 9)), (F(1, 17), F(19, 8))])
try:
    c = a & b
    (F(1, 2), F(1, 2)) in c
except TypeError as e:
    print("TypeError:", e); ok = False
print("well-formed Fraction:", ok)
sys.exit(0 if ok else 1)
