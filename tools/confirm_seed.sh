#!/bin/bash
# usage: confirm_seed.sh <worktree dir> <seed name> <property id>
# Confirms a seeded change independently: test suite passes with it, demo fails with it and passes without it.
# Then stores it under /verif/seeded/<name>/ (patch.diff, demo, notes, meta.json with what was run).
set -u
WT=$1; NAME=$2; PID=$3
OUT=/verif/seeded/$NAME
mkdir -p $OUT
git -C $WT diff -- src > $OUT/patch.diff
cp $WT/seed_demo.py $OUT/demo.py
cp $WT/seed_notes.md $OUT/notes.md 2>/dev/null
cd $WT
T0=$(date +%s)
PYTHONPATH=$WT/src /venv/bin/python -m pytest -q -p no:cacheprovider --timeout=900 2>&1 | tail -1 > $OUT/.tests
TESTS=$(cat $OUT/.tests)
PYTHONPATH=$WT/src /venv/bin/python $OUT/demo.py > $OUT/.demo_with 2>&1; WITH=$?
PYTHONPATH=/repo/src /venv/bin/python $OUT/demo.py > $OUT/.demo_without 2>&1; WITHOUT=$?
# does the patch apply cleanly to /repo HEAD?
git -C /repo apply --check $OUT/patch.diff 2>/dev/null; APPLIES=$?
/venv/bin/python - <<PY
import json
json.dump({"property": "$PID", "name": "$NAME",
 "tests_with_change": """$TESTS""".strip(),
 "demo_exit_with_change": $WITH, "demo_exit_without_change": $WITHOUT,
 "applies_to_repo_head": $APPLIES == 0,
 "ran": ["cd <worktree> && PYTHONPATH=<worktree>/src /venv/bin/python -m pytest -q -p no:cacheprovider --timeout=900",
         "PYTHONPATH=<worktree>/src /venv/bin/python demo.py", "PYTHONPATH=/repo/src /venv/bin/python demo.py"],
 "demo_output_with_change": open("$OUT/.demo_with").read()[-600:],
 "needs_to_manifest": "see notes.md", "caught_by": [], "checked_against": {}}, open("$OUT/meta.json","w"), indent=1)
PY
rm -f $OUT/.tests $OUT/.demo_with $OUT/.demo_without
echo "$NAME: tests=[$TESTS] demo_with=$WITH demo_without=$WITHOUT applies=$APPLIES"
