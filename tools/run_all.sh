#!/bin/bash
# usage: run_all.sh [src dir] [tier]   -- runs every check against a source tree (default /repo), prints exit codes
SRC=${1:-/repo/src/shapepy}; TIER=${2:-quick}
cd /verif
for p in C01 C02 C03 C04 C05 C06 C07 C08 C09 C10 C11 C12 C13 C14 C15 C16 C17 C18 C19 C20; do
  out=$(/venv/bin/python check.py $p --tier $TIER --src $SRC $([ "$SRC" != "/repo/src/shapepy" ] && echo --no-evidence) 2>&1); code=$?
  echo "$p exit=$code"
  if [ $code -ne 0 ]; then echo "$out" | grep -v KNOWN-FINDING | cut -c1-260 | head -6 | sed 's/^/      /'; fi
done
