#!/venv/bin/python
"""Re-runs the demonstration of every seeded change against the *current* /repo HEAD: with the change applied the demo
must exit non-zero, without it 0.  (A repair in /repo can turn an old seed into a harmless change; such a seed is moved to
/verif/neutral as a twin.)  usage: recheck_seed_demos.py [names...]"""
import concurrent.futures as cf
import glob
import json
import os
import shutil
import subprocess
import sys
import tempfile

ROOT = os.path.dirname(os.path.dirname(os.path.abspath(__file__)))


def one(d):
    name = os.path.basename(d)
    tmp = tempfile.mkdtemp(prefix="verif_demo_")
    try:
        subprocess.run(f"git -C /repo archive HEAD src | tar -x -C {tmp}", shell=True, check=True)
        r = subprocess.run(["patch", "-p1", "-s", "-f", "--no-backup-if-mismatch", "-d", tmp, "-i", os.path.join(d, "patch.diff")],
                           capture_output=True, text=True)
        if r.returncode != 0:
            return name, "patch does not apply", None, None
        res = []
        for src in (os.path.join(tmp, "src"), "/repo/src"):
            env = dict(os.environ, PYTHONPATH=src, PYTHONWARNINGS="ignore")
            try:
                p = subprocess.run(["/venv/bin/python", os.path.join(d, "demo.py")], env=env, capture_output=True, text=True,
                                   timeout=1500, cwd=tmp)
                res.append(p.returncode)
            except subprocess.TimeoutExpired:
                res.append("timeout")
        ok = res[0] not in (0, "timeout") and res[1] == 0
        return name, "ok" if ok else "STALE", res[0], res[1]
    finally:
        shutil.rmtree(tmp, ignore_errors=True)


def main():
    names = sys.argv[1:]
    dirs = sorted(d for d in glob.glob(os.path.join(ROOT, "seeded", "*")) if os.path.isdir(d)
                  and (not names or os.path.basename(d) in names))
    bad = 0
    with cf.ThreadPoolExecutor(max_workers=8) as ex:
        for name, verdict, w, wo in ex.map(one, dirs):
            print(f"{verdict:6s} {name}: with change -> {w}, without -> {wo}", flush=True)
            bad += verdict != "ok"
    return 1 if bad else 0


if __name__ == "__main__":
    sys.exit(main())
