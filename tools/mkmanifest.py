#!/venv/bin/python
"""Regenerates /verif/MANIFEST.json from the table below (and validates it)."""
import json
import os
import sys

ROOT = os.path.dirname(os.path.dirname(os.path.abspath(__file__)))

# property -> (technique, claim text, level note (assumed / trusted / not decided), design ref)
CLAIMS = {
    "C08": ("interprocedural ownership/effect analysis (flow-sensitive, two-level alias abstraction) over the "
            "ast-resolved call graph",
            "Decides, for every path and every history, that each operator/copy result is a fresh object, that "
            "SimpleShape adopts its curve by copy, that deep copies share nothing, and that every non-mutating entry "
            "point writes operand state only below JordanCurve.split or into the length cache. Static decision of "
            "these clauses, not a run-time proof of region equality.",
            "Assumes: no monkey-patching/subclassing; copy.copy -> __copy__; numpy/pynurbs/matplotlib calls are pure "
            "and return objects sharing no Point2D with their arguments; JordanCurve.split preserves the region "
            "(C15). Getters documented as 'not copy' are out of scope.",
            "DESIGN.md section 2, C08"),
    "C09": ("symbolic extraction of the point maps as linear forms + abstract interpretation of the curve- and "
            "shape-level transformations on recording stand-in points (every control point exactly once, every "
            "boundary curve, in-place aliasing of the angle) + cache-coherence abstract interpretation",
            "Decides that Point2D.move/scale/rotate are exactly the documented affine maps (no read-after-write "
            "hazard), that curve/shape transformations apply them once to every distinct control point of every "
            "boundary with the arguments forwarded, that the degrees flag applies pi/180 iff set, that they return "
            "self and that the orientation cache is reset after non-isometries. With affine invariance of Bezier "
            "curves (textbook) these clauses are sufficient for the containment/area statements up to rounding; that "
            "last step is mathematics and is not proved by the checker.",
            "Assumes np.cos/np.sin; float rounding not analysed; exactness of move/scale is C13's rule R13.1; the "
            "inverse-transformation round trip is not decided.",
            "DESIGN.md section 2, C09"),
    "C10": ("path-sensitive abstract interpretation of cache coherence (RESET/FILL/WRITE/CALL transformers over every "
            "method), memo-table def-use rules, nondeterminism-source rules and set-order origin tracking, effect analysis",
            "Decides for every history that each derived stored value -- lazily cached field, memo kept on an argument, "
            "value snapshotted at construction -- is reset after every write to the state it is derived from (generic: "
            "any new one is picked up; caches on composite classes must reset their sub-objects; an incremental update "
            "is accepted only where the transformation law of the cached quantity verifies it), that memo tables are "
            "keyed completely and never mutated, that no nondeterminism source reaches a result, and that queries "
            "write nothing but caches and subdivisions.",
            "Not decided: that an operator takes the same numeric decisions on a subdivided operand as on a fresh one "
            "(in-place split changes the representation). Direct mutation of points/segments obtained from the "
            "documented 'not copy' getters by user code is out of scope.",
            "DESIGN.md section 2, C10"),
    "C11": ("effect analysis over all call paths (every internal call boundary is a crash point) + commit-point / "
            "single-writer / validate-before-write structural rules",
            "Decides for every crash point that non-mutating operations make no temporary in-place change of operand "
            "state (paired or not), that the representation-only mutators they may reach commit by one final store "
            "after preparing fresh pieces, that cache fills are single stores, that in-place transformations "
            "validate every argument before the first coordinate write, and (abstract runs over 19 invalid argument "
            "kinds on the repository's own point and curve methods) that a transformation that raises has written "
            "no coordinate.",
            "Assumes a single attribute store is atomic; region preservation of split is C15's business; an interrupt "
            "inside a documented in-place mutator (invert, move...) is outside the property.",
            "DESIGN.md section 2, C11"),
    "C01": ("finite-domain truth tables of the operator algebra, abstract interpretation of the recombination cores "
            "on stand-in shapes, ranking-witness catalogue for loops, effect analysis",
            "Decides the algebraic skeleton for all inputs: every return of every operator method equals its Boolean "
            "specification on every admissible point assignment (incl. De Morgan for composite shapes and the "
            "no-boundary exits), the cores select exactly the pieces outside the closed / inside the open other "
            "operand -- classified by a point of the piece itself -- with consistent indexing after splitting all curve "
            "pairs, pursue_path chains curved pieces by segment index across two crossing points, every while loop "
            "and recursion has a termination witness (idiom catalogue, else list-length bounds), every boundary curve "
            "takes part, result curves are grouped into the right components, no operator reads a stale cached box, "
            "and operands stay reusable in nested expressions.",
            "NOT decided (the geometric core): that crossings are found, triple points, numerical robustness. "
            "Assumes ShapeFromJordans of the selected pieces denotes the region they bound.",
            "DESIGN.md section 2, C01"),
    "C02": ("finite-domain decision tables (own interpreter over the AST), quantifier classification, dimension check "
            "of the on-curve test, cache-coherence analysis",
            "Decides the decision table of SimpleShape._contains_point (12 rows), the +-1/2 boundary sentinel and the "
            "all-segments winding sum, the forall/exists composition over subshapes with the boundary flag forwarded "
            "(exhaustively over 192 cells per composite method), "
            "the dispatch of `in`, Empty/Whole membership, freshness of the cached orientation, and that the on-curve "
            "test compares a distance with its tolerance.",
            "NOT decided: that the winding number computed for a curved segment equals the geometric one (chord "
            "approximation), projection accuracy, tolerance adequacy. Only a small named fraction of the statement.",
            "DESIGN.md section 2, C02"),
    "C03": ("symbolic evaluation of the pairwise decision function against a derived geometric truth table; "
            "quantifier + subset-claim normalisation for the composition rules",
            "Decides SimpleShape.__contains_simple on all 48 rows (5 curve configurations x 4 orientation pairs x "
            "consultable facts), the composition rules over subshapes (kind, collection, direction, complements), "
            "the singleton guards and kind dispatch, and that every vertex of a curve and a point between every two "
            "consecutive crossing parameters (end parameters included) is tested.",
            "Generic position assumed (no tangencies / partially coincident boundaries). NOT decided: adequacy of the "
            "vertex + mid-crossing sampling in _contains_jordan; the consequences A|B == A.",
            "DESIGN.md section 2, C03"),
    "C12": ("dimensional analysis (powers of the unit of length) and affine-weight analysis of every numeric decision, "
            "interprocedural through defaults / class constants / call arguments",
            "Decides which comparisons, additive expressions, round() and limit_denominator() calls are inhomogeneous "
            "in the unit of length (scale-dependent decisions) and that metric predicates are fed displacements, not "
            "positions (translation invariance). The 12 scale-dependent decisions of today's tree are genuine, "
            "recorded known findings; any new one is a violation.",
            "NOT decided: whether a given input crosses a threshold; rotation invariance. Undetermined dimensions are "
            "counted, never reported.",
            "DESIGN.md section 2, C12"),
    "C06": ("kind inference against the frozen documented tables; abstract interpretation of the chain constructors and "
            "of the curve-grouping routine on stand-in worlds; singleton-discipline structural rule",
            "Decides the kind of every operator result cell by cell against docs/source/rst/shape.rst (105 cells), the "
            "singleton discipline of Empty/Whole, that a curve can only be assembled from a closed chain glued at "
            "all cyclic junctions (broken chains and non-curves are rejected), that result curves are grouped by "
            "mutual containment seeded by the largest |area| with >= 2 subshapes per ConnectedShape, that every pair "
            "of boundary curves is cut before pieces are selected, the no-boundary singleton exits, that a curve owns its "
            "segment objects, and that no containment short-cut reads a stale cached box.",
            "NOT decided: absence of zero-length pieces / self-crossings, geometric disjointness of components, the "
            "laws S|~S is Whole etc. (they depend on the numeric path). Grouping is decided on nested/disjoint worlds.",
            "DESIGN.md section 2, C06"),
    "C07": ("exception-escape analysis over the call graph with failure categories, abstract interpretation of the "
            "shape __eq__ methods on stand-in operands, cyclic-index length analysis",
            "Decides that no data-dependent raise/assert/division escapes to == on well-formed operands, that shape "
            "equality is multiset equality of the constituents with the kind guard and a bool result, that no exact "
            "float comparison of measures sits on the == path, that coordinate equality is type-independent, that "
            "cyclic indices use the length of the indexed sequence, that uniting redundant pieces uses the "
            "junction tangents, that a failed type test inside an __eq__ can only mean an operand outside the family "
            "(path condition of the raise), and that == reads no stale cached box or length.",
            "NOT decided: reflexivity/symmetry/transitivity as such, the point-sampling plus clean() comparison "
            "inside JordanCurve.__eq__, tolerances. Implicit exceptions other than ZeroDivisionError are not modelled.",
            "DESIGN.md section 2, C07"),
    "C13": ("exactness taint analysis (kinds Z/I/Q/S/A/F) with sinks at stored coordinates, constructor arguments and "
            "returned values, over the frozen rational-path entry table plus its callee closure",
            "Decides that on the rational / straight-segment paths no float and no limit_denominator-rounded value "
            "reaches a stored coordinate, a constructor argument or a returned parameter/integral, and that the "
            "Fraction API receives exact ints with the documented cap >= 10**9 applied only in Point2D.__init__, and "
            "that no derived point value is copied through the capping constructor in the middle of a computation "
            "(Point2D's non-in-place operators copy their operand; may-point analysis over the call graph).",
            "Trusted base: numpy object-array dot/inner/prod and pynurbs (open_newton_cotes, Curve.split, knots) "
            "preserve Fractions. Values, not kinds, are not decided (a wrong exact formula is C04/C14's business).",
            "DESIGN.md section 2, C13"),
    "C14": ("abstract interpretation of the segment/curve intersection routines over all result classes and parameter "
            "cells, dimension check of the exact solver",
            "Decides the None / () / pairs sentinel discipline of PlanarCurve.__and__ and of its reader, the flag "
            "filter table of JordanCurve.intersection (40 cells) and A & B, the [0,1]^2 range of every returned "
            "pair (exact line solver over 25 cells + Newton clamp), index and parameter roles (also for segments of "
            "different degree in both orders), sortedness, and that "
            "the line-line solver uses no tolerance, that no crossing is discarded on a stale cached box, that the "
            "merge tolerances are not finer than the parameter grid, and that a crossing at a common end point of two "
            "curved segments comes out with the exact parameters 0 / 1 (the exact end-point pairs win the merge), and "
            "(abstract runs on exact polynomial stand-in curves with crossings known by construction) that the Newton "
            "search, the distance filter and PlanarCurve.__and__ end to end return those crossings, also off the "
            "diagonal of the parameter square and for Jacobians of either sign.",
            "NOT decided: completeness of the Newton search for curved pieces, parity of crossings. Only a small named "
            "fraction of the statement.",
            "DESIGN.md section 2, C14"),
    "C15": ("abstract interpretation of split / __split_segment / clean / the uniting helper on stand-in chains with "
            "exact rational stand-in geometry",
            "Decides that split ignores exactly the end parameters, addresses later segments correctly after "
            "insertions, replaces a segment in place by the pieces at the sorted parameters with all junctions "
            "re-glued, that clean() runs to a fixpoint keeping the junction objects, that BezierCurve.clean lowers "
            "the degree exactly while the error is within tolerance, that two pieces of a curve split at t are "
            "united at node t while parabolas that merely meet (corner, or parallel tangents) are refused, and that the memo tables behind split / degree reduction are keyed completely, by "
            "discrete values only, and never mutated.",
            "NOT decided: every numerical clause (point sets, areas, tolerances, least-squares degree reduction, "
            "near-duplicate parameters). pynurbs knot operations are trusted.",
            "DESIGN.md section 2, C15"),
    "C04": ("abstract interpretation of the integral routines on stand-in values (exact rationals), symbolic "
            "polynomial comparison of the default node count, cache-coherence dataflow",
            "Decides the Green-formula plumbing (exponent a+1, divisor a+1, every boundary curve, arguments forwarded), "
            "the layer forwarding down to segments, the coordinate roles of the per-segment quadrature sum (also for "
            "segments with coincident end ordinates / abscissae), that the default node count covers the integrand "
            "degree for straight segments for all exponents, that every segment of a curve is integrated with its own "
            "node count, the float() routes of every shape kind, and that no "
            "integral is served from a cache or memo that survived a change of the figure (cache coherence, R04.6).",
            "NOT decided: the quadrature weights (pynurbs), accuracy for curved boundaries, numeric values. Only a "
            "small named fraction of the statement.",
            "DESIGN.md section 2, C04"),
    "C05": ("finite-domain truth tables + abstract runs of both recombination cores (partition of boundary pieces) + "
            "abstract runs of the in-place inversions + cache coherence + Green plumbing",
            "Decides the structural reasons behind the measure identities: derived operators are the right Boolean "
            "combinations, each boundary piece off the other boundary is selected by exactly one of union / "
            "intersection, the complement reverses every boundary (order and each segment), the orientation cache "
            "stays coherent under in-place inversion, every pair of boundary curves of the operands is cut before "
            "pieces are selected, and the measures are summed over every curve.",
            "NOT decided: that follow_path uses each selected piece exactly once; tolerance of the identities for "
            "float / curved input.",
            "DESIGN.md section 2, C05"),
    "C16": ("abstract interpretation of the factories on valid / boundary / invalid parameters and on exact rational "
            "sizes; symbolic rotating-point stand-ins for the circle chain",
            "Decides that every factory raises ValueError and nothing else for invalid sizes, centres and integer "
            "parameters (at the documented boundary values) and accepts valid ones, that polygon / from_vertices keep "
            "the vertices in order with cyclic segments, the documented vertices, counter-clockwise orientation and "
            "closed-form area of square / triangle / 4-gon (three exact sizes decide the degree-2 polynomial), and "
            "that the circle is a closed chain of ndivangle arcs rotated by tau/ndivangle about the centre.",
            "The centre may be given as a pair or as an existing point object (not reused for every vertex, not moved); "
            "general regular polygons are decided symbolically (centre + radius (cos, sin) of k tau/n). "
            "NOT decided: the circle band and area convergence.",
            "DESIGN.md section 2, C16"),
    "C17": ("abstract interpretation of constructors, vertex enumeration, bounding boxes and the signed length on "
            "stand-in chains and points",
            "Decides the constructor funnel (closed chains only, junctions shared, strings rejected), that from_full_curve "
            "describes one segment per piece of the spline for degrees 1-3, that vertices "
            "lists every control point object once in order, that boxes are componentwise min/max over all control "
            "points joined over all parts, the sign rule of float(curve), that the area giving the sign sums the "
            "same per-segment integral over straight and curved pieces, and that nothing cached survives a change of "
            "the control points.",
            "NOT decided: == of curves built in different ways (numeric). Convex-hull property of Bezier curves assumed.",
            "DESIGN.md section 2, C17"),
    "C18": ("symbolic matrix-product check, abstract runs of the dispatch / containment decision / winding wrap, memo "
            "and cache-coherence rules",
            "Decides the composition order of derivative matrices, the scalar/iterable dispatch of curve(t), key "
            "completeness and immutability of the degree-keyed memo tables, that no per-object derivative or "
            "evaluation cache can go stale, the box clause, the decision structure of `point in segment`, the "
            "wrap of the subtended angle, the basis identities for degrees 0..6, and (numeric abstract run with mutable "
            "sample points) that the winding number of a curved segment about an off-origin point is the sum of the "
            "angles its chords subtend, that split at several nodes yields the restrictions of the curve to the "
            "node intervals, that nothing behind `point in segment` quantises a parameter coarser than 1e-9, that "
            "Newton-type loops on exact parameters round their iterates, that eval is the Bernstein combination "
            "(degrees 1, 2, 3, 5 against de Casteljau) and (abstract runs of the projection on exact polynomial "
            "stand-in curves) that a point of a curved segment projects onto its parameter and a point of the "
            "prolongation of the segment onto parameters inside [0, 1].",
            "NOT decided: derivative matrices (pynurbs), convergence of the projection for arbitrary curves -- "
            "numerical facts outside this family. Only a small named fraction.",
            "DESIGN.md section 2, C18"),
    "C19": ("abstract interpretation of the subshape setters over all input permutations and of DisjointShape.__new__ "
            "over all list shapes; quantifier rules; truth tables",
            "Decides that directly constructed composites are forall/sum resp. exists/sum over their subshapes, that "
            "the stored order is canonical (24 permutations -> one order, largest area first), the collapse rules of "
            "DisjointShape (Empty removed first; 0 -> Empty, 1 -> copy, >= 2 -> instance), the De Morgan complement, "
            "that no value stored when the composite was built survives a change of a subshape, and that == compares "
            "the constituents as multisets (three components, areas differing in the last bit).",
            "NOT decided: == with operator-built shapes; ties in the sort key.",
            "DESIGN.md section 2, C19"),
    "C20": ("abstract interpretation of patch_segment / path_jordan / path_shape / plot_shape with stand-in matplotlib "
            "objects; effect analysis",
            "Decides the degree dispatch (LINETO / CURVE3 / CURVE4 with matching vertex counts, other degrees refused), "
            "the path grammar per boundary curve for curves mixing degrees in every order, the per-component fill / hole decision, one outline and scatter per "
            "curve coloured by its own orientation, Empty / Whole handling, and that plotting does not modify the shape.",
            "NOT decided: what matplotlib renders.",
            "DESIGN.md section 2, C20"),
}

NOT_YET = "check not built yet in this round (planned, see DESIGN.md section 2)"


def main():
    props = [json.loads(l) for l in open(os.path.join(ROOT, "properties.jsonl"))]
    checks = []
    na = []
    for p in props:
        pid = p["id"]
        if pid in CLAIMS and os.path.exists(os.path.join(ROOT, "rules", pid + ".py")):
            tech, text, note, ref = CLAIMS[pid]
            checks.append({
                "property_id": pid,
                "quick_cmd": f"/venv/bin/python check.py {pid} --tier quick",
                "thorough_cmd": f"/venv/bin/python check.py {pid} --tier thorough",
                "evidence_file": f"/verif/evidence/{pid}.json",
                "replay_cmd_template": f"/venv/bin/python check.py {pid} --replay {{path}}",
                "engine": "verifkit",
                "level_claimed": {"category": "other", "text": "structural clauses only. " + text, "design_ref": ref},
                "level_note": note,
                "technique": "static analysis: " + tech,
            })
        else:
            na.append({"property_id": pid, "reason": NA.get(pid, NOT_YET)})
    m = {
        "version": 1,
        "setup_cmd": "/venv/bin/python -c \"import ast, json; print('verif: stdlib-only ast checkers, nothing to build')\"",
        "hooks": {"guard": "COMPMEC_SHAPEPY_VERIF",
                  "enable": "no hooks: the checkers only parse /repo/src/shapepy/*.py with ast; nothing in /repo is "
                            "instrumented",
                  "baseline_off_cmd": "cd /repo && /venv/bin/python -m pytest -ra -q -p no:cacheprovider --timeout=900 "
                                      "--continue-on-collection-errors",
                  "source_commits": [], "add_only": True},
        "engines": [{"name": "verifkit", "path": "/verif/verifkit",
                     "serves_properties": [c["property_id"] for c in checks],
                     "kind_free_text": "custom static analyses over the ast-resolved program (class table, layer "
                                       "typing, call graph, ownership/effects, dimensions, exactness taint, exception "
                                       "escape, finite-domain abstract evaluation, quantifier classification); "
                                       "stdlib only"}],
        "checks": checks,
        "notes": "Exit codes: 0 ok / 1 VIOLATION / 2 ANALYSIS-ERROR (inconclusive, never a violation). Known findings "
                 "in /verif/known_findings.json. See DESIGN.md.",
        "not_applicable": na,
    }
    json.dump(m, open(os.path.join(ROOT, "MANIFEST.json"), "w"), indent=1)
    print(f"claimed {len(checks)}, not_applicable {len(na)}")


NA = {}

if __name__ == "__main__":
    main()
