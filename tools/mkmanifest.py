#!/venv/bin/python
"""Regenerates /verif/MANIFEST.json from the table below (and validates it)."""
import json
import os
import sys

ROOT = os.path.dirname(os.path.dirname(os.path.abspath(__file__)))

# property -> (technique, claim text, level note (assumed / trusted / not decided), design ref)
CLAIMS = {
    "C08": ("interprocedural ownership/effect analysis (flow-sensitive, two-level alias abstraction) over the "
            "ast-resolved call graph",
            "Decides, for every path and every history, that each operator/copy result is a fresh object, that "
            "SimpleShape adopts its curve by copy, that deep copies share nothing, and that every non-mutating entry "
            "point writes operand state only below JordanCurve.split or into the length cache. Static decision of "
            "these clauses, not a run-time proof of region equality.",
            "Assumes: no monkey-patching/subclassing; copy.copy -> __copy__; numpy/pynurbs/matplotlib calls are pure "
            "and return objects sharing no Point2D with their arguments; JordanCurve.split preserves the region "
            "(C15). Getters documented as 'not copy' are out of scope.",
            "DESIGN.md section 2, C08"),
}

NOT_YET = "check not built yet in this round (planned, see DESIGN.md section 2)"


def main():
    props = [json.loads(l) for l in open(os.path.join(ROOT, "properties.jsonl"))]
    checks = []
    na = []
    for p in props:
        pid = p["id"]
        if pid in CLAIMS and os.path.exists(os.path.join(ROOT, "rules", pid + ".py")):
            tech, text, note, ref = CLAIMS[pid]
            checks.append({
                "property_id": pid,
                "quick_cmd": f"/venv/bin/python check.py {pid} --tier quick",
                "thorough_cmd": f"/venv/bin/python check.py {pid} --tier thorough",
                "evidence_file": f"/verif/evidence/{pid}.json",
                "replay_cmd_template": f"/venv/bin/python check.py {pid} --replay {{path}}",
                "engine": "verifkit",
                "level_claimed": {"category": "other", "text": "structural clauses only. " + text, "design_ref": ref},
                "level_note": note,
                "technique": "static analysis: " + tech,
            })
        else:
            na.append({"property_id": pid, "reason": NA.get(pid, NOT_YET)})
    m = {
        "version": 1,
        "setup_cmd": "/venv/bin/python -c \"import ast, json; print('verif: stdlib-only ast checkers, nothing to build')\"",
        "hooks": {"guard": "COMPMEC_SHAPEPY_VERIF",
                  "enable": "no hooks: the checkers only parse /repo/src/shapepy/*.py with ast; nothing in /repo is "
                            "instrumented",
                  "baseline_off_cmd": "cd /repo && /venv/bin/python -m pytest -ra -q -p no:cacheprovider --timeout=900 "
                                      "--continue-on-collection-errors",
                  "source_commits": [], "add_only": True},
        "engines": [{"name": "verifkit", "path": "/verif/verifkit",
                     "serves_properties": [c["property_id"] for c in checks],
                     "kind_free_text": "custom static analyses over the ast-resolved program (class table, layer "
                                       "typing, call graph, ownership/effects, dimensions, exactness taint, exception "
                                       "escape, finite-domain abstract evaluation, quantifier classification); "
                                       "stdlib only"}],
        "checks": checks,
        "notes": "Exit codes: 0 ok / 1 VIOLATION / 2 ANALYSIS-ERROR (inconclusive, never a violation). Known findings "
                 "in /verif/known_findings.json. See DESIGN.md.",
        "not_applicable": na,
    }
    json.dump(m, open(os.path.join(ROOT, "MANIFEST.json"), "w"), indent=1)
    print(f"claimed {len(checks)}, not_applicable {len(na)}")


NA = {}

if __name__ == "__main__":
    main()
