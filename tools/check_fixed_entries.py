#!/venv/bin/python
"""For every `fixed` entry of known_findings.json: revert that fix commit on a scratch copy of the current
sources and verify that the property's check reports exactly the recorded (rule, construct, fact) again
("a fixed entry suppresses nothing ... reports the violation again if it ever returns")."""
import json
import os
import shutil
import subprocess
import sys
import tempfile
import warnings

warnings.simplefilter("ignore")
ROOT = os.path.dirname(os.path.dirname(os.path.abspath(__file__)))
sys.path.insert(0, ROOT)
import check  # noqa: E402
from verifkit import core  # noqa: E402


def main():
    kf = json.load(open(os.path.join(ROOT, "known_findings.json")))["findings"]
    bad = 0
    for f in kf:
        if f.get("status") != "fixed":
            continue
        tmp = tempfile.mkdtemp(prefix="verif_fixed_")
        try:
            root = os.path.join(tmp, "root")
            os.makedirs(os.path.join(root, "src"))
            shutil.copytree("/repo/src/shapepy", os.path.join(root, "src", "shapepy"))
            diff = subprocess.run(["git", "-C", "/repo", "show", f["commit"], "--", "src"], capture_output=True, text=True).stdout
            r = subprocess.run(["patch", "-R", "-p1", "-s", "-f", "--no-backup-if-mismatch", "-d", root], input=diff,
                               capture_output=True, text=True)
            if r.returncode != 0:
                print(f"{f['property']} {f['commit']}: cannot revert ({r.stdout.strip()[:80]})")
                bad += 1
                continue
            outcomes, errors, ctx, mod = check.analyse(f["property"], os.path.join(root, "src", "shapepy"))
            viol, kn, und, errors = core.classify(f["property"], outcomes, errors)
            keys = {(o.rule, i.construct, i.fact) for o, i in viol}
            want = (f["rule"], f["construct"], f["fact"])
            if want in keys:
                print(f"ok   {f['property']} {f['commit']} {f['rule']} {f['construct']}")
            else:
                bad += 1
                near = [k for k in keys if k[0] == f["rule"] or k[1] == f["construct"]]
                print(f"MISS {f['property']} {f['commit']} recorded {want}\n       reported: {near[:4] or sorted(keys)[:4]}")
        finally:
            shutil.rmtree(tmp, ignore_errors=True)
    return 1 if bad else 0


if __name__ == "__main__":
    sys.exit(main())
