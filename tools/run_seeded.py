#!/venv/bin/python
"""Runs every claimed check against every seeded change (on a scratch copy of the
current /repo sources with the patch applied) and records in meta.json which
checks report it.  usage: run_seeded.py [name ...]"""
import glob
import json
import os
import shutil
import sys
import tempfile
import warnings

warnings.simplefilter("ignore")
ROOT = os.path.dirname(os.path.dirname(os.path.abspath(__file__)))
sys.path.insert(0, ROOT)
import check  # noqa: E402
from selfcheck.driver import apply_patch  # noqa: E402
from verifkit import core  # noqa: E402


def main():
    names = sys.argv[1:]
    man = json.load(open(os.path.join(ROOT, "MANIFEST.json")))
    props = [c["property_id"] for c in man["checks"]]
    for d in sorted(glob.glob(os.path.join(ROOT, "seeded", "*"))):
        name = os.path.basename(d)
        if names and name not in names:
            continue
        meta_p = os.path.join(d, "meta.json")
        if not os.path.exists(meta_p):
            continue
        meta = json.load(open(meta_p))
        tmp = tempfile.mkdtemp(prefix="verif_seed_")
        try:
            src, na = apply_patch("/repo/src/shapepy", tmp, os.path.join(d, "patch.diff"))
            if na:
                print(f"{name}: {na}")
                continue
            caught, detail = [], {}
            for p in props:
                outcomes, errors, ctx, mod = check.analyse(p, src)
                viol, kn, und, errors = core.classify(p, outcomes, errors)
                if viol:
                    caught.append(p)
                    detail[p] = [f"{o.rule} {i.construct}: {i.fact}" for o, i in viol][:4]
                elif und or errors:
                    detail[p] = ["INCONCLUSIVE: " + "; ".join(errors + [f"{o.rule} {i.construct}" for o, i in und])[:300]]
            meta["caught_by"] = caught
            meta["checked_against"] = detail
            json.dump(meta, open(meta_p, "w"), indent=1)
            own = meta.get("property")
            print(f"{name}: target {own}: {'CAUGHT' if own in caught else 'missed'}; reported by {caught}")
            for p, v in detail.items():
                for x in v[:2]:
                    print(f"     {p}: {x}")
        finally:
            shutil.rmtree(tmp, ignore_errors=True)


if __name__ == "__main__":
    main()
