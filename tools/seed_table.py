#!/venv/bin/python
"""Writes /verif/seeded/README.md: one row per confirmed seeded change with the checks that report it (from meta.json,
which tools/run_seeded.py refreshes)."""
import glob
import json
import os

ROOT = os.path.dirname(os.path.dirname(os.path.abspath(__file__)))
rows = []
for d in sorted(glob.glob(os.path.join(ROOT, "seeded", "*"))):
    mp = os.path.join(d, "meta.json")
    if not os.path.exists(mp):
        continue
    m = json.load(open(mp))
    own = m["property"]
    det = m.get("checked_against", {}).get(own, [""])
    first = det[0] if det else ""
    rule = first.split(" ")[0] if first and not first.startswith("INCONCLUSIVE") else "-"
    fact = first.split(": ", 1)[1][:90] if ": " in first else ""
    others = [p for p in m.get("caught_by", []) if p != own]
    rows.append((os.path.basename(d), own, "yes" if own in m.get("caught_by", []) else "NO", rule, fact, " ".join(others)))
with open(os.path.join(ROOT, "seeded", "README.md"), "w") as f:
    f.write("# Confirmed seeded changes\n\nEach directory: `patch.diff` (against /repo HEAD), `demo.py` (exits non-zero with the "
            "change, 0 without), `notes.md` (the sub-agent's account), `meta.json` (what was run to confirm it; which "
            "checks report it).\n\n| seed | property | reported by its own check | rule | fact | also reported by |\n|---|---|---|---|---|---|\n")
    for r in rows:
        f.write("| " + " | ".join(r) + " |\n")
print(len(rows), "rows; own check silent:", [r[0] for r in rows if r[2] != "yes"])
