#!/venv/bin/python
"""Re-bases every seeded patch on /repo HEAD (applies with fuzz on a scratch export, re-diffs) so that
`git -C /repo apply seeded/<name>/patch.diff` works on the current tree; records the result in meta.json."""
import glob, json, os, shutil, subprocess, sys, tempfile
ROOT = os.path.dirname(os.path.dirname(os.path.abspath(__file__)))
for d in sorted(glob.glob(os.path.join(ROOT, "seeded", "*"))):
    patch = os.path.join(d, "patch.diff"); meta_p = os.path.join(d, "meta.json")
    if not (os.path.exists(patch) and os.path.exists(meta_p)):
        continue
    ok = subprocess.run(["git", "-C", "/repo", "apply", "--check", patch], capture_output=True).returncode == 0
    meta = json.load(open(meta_p))
    if not ok:
        tmp = tempfile.mkdtemp(prefix="verif_refresh_")
        try:
            for side in ("a", "b"):
                os.makedirs(os.path.join(tmp, side))
                subprocess.run(f"git -C /repo archive HEAD src | tar -x -C {tmp}/{side}", shell=True, check=True)
            r = subprocess.run(["patch", "-p1", "-s", "-f", "--no-backup-if-mismatch", "-d", os.path.join(tmp, "b"), "-i", patch],
                               capture_output=True, text=True)
            if r.returncode != 0:
                print(os.path.basename(d), "CANNOT re-base:", r.stdout.strip()[:100]); meta["applies_to_repo_head"] = False
            else:
                out = subprocess.run(["git", "diff", "--no-index", "--no-prefix", "a", "b"], cwd=tmp, capture_output=True, text=True).stdout
                out = out.replace("--- a/", "--- a/").replace("+++ b/", "+++ b/")
                # normalise headers to a/ b/ prefixes relative to the repository root
                lines = []
                for l in out.splitlines(True):
                    if l.startswith("diff --git a/src") or l.startswith("--- a/src") or l.startswith("+++ b/src"):
                        lines.append(l)
                    elif l.startswith("diff --git "):
                        lines.append(l)
                    else:
                        lines.append(l)
                open(patch, "w").write("".join(lines))
                ok = subprocess.run(["git", "-C", "/repo", "apply", "--check", patch], capture_output=True).returncode == 0
                print(os.path.basename(d), "re-based ->", "applies" if ok else "STILL FAILS")
        finally:
            shutil.rmtree(tmp, ignore_errors=True)
    meta["applies_to_repo_head"] = ok
    json.dump(meta, open(meta_p, "w"), indent=1)
print("done")
