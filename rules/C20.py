"""C20 -- plotting draws exactly the boundary of the shape (structural clauses; what
matplotlib renders is NOT decided).

 R20.1 / R20.2 patch_segment (abstract run for degrees 1..4): degree 1 -> one
       LINETO, 2 -> two CURVE3, 3 -> three CURVE4, vertices = ctrlpoints[1:] in
       order; any other degree raises instead of silently dropping the segment.
 R20.3 path grammar: per curve MOVETO(first control point of the first segment),
       the patches of all segments in order, CLOSEPOLY; path_shape does so for
       every curve of the component.
 R20.4 component loop of plot_shape: Empty draws nothing, Whole only colours the
       background; one fill patch per component -- filled iff *that component*
       is bounded, otherwise a white hole on a coloured background -- and one
       outline + scatter per boundary curve.
 R20.5 plotting does not modify the shape (= R08.4 with the plot entry points).
"""
import ast
from fractions import Fraction as Fr

from verifkit.absrun import isinstance_names, Obj, Runner, StandIn, ExtFn
from verifkit.core import Outcome
from verifkit.finite import Undecided, Raised
from rules import C08
from rules.C16 import PV

ASSUMPTIONS = ["matplotlib Path codes: LINETO takes 1 vertex, CURVE3 2, CURVE4 3; the vertex of CLOSEPOLY is ignored"]
U = ast.unparse


class Code(StandIn):
    def __init__(self, name):
        self.name = name

    def __eq__(self, o):
        return isinstance(o, Code) and o.name == self.name

    def __hash__(self):
        return hash(self.name)

    def __repr__(self):
        return self.name


class PathNS(StandIn):
    LINETO, CURVE3, CURVE4, MOVETO, CLOSEPOLY = (Code(n) for n in ("LINETO", "CURVE3", "CURVE4", "MOVETO", "CLOSEPOLY"))

    def __init__(self):
        self.made = []

    def __call__(self, vertices, commands):
        p = ("PATH", tuple(vertices), tuple(commands))
        self.made.append(p)
        return p


def seg(name, degree):
    # coordinates away from the origin that need nine significant digits (97001.3125 ...)
    return Obj(name, degree=degree, ctrlpoints=tuple(PV(Fr(1000 * ord(name[-1]) + i) + Fr(5, 16), Fr(i * i) - Fr(73156, 100) - Fr(1, 400))
                                                     for i in range(degree + 1)))


def with_globals(ctx, fn, args, globs, hook=None, enter=(), kwargs=None):
    """abstract run with extra global names (Path, PathPatch) bound to stand-ins"""
    rn = Runner(ctx, set(enter), hook, asserts=True)
    import verifkit.absrun as AR
    saved = AR.EXTRA_GLOBALS.copy()
    AR.EXTRA_GLOBALS.update(globs)
    try:
        return rn.call_fn(fn, args, kwargs or {})
    finally:
        AR.EXTRA_GLOBALS.clear()
        AR.EXTRA_GLOBALS.update(saved)


def r20_1(ctx):
    out = Outcome("R20.1", "patch_segment: degree d in {1,2,3} gives the d control points after the first with d codes "
                           "LINETO / CURVE3 / CURVE4; any other degree raises (no silent drop)", floor=4)
    out.exhaustive = True
    want_code = {1: "LINETO", 2: "CURVE3", 3: "CURVE4"}
    per_segment = "plot.patch_segment" in ctx.model.funcs
    # the per-segment helper when there is one; otherwise the same facts are observed on path_jordan applied to a
    # one-segment curve (the helper may have been merged into the loop of its callers)
    fn = ctx.fn("plot.patch_segment" if per_segment else "plot.path_jordan")
    for d, closed in ((1, False), (2, False), (3, False), (4, False), (2, True), (3, True)):
        s = seg("s", d)
        if closed:
            # a piece that ends where it starts (a closed curve made of one or two arcs): it is not a zero-length piece
            s = Obj("s_closed", degree=d, ctrlpoints=tuple(s.ctrlpoints[:-1]) + (s.ctrlpoints[0],))
        path = PathNS()
        try:
            if per_segment:
                got = with_globals(ctx, fn, [s], {"Path": path})
            else:
                _, verts, codes = with_globals(ctx, fn, [Obj("j", segments=(s,))], {"Path": path})
                names = [c.name for c in codes]
                if names[:1] != ["MOVETO"] or names[-1:] != ["CLOSEPOLY"]:
                    raise Undecided(f"path of a one-segment curve has codes {names}")
                got = ([tuple(v) for v in list(verts)[1:-1]], list(codes)[1:-1])
                s = Obj("s'", degree=d, ctrlpoints=tuple(tuple(map(float, p)) for p in s.ctrlpoints))
            raised = None
        except Raised as r:
            got, raised = None, r.what
        except Undecided as ex:
            out.undecided(fn.qname, f"degree {d}: {ex}", where=fn.where())
            continue
        if d in want_code:
            if raised:
                out.bad(fn.qname, f"degree {d} raises {raised}", where=fn.where())
                continue
            verts, codes = got
            ok = [tuple(v) for v in verts] == [tuple(v) for v in s.ctrlpoints[1:]] and [c.name for c in codes] == [want_code[d]] * d
            label = f"degree {d}" + (" (end point = start point)" if closed else "")
            if ok:
                out.ok(fn.qname, f"{label} -> {d} x {want_code[d]}", where=fn.where())
            elif len(verts) == 0:
                out.bad(fn.qname, f"{label} falls through without vertices", where=fn.where(),
                        detail="the segment is silently dropped from the drawn boundary")
            else:
                out.bad(fn.qname, f"degree {d}: vertices / codes do not retrace the segment", where=fn.where(),
                        detail=f"{len(verts)} vertices, codes {[c.name for c in codes]}")
        else:
            if raised:
                out.ok(fn.qname, f"degree {d} refused ({raised.split('(')[0]})", where=fn.where())
            else:
                verts, codes = got
                if len(verts) != d:
                    out.bad(fn.qname, f"degree {d} falls through without vertices", where=fn.where(),
                            detail="a degree the path cannot express must raise, not be skipped")
                else:
                    out.undecided(fn.qname, f"degree {d} is drawn with {[c.name for c in codes]}", where=fn.where())
    return out


def r20_3(ctx):
    out = Outcome("R20.3", "each boundary curve is drawn as MOVETO(first point) + the patches of all its segments in order "
                           "+ CLOSEPOLY; path_shape does so for every curve of the component", floor=2)
    # mixed degrees in every order: a straight piece before and after a curved one, a cubic after a quadratic ...
    j0 = Obj("j0", segments=(seg("a", 2), seg("b", 1), seg("c", 3), seg("d", 1), seg("e", 2)))
    j1 = Obj("j1", segments=(seg("f", 1), seg("g", 3), seg("h", 1), seg("i", 1)))

    def expected(j):
        v = [j.segments[0].ctrlpoints[0]]
        c = ["MOVETO"]
        for s in j.segments:
            v += list(s.ctrlpoints[1:])
            c += [{1: "LINETO", 2: "CURVE3", 3: "CURVE4"}[s.degree]] * s.degree
        return v, c + ["CLOSEPOLY"]
    for q, arg, curves in (("plot.path_jordan", j0, [j0]), ("plot.path_shape", Obj("conn", jordans=(j0, j1)), [j0, j1])):
        fn = ctx.fn(q)
        path = PathNS()
        try:
            got = with_globals(ctx, fn, [arg], {"Path": path}, enter={"plot.patch_segment"})
        except (Undecided, Raised) as ex:
            out.undecided(q, str(ex), where=fn.where())
            continue
        if not path.made or got is not path.made[-1]:
            out.bad(q, "does not return the Path built from the collected vertices and codes", where=fn.where())
            continue
        _, verts, codes = got
        names = [c.name for c in codes]
        wv, wc = [], []
        for j in curves:
            v, c = expected(j)
            wv += [(float(p.x), float(p.y)) for p in v] + [None]       # the CLOSEPOLY vertex is ignored
            wc += c
        got_v = [tuple(map(float, p)) for p in verts]
        same_v = len(got_v) == len(wv) and all(w is None or all(abs(a - b) < 1e-5 for a, b in zip(g, w)) for g, w in zip(got_v, wv))
        if names != wc:
            out.bad(q, "path codes do not follow MOVETO, segment patches in order, CLOSEPOLY for every curve", where=fn.where(),
                    detail=f"codes {names}")
        elif not same_v:
            out.bad(q, "path vertices do not retrace the control points segment by segment", where=fn.where())
        else:
            out.ok(q, f"{len(curves)} curve(s): {len(wc)} codes and vertices retrace the boundary", where=fn.where())
    return out


class Axes(StandIn):
    def __init__(self, face="white"):
        self.calls = []
        self.face = face

    def set_facecolor(self, c):
        self.calls.append(("facecolor", c))
        self.face = c

    def get_facecolor(self):
        return self.face

    get_fc = get_facecolor

    def add_patch(self, p):
        self.calls.append(("patch", p))

    def scatter(self, *a, **k):
        self.calls.append(("scatter", k.get("color")))


class Comp(StandIn):
    def __init__(self, name, area, curves):
        self.name, self.area, self.jordans = name, area, tuple(curves)

    def __float__(self):
        return float(self.area)

    def __bool__(self):
        # the truth value of a shape is what the repository's BaseShape.__bool__ says (area > 0 today)
        q = "shape.BaseShape.__bool__"
        if _CTX is None or q not in _CTX.model.funcs:
            return True
        return bool(Runner(_CTX, set(), None).call_fn(_CTX.fn(q), [self]))


_CTX = None


class Arr(StandIn):
    """tiny stand-in for a numpy array of floats (1-d or 2-d): transpose, slicing, @, elementwise - and *"""

    def __init__(self, data):
        self.data = [list(r) if isinstance(r, (list, tuple)) else r for r in data]

    @property
    def T(self):
        return Arr(list(zip(*self.data)))

    def __iter__(self):
        return iter(Arr(r) if isinstance(r, list) else r for r in self.data)

    def __len__(self):
        return len(self.data)

    def __getitem__(self, i):
        r = self.data[i]
        return Arr(r) if isinstance(r, list) else r

    def __matmul__(self, o):
        return sum(a * b for a, b in zip(self.data, o.data))

    def __sub__(self, o):
        return Arr([a - b for a, b in zip(self.data, o.data)]) if isinstance(o, Arr) else Arr([a - o for a in self.data])

    def __mul__(self, o):
        return Arr([a * b for a, b in zip(self.data, o.data)]) if isinstance(o, Arr) else Arr([a * o for a in self.data])

    def sum(self):
        return sum(self.data)


class Cur(StandIn):
    """boundary curve stand-in: orientation `sign`; the polygon through its nodes turns the *other* way or is
    degenerate (a crescent, a lens of two arcs): only float(curve) tells the orientation"""
    LOOPS = {1: ((0, 0), (0, 2), (3, 1), (0, 0)), -1: ((0, 0), (0, 2), (3, 1), (0, 0)), 0: ((0, 0), (2, 0), (0, 0))}

    def __init__(self, name, sign, loop=None):
        self.name, self.sign = name, sign
        self.loop = self.LOOPS[sign if loop is None else loop]

    def __float__(self):
        return float(self.sign)

    def points(self, n):
        return self.loop


def plot_run(ctx, shape, kind, face="white"):
    fn = ctx.fn("plot.ShapePloter.plot_shape")
    global _CTX
    _CTX = ctx
    ax = Axes(face)
    foreign = Axes("white")
    P = Obj("ploter")

    def hook(rn, ev, call, name, recv, args, kwargs):
        if name == "isinstance":
            names = isinstance_names(call, args)
            return any(n in ctx.model.mro(kind) for n in names) if args[0] is shape else True
        if name == "gca":
            # the plotter's own axes -- or, asked of anything else (pyplot), the axes that happen to be current: a
            # second figure may have been opened since the plotter was built
            return ax if recv is P else foreign
        if name == "path_shape":
            return ("fillpath", args[0].name)
        if name == "path_jordan":
            return ("outline", args[0].name)
        if name == "PathPatch":
            return ("PP", args[0], kwargs.get("color", kwargs.get("facecolor")), kwargs.get("edgecolor"))
        if name == "array":
            return Arr([tuple(map(float, p)) for p in args[0]])
        return NotImplemented
    Runner(ctx, set(), hook, asserts=True).call_fn(fn, [P, shape], {"kwargs": {}})
    if foreign.calls:
        return [("foreign-axes",) + tuple(c) for c in foreign.calls]        # drawn on axes that are not the plotter's
    return ax.calls


def r20_4(ctx):
    out = Outcome("R20.4", "plot_shape: Empty draws nothing; Whole only colours the background; each component gets one "
                           "fill patch (coloured iff that component is bounded, else a white hole on a coloured "
                           "background) and each boundary curve one outline and one scatter", floor=4)
    fn = ctx.fn("plot.ShapePloter.plot_shape")
    try:
        calls = plot_run(ctx, Comp("E", 0.0, []), "EmptyShape")
        (out.ok if not calls else out.bad)(fn.qname, "Empty draws nothing" if not calls else f"Empty draws {calls}", where=fn.where())
        calls = plot_run(ctx, Comp("W", float("inf"), []), "WholeShape")
        ok = [c[0] for c in calls] == ["facecolor"]
        (out.ok if ok else out.bad)(fn.qname, "Whole only colours the background" if ok else f"Whole draws {calls}", where=fn.where())
        # disjoint shape mixing a bounded and an unbounded component; total area negative
        c1 = Comp("disk", 3.0, [Cur("jd", 1)])
        c2 = Comp("plane_minus_square", -16.0, [Cur("jo", -1), Cur("ji", 1, loop=0)])
        D = Comp("D", -13.0, [])
        D.subshapes = (c1, c2)
        calls = plot_run(ctx, D, "DisjointShape")
        fills = [c[1] for c in calls if c[0] == "patch" and c[1][1][0] == "fillpath"]
        outlines = [c[1] for c in calls if c[0] == "patch" and c[1][1][0] == "outline"]
        scat = [c for c in calls if c[0] == "scatter"]
        errs = []
        if [f[1][1] for f in fills] != ["disk", "plane_minus_square"]:
            errs.append(f"fill patches for {[f[1][1] for f in fills]}, required one per component")
        else:
            if fills[0][2] == "white" or fills[0][2] is None:
                errs.append("the bounded component is not filled with the fill colour")
            if fills[1][2] != "white":
                errs.append("the unbounded component is not drawn as a white hole")
            if not any(c[0] == "facecolor" for c in calls):
                errs.append("no coloured background for the unbounded component")
        if sorted(o[1][1] for o in outlines) != ["jd", "ji", "jo"]:
            errs.append(f"outlines for {[o[1][1] for o in outlines]}, required every boundary curve once")
        else:
            colours = {o[1][1]: o[3] for o in outlines}
            if colours["jd"] == colours["jo"] or colours["ji"] != colours["jd"]:
                errs.append("outline colour does not follow the orientation of each curve")
        if len(scat) != 3:
            errs.append(f"{len(scat)} scatter calls for 3 curves")
        if errs:
            out.bad(fn.qname, "component loop wrong for a DisjointShape mixing bounded and unbounded components",
                    where=fn.where(), detail="; ".join(errs))
        else:
            out.ok(fn.qname, "mixed DisjointShape: per-component fill / hole, outline and scatter per curve", where=fn.where())
        # the same picture on axes whose background an earlier plot has already coloured: the hole is white all the same
        calls = plot_run(ctx, D, "DisjointShape", face="#BFFFBF")
        fills = [c[1] for c in calls if c[0] == "patch" and c[1][1][0] == "fillpath"]
        holes = [f for f in fills if f[1][1] == "plane_minus_square"]
        if len(holes) != 1 or holes[0][2] != "white":
            out.bad(fn.qname, "on axes that an earlier plot has coloured, the hole of an unbounded component is not drawn white",
                    where=fn.where(), detail=f"hole patch colour {holes[0][2] if holes else None!r} on a background that is already "
                                             f"'#BFFFBF': the unbounded component looks like the whole plane")
        else:
            out.ok(fn.qname, "an unbounded component is a white hole also on axes coloured by an earlier plot", where=fn.where())
        # a single connected component (not Disjoint): a ring, whose `subshapes` are the outer disk and the complement
        # of the hole -- factors of an intersection, not components to be drawn one by one
        ring = Comp("ring", 5.0, [Cur("jouter", 1), Cur("jhole", -1)])
        ring.subshapes = (Comp("outer_disk", 9.0, [ring.jordans[0]]), Comp("plane_minus_hole", -4.0, [ring.jordans[1]]))
        for comp, label in ((c1, "disk"), (ring, "ring")):
            calls = plot_run(ctx, comp, "ConnectedShape")
            fills = [c[1] for c in calls if c[0] == "patch" and c[1][1][0] == "fillpath"]
            ok = len(fills) == 1 and fills[0][1][1] == label and fills[0][2] not in ("white", None) \
                and not any(c[0] == "facecolor" for c in calls)
            (out.ok if ok else out.bad)(fn.qname, f"a connected shape ({label}) is one filled component" if ok else
                                        f"connected shape ({label}) drawn as {fills}"
                                        + (" on a coloured background" if any(c[0] == "facecolor" for c in calls) else ""),
                                        where=fn.where())
    except (Undecided, Raised) as ex:
        out.undecided(fn.qname, str(ex), where=fn.where())
    return out


def r20_5(ctx):
    o = C08.r08_4(ctx)
    o.rule = "R20.5"
    o.text = "plotting writes nothing of the shape but caches and subdivisions (same analysis as R08.4; the plot entry "
    o.text += "points are among the non-mutating entry points)"
    return o


RULES = [r20_1, r20_3, r20_4, r20_5]
