"""C16 -- primitive factories build the documented positive shapes or raise ValueError
(structural clauses).

 R16.1 validation siblings (abstract runs): every factory raises ValueError --
       and nothing else -- for a non-positive or non-numeric size, a malformed
       centre and an integer parameter that is not an int or below its
       documented minimum (evaluated at the boundary values), and accepts the
       boundary values themselves.
 R16.2 Primitive.polygon hands the vertices over unchanged and in order;
       from_vertices builds segment i from vertices (i, i+1 mod n).
 R16.3 the literal vertex tables of square / triangle / regular_polygon(4):
       documented vertices about the centre, positive (counter-clockwise)
       shoelace area side^2, side^2/2, 2 radius^2 for several exact sizes and
       centres (the area is a polynomial of degree 2 in the size, so three sizes
       decide it).
 R16.4 circle chain: ndivangle arcs, each starting at the previous end *object*,
       the last ending at the first start object, rotation step +tau/ndivangle,
       first arc from radius*(1, 0) with middle control point radius*(1,
       tan(angle/2)), moved to the centre.
Not decided: general regular polygons (numpy trigonometry), the circle band and
area convergence.
"""
import ast
import math
from fractions import Fraction as Fr

from verifkit.absrun import Obj, Runner, StandIn
from verifkit.core import Outcome
from verifkit.finite import Undecided, Raised
from rules.C14 import Vec

ASSUMPTIONS = ["Point2D(x) raises TypeError / ValueError for a string / a sequence that is not a pair of numbers (R17)"]
U = ast.unparse


class PV(Vec):
    """exact stand-in point supporting the arithmetic the factories use"""

    def __init__(self, x, y):
        self.x, self.y = x, y

    def __add__(self, o):
        return PV(self.x + o.x, self.y + o.y)

    def __rmul__(self, k):
        return PV(k * self.x, k * self.y)

    def __mul__(self, k):
        return PV(k * self.x, k * self.y)

    def __iter__(self):
        return iter((self.x, self.y))

    def move(self, v):
        self.x, self.y = self.x + v[0], self.y + v[1]
        return self

    def scale(self, a, b):
        self.x, self.y = self.x * a, self.y * b
        return self

    def __copy__(self):
        return PV(self.x, self.y)

    def __eq__(self, o):
        return isinstance(o, PV) and (self.x, self.y) == (o.x, o.y)

    def __hash__(self):
        return id(self)

    def __repr__(self):
        return f"({self.x}, {self.y})"


def point2d(*a):
    if len(a) == 1:
        a = a[0]
        if isinstance(a, PV):
            return a
        if isinstance(a, str):
            raise TypeError("str")
        try:
            x, y = a
        except (TypeError, ValueError):
            raise ValueError("Invalid input for point")
    else:
        x, y = a
    if isinstance(x, str) or isinstance(y, str):
        raise TypeError("str")
    float(x)
    float(y)
    return PV(x, y)


def factory_hook(captured):
    def hook(rn, ev, call, name, recv, args, kwargs):
        if name == "Point2D":
            return point2d(*args)
        if name == "polygon" and isinstance(recv, Obj) and str(recv) == "class:Primitive":
            captured["vertices"] = [point2d(v) for v in args[0]]       # points, or pairs the polygon factory makes points of
            return "SHAPE"
        if name == "empty" or name in ("linspace", "arange") or name in ("cos", "sin"):
            raise Undecided("numpy trigonometry")
        return NotImplemented
    return hook


def outcome_of(ctx, fn, kwargs):
    """'ok' / ('raises', exception name) / ('undecided', why)"""
    cap = {}
    try:
        Runner(ctx, set(), factory_hook(cap), asserts=True).call_fn(fn, [], kwargs)
        return "ok", cap
    except Raised as r:
        return ("raises", r.what.split("(")[0].strip()), cap
    except Undecided as ex:
        if "numpy trigonometry" in str(ex) or str(ex).startswith("external function") or "vertices" in cap:
            return "ok", cap          # validation passed, construction not interpreted
        return ("undecided", str(ex)), cap
    except (TypeError, ValueError, AssertionError) as ex:       # raised by a stand-in outside any handler
        return ("raises", type(ex).__name__), cap


def r16_1(ctx):
    out = Outcome("R16.1", "every factory raises ValueError (and nothing else) for a non-positive / non-numeric size, a "
                           "malformed centre, a non-int or too small integer parameter, and accepts the boundary values",
                  floor=30)
    out.exhaustive = False
    specs = {
        "square": ("side", None, None),
        "triangle": ("side", None, None),
        "regular_polygon": ("radius", "nsides", 3),
        "circle": ("radius", "ndivangle", 4),
    }
    for name, (size, ipar, imin) in specs.items():
        fn = ctx.fn(f"primitive.Primitive.{name}")
        base = {}
        if ipar:
            base[ipar] = 4
        bad = [({size: 0}, "size 0"), ({size: -1}, "negative size"), ({size: "a"}, "non-numeric size"),
               ({size: None}, "size None"), ({size: "2"}, "size is a numeric string"), ({size: "1.5"}, "size is a decimal string"),
               ({"center": "ab"}, "centre is a string"), ({"center": (1, 2, 3)}, "centre is a triple"),
               ({"center": ("a", 1)}, "centre with a string coordinate")]
        good = [({size: Fr(1, 1000)}, "tiny positive size"), ({size: 3, "center": (5, 7)}, "int size, shifted centre"),
                ({size: 2.5}, "float size")]
        if ipar:
            bad += [({ipar: imin - 1}, f"{ipar} = {imin - 1}"), ({ipar: float(imin + 1)}, f"{ipar} is a float"),
                    ({ipar: "4"}, f"{ipar} is a string")]
            good += [({ipar: imin}, f"{ipar} = {imin} (documented minimum)"), ({ipar: imin + 1}, f"{ipar} = {imin + 1}")]
        for kw, label in bad:
            args = dict(base)
            args.update(kw)
            res, _ = outcome_of(ctx, fn, args)
            if res == ("raises", "ValueError"):
                out.ok(fn.qname, f"{label} -> ValueError", where=fn.where())
            elif isinstance(res, tuple) and res[0] == "undecided":
                out.undecided(fn.qname, f"{label}: {res[1]}", where=fn.where())
            elif res == "ok":
                out.bad(fn.qname, "size parameter not validated" if size in kw else
                        ("centre not validated" if "center" in kw else "integer parameter not validated"),
                        where=fn.where(), detail=f"{label} is accepted")
            else:
                out.bad(fn.qname, f"invalid parameter raises {res[1]} instead of ValueError", where=fn.where(),
                        detail=label)
        for kw, label in good:
            args = dict(base)
            args.update(kw)
            res, _ = outcome_of(ctx, fn, args)
            if res == "ok":
                out.ok(fn.qname, f"{label} accepted", where=fn.where())
            elif isinstance(res, tuple) and res[0] == "undecided":
                out.undecided(fn.qname, f"{label}: {res[1]}", where=fn.where())
            else:
                out.bad(fn.qname, f"valid parameters rejected ({label})", where=fn.where(), detail=f"raises {res[1]}")
    return out


def r16_2(ctx):
    out = Outcome("R16.2", "Primitive.polygon keeps exactly the given vertices in the given order; from_vertices builds "
                           "segment i from vertices (i, i+1 mod n)", floor=2)
    fn = ctx.fn("primitive.Primitive.polygon")
    vs = [PV(0, 0), PV(4, 0), PV(5, 3), PV(1, 6)]
    seen = {}

    def hook(rn, ev, call, name, recv, args, kwargs):
        if name == "Point2D":
            return point2d(*args)
        if name == "from_vertices":
            seen["v"] = list(args[0])
            return "JORDAN"
        if name == "SimpleShape":
            seen["shape_of"] = args[0]
            return "SHAPE"
        return NotImplemented
    try:
        got = Runner(ctx, set(), hook).call_fn(fn, [vs])
        ok = got == "SHAPE" and seen.get("shape_of") == "JORDAN" and len(seen.get("v", [])) == 4 \
            and all(a is b for a, b in zip(seen["v"], vs))
        (out.ok if ok else out.bad)(fn.qname, "vertices handed over unchanged and in order" if ok else
                                    "the polygon is not built from exactly the given vertices in the given order",
                                    where=fn.where(), detail="" if ok else str(seen))
    except (Undecided, Raised) as ex:
        out.undecided(fn.qname, str(ex), where=fn.where())
    fv = ctx.fn("jordancurve.JordanCurve.from_vertices")
    made = []
    seen = {}

    def hook2(rn, ev, call, name, recv, args, kwargs):
        if name == "Point2D":
            return point2d(*args)
        if name == "PlanarCurve":
            s = tuple(args[0])
            made.append(s)
            return ("SEG", s)
        if name == "from_segments":
            seen["segs"] = list(args[0])
            return "JORDAN"
        if name == "isinstance":
            return isinstance(args[0], str)
        return NotImplemented
    try:
        got = Runner(ctx, set(), hook2).call_fn(fv, [list(vs)])
        segs = [s[1] for s in seen.get("segs", [])]
        want = [(vs[i], vs[(i + 1) % 4]) for i in range(4)]
        ok = got == "JORDAN" and len(segs) == 4 and all(len(s) == 2 and s[0] is w[0] and s[1] is w[1] for s, w in zip(segs, want))
        (out.ok if ok else out.bad)(fv.qname, "segment i joins vertices i and i+1 (mod n)" if ok else
                                    "segments do not join consecutive vertices cyclically", where=fv.where(),
                                    detail="" if ok else str(segs))
    except (Undecided, Raised) as ex:
        out.undecided(fv.qname, str(ex), where=fv.where())
    return out


def shoelace(vs):
    a = 0
    n = len(vs)
    for i in range(n):
        a += vs[i].x * vs[(i + 1) % n].y - vs[(i + 1) % n].x * vs[i].y
    return a / 2


def r16_3(ctx):
    out = Outcome("R16.3", "square / triangle / regular_polygon(4): documented vertices about the centre, "
                           "counter-clockwise, area side^2 / side^2/2 / 2 radius^2 (exact, three sizes)", floor=9)
    cases = [
        ("square", "side", {}, lambda s: s * s,
         lambda s, c: {(c[0] + h * s / 2, c[1] + k * s / 2) for h in (1, -1) for k in (1, -1)}),
        ("triangle", "side", {}, lambda s: s * s / 2, lambda s, c: {(c[0], c[1]), (c[0] + s, c[1]), (c[0], c[1] + s)}),
        ("regular_polygon", "radius", {"nsides": 4}, lambda s: 2 * s * s,
         lambda s, c: {(c[0] + s, c[1]), (c[0], c[1] + s), (c[0] - s, c[1]), (c[0], c[1] - s)}),
    ]
    for name, size, extra, area, verts in cases:
        fn = ctx.fn(f"primitive.Primitive.{name}")
        # the centre is given as a pair, or as an existing point object (Point2D(p) is p itself: the factory must
        # neither build every vertex on that one object nor move the caller's point)
        for s, c, as_point in ((Fr(3), (Fr(0), Fr(0)), False), (Fr(7, 2), (Fr(5), Fr(-2)), False),
                               (Fr(1, 3), (Fr(-1, 2), Fr(4)), False), (Fr(7, 2), (Fr(5), Fr(-2)), True)):
            kw = dict(extra)
            cpt = PV(*c) if as_point else c
            kw.update({size: s, "center": cpt})
            res, cap = outcome_of(ctx, fn, kw)
            if as_point and res == "ok" and (cpt.x, cpt.y) != c:
                out.bad(fn.qname, "the caller's centre point is modified by the factory", where=fn.where(),
                        detail=f"centre given as a point object ({c[0]}, {c[1]}) is ({cpt.x}, {cpt.y}) afterwards")
                continue
            if res != "ok" or "vertices" not in cap:
                out.undecided(fn.qname, f"{size}={s}: construction not interpretable ({res})", where=fn.where())
                continue
            vs = cap["vertices"]
            got_a = shoelace(vs)
            got_v = {(v.x, v.y) for v in vs}
            if got_v != verts(s, c):
                out.bad(fn.qname, "vertices differ from the documented ones", where=fn.where(),
                        detail=f"{size}={s}, centre={tuple(map(str, c))}: {sorted(map(str, vs))}")
            elif got_a != area(s):
                out.bad(fn.qname, "vertex order is not counter-clockwise with the documented area", where=fn.where(),
                        detail=f"{size}={s}: signed area {got_a}, documented {area(s)}")
            else:
                out.ok(fn.qname, f"{size}={s}, centre=({c[0]}, {c[1]}){' given as a point object' if as_point else ''}: "
                                 f"area {got_a} > 0, documented vertices", where=fn.where())
    return out


class RP(StandIn):
    """symbolic rotating point: (radius factor, kind 'start'|'mid', number of rotation steps)"""

    def __init__(self, kind, steps=0, angle=None, scale=1):
        self.kind, self.steps, self.angle, self.scale = kind, steps, angle, scale

    def rotate(self, angle):
        if self.angle is not None and angle != self.angle:
            raise Undecided("rotation by varying angles")
        self.steps += 1
        self.angle = angle
        return self

    def __copy__(self):
        return RP(self.kind, self.steps, self.angle, self.scale)

    def __rmul__(self, k):
        return RP(self.kind, self.steps, self.angle, self.scale * k)

    def __repr__(self):
        return f"{self.kind}@{self.steps}"


def r16_4(ctx):
    out = Outcome("R16.4", "Primitive.circle: ndivangle quadratic arcs chained through shared end-point objects and "
                           "closed on the first start object; step +tau/ndivangle; moved to the centre", floor=4)
    fn = ctx.fn("primitive.Primitive.circle")
    # ... also to a centre on one of the axes (one coordinate zero: still a translation)
    for n, centre in ((4, (Fr(5), Fr(7))), (7, (Fr(5), Fr(7))), (4, (Fr(3), Fr(0))), (5, (Fr(0), Fr(-2)))):
        segs, moved, state = [], [], {}

        def hook(rn, ev, call, name, recv, args, kwargs):
            if name == "Point2D":
                if len(args) == 2 and args[0] == 1 and args[1] == 0:
                    return RP("start")
                if len(args) == 2 and args[0] == 1:
                    state["height"] = args[1]
                    return RP("mid")
                return point2d(*args)
            if name == "tan":
                return ("tan", args[0])
            if name == "copy" and args and isinstance(args[0], RP):
                return args[0].__copy__()
            if name == "PlanarCurve":
                o = Obj(f"arc{len(segs)}", ctrlpoints=tuple(args[0]))
                segs.append(o)
                return o
            if name == "from_segments":
                state["chain"] = list(args[0])
                j = Obj("JORDAN")
                j.__dict__["move"] = None
                return j
            if name == "move" and isinstance(recv, Obj) and recv._name == "JORDAN":
                moved.append(args)
                state.setdefault("ops", []).append("move")
                return recv
            if name == "scale" and isinstance(recv, Obj) and recv._name == "JORDAN":
                state.setdefault("ops", []).append("scale")
                state["scaled_by"] = args
                return recv
            if name == "SimpleShape":
                state["shape_of"] = args[0]
                return "SHAPE"
            return NotImplemented
        try:
            got = Runner(ctx, set(), hook, asserts=True).call_fn(fn, [], {"radius": Fr(3), "center": centre, "ndivangle": n})
        except (Undecided, Raised) as ex:
            out.undecided(fn.qname, f"ndivangle={n}, centre ({centre[0]}, {centre[1]}): {ex}", where=fn.where())
            continue
        chain = state.get("chain", [])
        errs = []
        ops = state.get("ops", [])
        if "scale" in ops and "move" in ops and ops.index("move") < len(ops) - 1 - ops[::-1].index("scale"):
            errs.append(f"the curve is scaled about the origin after it was moved to the centre: the centre ({centre[0]}, "
                        f"{centre[1]}) ends up multiplied by {state.get('scaled_by')}")
        if len(chain) != n:
            errs.append(f"{len(chain)} arcs for ndivangle={n}")
        else:
            step = math.tau / n
            for i, arc in enumerate(chain):
                cp = arc.ctrlpoints
                if len(cp) != 3:
                    errs.append(f"arc {i} has {len(cp)} control points")
                    break
                nxt = chain[(i + 1) % n].ctrlpoints
                if cp[2] is not nxt[0]:
                    errs.append(f"arc {i} does not end in the start point object of arc {(i + 1) % n}"
                                + (" (the chain is not closed on the first point)" if i == n - 1 else ""))
                    break
                if not (isinstance(cp[0], RP) and cp[0].kind == "start" and cp[0].steps == i
                        and isinstance(cp[1], RP) and cp[1].kind == "mid" and cp[1].steps == i):
                    errs.append(f"arc {i} is not the first arc rotated {i} times: {cp}")
                    break
                if i > 0 and (abs(cp[0].angle - step) > 1e-12 or abs(cp[1].angle - step) > 1e-12):
                    errs.append(f"rotation step {cp[0].angle} instead of tau/{n}")
                    break
                if cp[0].scale != 3 or cp[1].scale != 3:
                    errs.append("arc points are not scaled by the radius")
                    break
            h = state.get("height")
            if not errs and not (isinstance(h, tuple) and h[0] == "tan" and abs(h[1] - step / 2) < 1e-12):
                errs.append(f"middle control point height is {h}, required tan(angle/2)")
        if not errs and (len(moved) != 1 or not (isinstance(moved[0][0], PV) and (moved[0][0].x, moved[0][0].y) == centre)):
            errs.append(f"curve not moved to the centre ({centre[0]}, {centre[1]}): {moved}")
        if not errs and (got != "SHAPE" or state.get("shape_of") is None):
            errs.append("does not return SimpleShape(curve)")
        if errs:
            out.bad(fn.qname, "circle is not a closed chain of ndivangle rotated arcs about the centre", where=fn.where(),
                    detail=f"ndivangle={n}, centre ({centre[0]}, {centre[1]}): " + "; ".join(errs))
        else:
            out.ok(fn.qname, f"ndivangle={n}, centre ({centre[0]}, {centre[1]}): closed chain of {n} arcs, step tau/{n}, radius and centre applied", where=fn.where())
    return out


class NVec(StandIn):
    """stand-in 1-d numpy array of symbolic numbers"""

    def __init__(self, items):
        self.items = list(items)

    def __rmul__(self, k):
        return NVec([k * x for x in self.items])

    __mul__ = __rmul__

    def __radd__(self, k):          # scalar + array / array + array, elementwise as numpy does
        if isinstance(k, NVec):
            return NVec([a + b for a, b in zip(k.items, self.items)])
        return NVec([k + x for x in self.items])

    __add__ = __radd__

    def __iter__(self):
        return iter(self.items)

    def __len__(self):
        return len(self.items)


class NArr(StandIn):
    """stand-in 2-d numpy array filled column-wise"""

    def __init__(self, n, m):
        self.rows = [[None] * m for _ in range(n)]

    def __setitem__(self, key, val):
        rs, c = key
        if isinstance(rs, slice):
            vals = list(val)
            for r, v in zip(self.rows, vals):
                r[c] = v
        else:
            self.rows[rs][c] = val

    def __getitem__(self, key):
        if isinstance(key, tuple):
            return self.rows[key[0]][key[1]]
        return self.rows[key]

    def __iter__(self):
        return iter([tuple(r) for r in self.rows])

    def __len__(self):
        return len(self.rows)


def r16_5(ctx):
    from rules.C18 import Sym
    from verifkit import poly
    out = Outcome("R16.5", "regular_polygon (general branch): vertex k = centre + radius * (cos t_k, sin t_k) with t_k = "
                           "k tau / nsides, in increasing k (counter-clockwise), symbolically in cos t_k / sin t_k", floor=2)
    fn = ctx.fn("primitive.Primitive.regular_polygon")
    for n, r, c in ((3, Fr(2), (Fr(3), Fr(-1))), (5, Fr(7, 2), (Fr(-4), Fr(6)))):
        cap = {}

        def hook(rn, ev, call, name, recv, args, kwargs):
            if name == "Point2D":
                a = args[0] if len(args) == 1 else args
                if isinstance(a, PV):
                    return a
                x, y = a
                return PV(x, y)
            if name == "empty":
                shape = args[0]
                return NArr(shape[0], shape[1])
            if name == "linspace":
                lo, hi, cnt = args[0], args[1], args[2]
                if kwargs.get("endpoint", True) is not False or lo != 0 or abs(hi - math.tau) > 1e-12:
                    cap["angles"] = f"linspace({lo}, {hi}, {cnt}, endpoint={kwargs.get('endpoint', True)})"
                return NVec(range(cnt))
            if name == "arange":
                a = list(args)
                start, stop, step = (0, a[0], kwargs.get("step", 1)) if len(a) == 1 else \
                    (a[0], a[1], a[2] if len(a) > 2 else kwargs.get("step", 1))
                if all(isinstance(v, int) and not isinstance(v, bool) for v in (start, stop, step)):
                    return NVec(range(start, stop, step))
                # a non-integer step: numpy takes ceil((stop - start) / step) angles, computed in floating point
                cnt = math.ceil((stop - start) / step)
                off = [m for m in range(3, 400) if math.ceil(math.tau / (math.tau / m)) != m][:4]
                cap["angles"] = (f"arange({start}, {stop}, {step}): the number of angles is ceil((stop - start) / step) in "
                                 f"floating point, which is not nsides for every nsides (e.g. nsides = {off})")
                return NVec(range(cnt))
            if name in ("cos", "sin") and args and isinstance(args[0], NVec):
                return NVec([Sym(poly.atom(f"{name}{k}")) for k in args[0].items])
            if name == "polygon":
                cap["vertices"] = list(args[0])
                return "SHAPE"
            if name == "float" and args and isinstance(args[0], Sym):
                return 0.0
            return NotImplemented
        try:
            Runner(ctx, set(), hook, asserts=True).call_fn(fn, [], {"nsides": n, "radius": r, "center": c})
        except (Undecided, Raised, TypeError, AttributeError) as ex:
            out.undecided(fn.qname, f"nsides={n}: not interpretable: {ex}", where=fn.where())
            continue
        vs = cap.get("vertices")
        if vs is None or len(vs) != n:
            out.bad(fn.qname, f"nsides={n}: {0 if vs is None else len(vs)} vertices handed to polygon", where=fn.where())
            continue
        if "angles" in cap:
            out.bad(fn.qname, f"angles are not k*tau/nsides for k = 0..nsides-1: {cap['angles']}", where=fn.where())
            continue
        errs = []
        for k, v in enumerate(vs):
            wx = poly.add(poly.const(c[0]), poly.scale(poly.atom(f"cos{k}"), r))
            wy = poly.add(poly.const(c[1]), poly.scale(poly.atom(f"sin{k}"), r))
            gx = Sym.lift(v.x).p
            gy = Sym.lift(v.y).p
            if gx != wx or gy != wy:
                errs.append(f"vertex {k} = ({poly.show(gx)}, {poly.show(gy)}), required ({poly.show(wx)}, {poly.show(wy)})")
        if errs:
            out.bad(fn.qname, "general regular polygon: vertices are not centre + radius * (cos, sin)", where=fn.where(),
                    detail=f"nsides={n}, radius={r}, centre=({c[0]}, {c[1]}): {errs[0]}")
        else:
            out.ok(fn.qname, f"nsides={n}: vertices = centre + radius*(cos t_k, sin t_k), k increasing", where=fn.where())
    return out


RULES = [r16_1, r16_2, r16_3, r16_4, r16_5]
