"""C19 -- directly constructed composite shapes equal the ones operators build
(structural clauses).

 R19.1 ConnectedShape = forall / sum over its subshapes, DisjointShape = exists /
       sum (= R02.3 + R04.5).
 R19.2 canonical order: both `subshapes` setters store the elements sorted by
       their own measures (area, then boundary length), largest first -- the
       stored order does not depend on the order of the input list.
 R19.3 collapse rules of DisjointShape.__new__ over the list after removal of
       Empty entries: 0 -> Empty, 1 -> a *copy* of the element, >= 2 -> an
       instance holding all of them; __init__ does not overwrite subshapes.
 R19.4 complement by De Morgan and `jordans` coverage (= R01.1, R09.3).
Not decided: `==` with operator-built shapes.
"""
import ast
import itertools

from verifkit import pat
from verifkit.absrun import Obj, Runner, StandIn
from verifkit.core import Outcome
from verifkit.finite import Undecided, Raised
from rules import C01, C02, C04

ASSUMPTIONS = C02.ASSUMPTIONS[:1] + ["subshapes of distinct measures (ties in the sort key are not modelled)"]
U = ast.unparse


def r19_1(ctx):
    a = C02.r02_3(ctx)
    a.rule = "R19.1a"
    b = C04.r04_5(ctx)
    b.rule = "R19.1b"
    c = C02.r02_3b(ctx)
    c.rule = "R19.1c"
    return [a, b, c]


class Sh(StandIn):
    def __init__(self, name, area, lenght):
        self.name, self.area = name, area
        self.jordans = (Cv(lenght),)

    def __float__(self):
        return float(self.area)

    def __repr__(self):
        return self.name


class Cv(StandIn):
    def __init__(self, lenght):
        self.lenght = lenght

    def __float__(self):
        return float(self.lenght)


def r19_2(ctx):
    out = Outcome("R19.2", "subshapes are stored in a canonical order (largest area first, then boundary length) "
                           "independent of the order of the input list", floor=2)
    items = [Sh("a", 9, 12), Sh("b", -4, -8), Sh("c", 25, 20), Sh("d", 1, 4)]
    want = ["c", "a", "d", "b"]
    for cls in ("ConnectedShape", "DisjointShape"):
        fn = ctx.fn(f"shape.{cls}.subshapes:set")
        results = set()
        undecided = False
        for perm in itertools.permutations(items):
            S = Obj("S")
            try:
                Runner(ctx, set(), lambda rn, ev, c, n, r, a, k: True if n == "isinstance" else NotImplemented,
                       asserts=True).call_fn(fn, [S, list(perm)])
            except (Undecided, Raised) as ex:
                out.undecided(fn.qname, str(ex), where=fn.where())
                undecided = True
                break
            stored = [v for k, v in S.__dict__.items() if k.endswith("subshapes")]
            results.add(tuple(x.name for x in stored[0]) if stored else None)
        if undecided:
            continue
        if len(results) != 1:
            out.bad(fn.qname, "the stored order of the subshapes depends on the order of the input list", where=fn.where(),
                    detail=f"{len(results)} different orders over the 24 permutations")
        elif list(next(iter(results)) or []) != want:
            out.bad(fn.qname, "subshapes are not stored largest area first", where=fn.where(),
                    detail=f"stored {next(iter(results))}, required {want} (containment and the complement rely on it)")
        else:
            out.ok(fn.qname, f"24 input orders -> one stored order {want}", where=fn.where())
    return out


def r19_3(ctx):
    out = Outcome("R19.3", "DisjointShape([...]): Empty entries are dropped first; then 0 elements -> Empty, 1 -> a copy of "
                           "it, >= 2 -> a DisjointShape holding all of them", floor=7)
    out.exhaustive = True
    fn = ctx.fn("shape.DisjointShape.__new__")
    E = Obj("EMPTY")
    s1, s2, s3 = Obj("s1"), Obj("s2"), Obj("s3")
    cases = [("empty list", [], "E"), ("only Empty entries", [E, E], "E"), ("one shape", [s1], ("copy", "s1")),
             ("Empty then one shape", [E, s1], ("copy", "s1")), ("one shape between Empty entries", [E, s1, E], ("copy", "s1")),
             ("two shapes", [s1, s2], ("inst", ["s1", "s2"])), ("two shapes and Empty", [s1, E, s2], ("inst", ["s1", "s2"])),
             ("three shapes", [s3, s1, s2], ("inst", ["s3", "s1", "s2"])),
             # neighbouring Empty entries (a removal loop that walks the list it shortens skips the second one)
             ("two neighbouring Empty entries, then a shape", [E, E, s1], ("copy", "s1")),
             ("two shapes around two neighbouring Empty entries", [s1, E, E, s2], ("inst", ["s1", "s2"])),
             ("three Empty entries", [E, E, E], "E")]
    for label, lst, want in cases:
        inst = Obj("INSTANCE")

        def hook(rn, ev, call, name, recv, args, kwargs):
            if name == "EmptyShape":
                return E
            if name == "isinstance":
                return args[0] is not E
            if name == "copy":
                return ("copy", args[0]._name)
            if name == "__new__":
                return inst
            if name == "super":
                return Obj("super")
            return NotImplemented
        try:
            got = Runner(ctx, set(), hook, asserts=True).call_fn(fn, [Obj("class:DisjointShape"), list(lst)])
        except Undecided as ex:
            out.undecided(fn.qname, f"{label}: {ex}", where=fn.where())
            continue
        except Raised as ex:
            out.bad(fn.qname, f"collapse rule wrong: {label}", where=fn.where(), detail=f"raises {ex.what}")
            continue
        if want == "E":
            ok = got is E
        elif want[0] == "copy":
            ok = got == want
        else:
            held = inst.__dict__.get("subshapes")
            ok = got is inst and held is not None and [x._name for x in held] == want[1]
        if ok:
            out.ok(fn.qname, f"{label} -> {'Empty' if want == 'E' else 'copy of the shape' if want[0] == 'copy' else 'instance'}",
                   where=fn.where())
        else:
            shown = "Empty" if got is E else "a DisjointShape instance" if got is inst else \
                ("the shape itself (not a copy)" if isinstance(got, Obj) else repr(got))
            out.bad(fn.qname, f"collapse rule wrong: {label}", where=fn.where(), detail=f"returns {shown}")
    fi = ctx.fn("shape.DisjointShape.__init__")
    writes = [n for n in ast.walk(fi.node) if isinstance(n, ast.Assign) and any(
        isinstance(t, ast.Attribute) and "subshapes" in t.attr for t in n.targets)]
    (out.bad if writes else out.ok)(fi.qname, "__init__ overwrites the subshapes chosen by __new__" if writes else
                                    "__init__ leaves subshapes alone", where=fi.where())
    return out


def r19_4(ctx):
    o = C01.r01_1(ctx)
    o.rule = "R19.4"
    o.text = "complement of a composite by De Morgan over its subshapes (same analysis as R01.1)"
    return o


def r19_5(ctx):
    from rules import C10
    o = C10.r10_1(ctx)
    o.rule = "R19.5"
    o.text = ("area, box and containment answers of a composite are computed from its subshapes as they are now: no value "
              "stored when the composite was built (or lazily cached) survives a change of a subshape (same analysis as R10.1)")
    return o


def r19_6(ctx):
    from rules import C07
    o = C07.r07_2(ctx)
    o.rule = "R19.6"
    o.text = ("a directly constructed composite equals the same region however its subshapes were listed: == compares "
              "the constituents as multisets, also for three components in a non-cyclic order (same analysis as R07.2)")
    return o


def r19_7(ctx):
    from rules import C06
    o = C06.r06_4(ctx)
    o.rule = "R19.7"
    o.text = ("copies, complements and operator results of directly constructed composites are regrouped into the right components: nested four levels deep (a hole in an island in a hole) the curve of largest |area| seeds each component (same analysis as R06.4)")
    return o


RULES = [r19_1, r19_2, r19_3, r19_4, r19_5, r19_6, r19_7]
