"""C03 -- `B in A` means subset (structural clauses).

 R03.1 decision function of SimpleShape.__contains_simple against the geometric
       truth table of two simple closed curves: 5 configurations (disjoint
       disks, A's curve inside B's, B's inside A's, identical, crossing) x 4
       orientation pairs, each with the facts the code may consult (signed
       areas, area order, box overlap possible or not, curve-in-region facts);
       evaluated with a small symbolic object model, nothing is executed.
       The table is derived from the definition of the region of a +/- curve.
 R03.2 composition rules over subshapes (quantifier kind, collection, direction
       of the nested subset claim -- complemented claims are normalised through
       their pointwise violating set).
 R03.3 singleton guards (Empty in everything, Whole only in Whole) and kind
       dispatch.
 R03.4 curve-in-shape: every vertex of the curve is tested with the caller's
       boundary flag before True can be returned.
 R03.5 the consulted facts (signed areas, boxes) are never stale (= R10.1).
Not decided: adequacy of the vertex / mid-crossing sampling of _contains_jordan,
the consequences A|B == A.
"""
import ast
import itertools
from fractions import Fraction as Fr

from verifkit import pat
from verifkit.absrun import isinstance_names, Obj, Runner, StandIn
from verifkit.core import Outcome
from verifkit.model import AnalysisError
from verifkit.finite import Undecided

ASSUMPTIONS = [
    "generic position: two closed curves are disjoint, nested, identical or cross transversally (tangencies and "
    "partially coincident boundaries are not modelled)",
    "region of a counter-clockwise curve = its closed disk, of a clockwise curve = the closed exterior",
]
U = ast.unparse


# ---- ground truth ---------------------------------------------------------
def truth(case, sA, sB):
    """A subset of B for curve configuration `case` and orientation signs"""
    if case in (1, 6):
        return sA > 0 and sB < 0            # disjoint disks (closed regions: touching in one point changes nothing)
    if case == 2:
        return sA > 0 and sB > 0            # curve A inside curve B
    if case == 3:
        return sA < 0 and sB < 0            # curve B inside curve A
    if case == 4:
        return sA == sB                     # identical curves
    return False                            # crossing curves


SWAP = {1: 1, 2: 3, 3: 2, 4: 4, 5: 5, 6: 6}
CASE_NAME = {1: "disjoint disks", 2: "A's curve inside B's", 3: "B's curve inside A's", 4: "identical curves",
             5: "crossing curves", 6: "disks touching from outside in one point, a vertex of one of the curves"}


def curve_in_region(case, X, Y, sY):
    """is the curve of role X inside the closed region of role Y (sign sY)"""
    if X == Y or case == 4:
        return True
    if case == 5:
        return False
    if case in (1, 6):
        return sY < 0
    inner = "A" if case == 2 else "B"
    if X == inner:
        return sY > 0                       # the inner curve lies in the disk of the outer one
    return sY < 0                           # the outer curve lies in the exterior of the inner one


def vertex_in_region(row, X, idx, Y, sY):
    """is vertex number idx of the curve of role X in the closed region of role Y?  A single vertex knows less than the
    whole curve: on crossing curves it may lie on either side (row['vin']), and where the disks touch, the touching
    vertex (row['touch'] = role + '0': it is vertex 0 of that curve) lies in *both* closed regions"""
    case = row["case"]
    if X == Y or case == 4:
        return True
    if case == 5:
        return bool(row.get("vin", False))
    if case == 6 and row.get("touch") == X + "0" and idx == 0:
        return True
    return curve_in_region(case, X, Y, sY)


def rows():
    # the non-generic configuration 6 and the per-vertex facts matter only to code that consults single vertices;
    # they are enumerated always (the decision must agree with the table there as well)
    for sA, sB in itertools.product((1, -1), repeat=2):
        for touch in ("A0", "B0", "none"):
            for mA, mB in ((1, 4), (4, 1)):
                yield dict(case=6, sA=sA, sB=sB, mA=mA, mB=mB, overlap=True, touch=touch)
    for case in (1, 2, 3, 4, 5):
        for sA, sB in itertools.product((1, -1), repeat=2):
            if case == 1:
                variants = [(1, 4, ov) for ov in (True, False)] + [(4, 1, ov) for ov in (True, False)] \
                    + [(2, 2, True), (2, 2, False)]
            elif case == 2:
                variants = [(1, 4, True)]
            elif case == 3:
                variants = [(4, 1, True)]
            elif case == 4:
                variants = [(2, 2, True)]
            else:
                variants = [(1, 4, True), (4, 1, True), (2, 2, True)]
            for mA, mB, ov in variants:
                if case == 5:
                    for vin in (True, False):
                        yield dict(case=case, sA=sA, sB=sB, mA=mA, mB=mB, overlap=ov, vin=vin)
                else:
                    yield dict(case=case, sA=sA, sB=sB, mA=mA, mB=mB, overlap=ov)


class Shape:
    def __init__(self, role, flip=1):
        self.role, self.flip = role, flip


class Jordan:
    def __init__(self, role):
        self.role = role


class Vertex:
    def __init__(self, role, idx):
        self.role, self.idx = role, idx


class BoxV:
    def __init__(self, role):
        self.role = role


class NeedLength(Exception):
    """the decision function consults the signed length of a curve: the row is expanded by the order of the lengths"""


class Recursion(Exception):
    """the decision function re-enters itself on complemented operands without reaching a base case"""


_CTX = None


class Interp:
    """symbolic evaluation of __contains_simple on one row.  Roles: 'A' = other (candidate subset), 'B' = self."""

    def __init__(self, fn, row, depth=0):
        self.fn, self.row, self.depth = fn, row, depth
        ps = fn.params
        self.env = {ps[0]: Shape("B"), ps[1]: Shape("A")}

    def sign(self, sh):
        return (self.row["sA"] if sh.role == "A" else self.row["sB"]) * sh.flip

    def mag(self, sh):
        return self.row["mA"] if sh.role == "A" else self.row["mB"]

    def area(self, sh):
        return self.sign(sh) * self.mag(sh)

    def shape_in_shape(self, X, Y):
        """nested `X in Y` between the two simple shapes: re-enter the function on the corresponding row"""
        if X.role == Y.role:
            raise Undecided("containment of a shape in (the complement of) itself")
        if self.depth >= 3:
            raise Recursion()
        case = self.row["case"] if X.role == "A" else SWAP[self.row["case"]]
        row = dict(case=case, sA=self.sign(X), sB=self.sign(Y), mA=self.mag(X), mB=self.mag(Y),
                   overlap=self.row["overlap"])
        if "vin" in self.row:
            row["vin"] = self.row["vin"]
        if "lA" in self.row:
            row["lA"], row["lB"] = (self.row["lA"], self.row["lB"]) if X.role == "A" else (self.row["lB"], self.row["lA"])
        if "touch" in self.row:
            t = self.row["touch"]
            row["touch"] = t if X.role == "A" or t == "none" else {"A0": "B0", "B0": "A0"}[t]
        return Interp(self.fn, row, self.depth + 1).run()

    def run(self):
        r = self.block(self.fn.node.body)
        if r is None:
            raise Undecided("falls off the end")
        return r

    def block(self, body):
        for st in body:
            if isinstance(st, (ast.Assert, ast.Pass)) or (isinstance(st, ast.Expr) and isinstance(st.value, ast.Constant)):
                continue
            if isinstance(st, ast.Assign) and len(st.targets) == 1 and isinstance(st.targets[0], ast.Name):
                self.env[st.targets[0].id] = self.ev(st.value)
                continue
            if isinstance(st, ast.If):
                r = self.block(st.body) if self.truthy(self.ev(st.test)) else self.block(st.orelse)
                if r is not None:
                    return r
                continue
            if isinstance(st, ast.Return):
                return self.truthy(self.ev(st.value))
            raise Undecided("statement " + U(st)[:40])
        return None

    def truthy(self, v):
        if isinstance(v, BoxV):
            return True
        if v is None:
            return False
        if isinstance(v, (Shape, Jordan)):
            raise Undecided("truth value of a shape")
        return bool(v)

    def ev(self, e):
        if isinstance(e, ast.Constant):
            return e.value
        if isinstance(e, ast.Name):
            if e.id in self.env:
                return self.env[e.id]
            raise Undecided("name " + e.id)
        if isinstance(e, ast.IfExp):
            return self.ev(e.body) if self.truthy(self.ev(e.test)) else self.ev(e.orelse)
        if isinstance(e, ast.NamedExpr) and isinstance(e.target, ast.Name):
            self.env[e.target.id] = self.ev(e.value)
            return self.env[e.target.id]
        if isinstance(e, ast.BoolOp):
            v = None
            for x in e.values:
                v = self.ev(x)
                t = self.truthy(v)
                if isinstance(e.op, ast.And) and not t:
                    return v
                if isinstance(e.op, ast.Or) and t:
                    return v
            return v
        if isinstance(e, ast.UnaryOp):
            v = self.ev(e.operand)
            if isinstance(e.op, ast.Not):
                return not self.truthy(v)
            if isinstance(e.op, (ast.Invert, ast.USub)) and isinstance(v, Shape):
                return Shape(v.role, -v.flip)
            if isinstance(e.op, ast.USub) and isinstance(v, (int, float)):
                return -v
            raise Undecided(U(e)[:40])
        if isinstance(e, ast.Compare) and len(e.ops) == 1:
            l, r = self.ev(e.left), self.ev(e.comparators[0])
            op = e.ops[0]
            if isinstance(op, (ast.In, ast.NotIn)):
                if isinstance(l, Jordan) and isinstance(r, Shape):
                    v = curve_in_region(self.row["case"], l.role, r.role, self.sign(r))
                elif isinstance(l, Vertex) and isinstance(r, Shape):
                    v = vertex_in_region(self.row, l.role, l.idx, r.role, self.sign(r))
                elif isinstance(l, Shape) and isinstance(r, Shape):
                    v = self.shape_in_shape(l, r)
                else:
                    raise Undecided("membership " + U(e)[:40])
                return v if isinstance(op, ast.In) else not v
            if isinstance(l, (int, float)) and isinstance(r, (int, float)):
                return {ast.Lt: l < r, ast.LtE: l <= r, ast.Gt: l > r, ast.GtE: l >= r, ast.Eq: l == r,
                        ast.NotEq: l != r}[type(op)]
            if isinstance(op, (ast.Is, ast.IsNot)) and (r is None or l is None):
                same = (l is None and r is None) or (isinstance(l, type(None)) and isinstance(r, type(None)))
                return same if isinstance(op, ast.Is) else not same
            raise Undecided(U(e)[:40])
        if isinstance(e, ast.BinOp) and isinstance(e.op, (ast.Add, ast.Sub, ast.Mult, ast.Div)):
            l, r = self.ev(e.left), self.ev(e.right)
            if isinstance(l, (int, float)) and isinstance(r, (int, float)) and not isinstance(l, bool) and not isinstance(r, bool):
                if isinstance(e.op, ast.Div) and r == 0:
                    raise Undecided("division by zero in " + U(e)[:40])
                return {ast.Add: lambda: l + r, ast.Sub: lambda: l - r, ast.Mult: lambda: l * r, ast.Div: lambda: l / r}[type(e.op)]()
            raise Undecided(U(e)[:40])
        if isinstance(e, ast.BinOp) and isinstance(e.op, ast.BitAnd):
            l, r = self.ev(e.left), self.ev(e.right)
            if isinstance(l, BoxV) and isinstance(r, BoxV):
                return BoxV("&") if self.row["overlap"] else None
            raise Undecided(U(e)[:40])
        if isinstance(e, ast.Subscript):
            v = self.ev(e.value)
            if isinstance(v, tuple) and isinstance(e.slice, ast.Constant):
                return v[e.slice.value]
            raise Undecided(U(e)[:40])
        if isinstance(e, ast.Attribute):
            v = self.ev(e.value)
            if isinstance(v, Shape) and e.attr == "jordans":
                return (Jordan(v.role),)
            if isinstance(v, Shape) and _CTX is not None:
                # the single curve of a simple shape read through a field or a private property
                cs = _CTX.typer.classes_of(_CTX.typer.of(self.fn).typeof(e))
                if cs and all(c == "JordanCurve" for c in cs):
                    return Jordan(v.role)
            if isinstance(v, Jordan) and e.attr == "vertices":
                return tuple(Vertex(v.role, i) for i in range(3))
            raise Undecided(U(e)[:40])
        if isinstance(e, ast.Call):
            f = e.func
            if isinstance(f, ast.Name) and f.id == "float" and len(e.args) == 1:
                v = self.ev(e.args[0])
                if isinstance(v, Shape):
                    return self.area(v)
                if isinstance(v, Jordan):
                    # float(curve) is its signed *length*: the sign of the orientation, a magnitude unrelated to the area
                    if "lA" not in self.row:
                        raise NeedLength()
                    return (self.row["sA"] * self.row["lA"]) if v.role == "A" else (self.row["sB"] * self.row["lB"])
            if isinstance(f, ast.Attribute) and f.attr == "isclose" and isinstance(f.value, ast.Name) \
                    and f.value.id in ("math", "np") and len(e.args) == 2:
                import math as _math
                a, b = self.ev(e.args[0]), self.ev(e.args[1])
                kw = {k.arg: self.ev(k.value) for k in e.keywords}
                if isinstance(a, (int, float)) and isinstance(b, (int, float)) and set(kw) <= {"rel_tol", "abs_tol", "rtol", "atol"}:
                    return _math.isclose(a, b, rel_tol=kw.get("rel_tol", kw.get("rtol", 1e-9)),
                                         abs_tol=kw.get("abs_tol", kw.get("atol", 0.0)))
            if isinstance(f, ast.Name) and f.id == "abs" and len(e.args) == 1:
                return abs(self.ev(e.args[0]))
            if isinstance(f, ast.Name) and f.id == "bool" and len(e.args) == 1:
                return self.truthy(self.ev(e.args[0]))
            if isinstance(f, ast.Attribute) and f.attr == "points" and isinstance(self.ev(f.value), Jordan):
                return tuple(Vertex(self.ev(f.value).role, i) for i in range(3))
            if isinstance(f, ast.Attribute) and f.attr == "contains_point" and e.args:
                sh, pt = self.ev(f.value), self.ev(e.args[0])
                if isinstance(sh, Shape) and isinstance(pt, Vertex):
                    return vertex_in_region(self.row, pt.role, pt.idx, sh.role, self.sign(sh))
            if isinstance(f, ast.Name) and f.id in ("all", "any") and len(e.args) == 1 \
                    and isinstance(e.args[0], (ast.GeneratorExp, ast.ListComp)) and len(e.args[0].generators) == 1:
                g = e.args[0].generators[0]
                seq = self.ev(g.iter)
                if isinstance(seq, tuple) and isinstance(g.target, ast.Name) and not g.ifs:
                    vals = []
                    for x in seq:
                        saved = self.env.get(g.target.id)
                        self.env[g.target.id] = x
                        vals.append(self.truthy(self.ev(e.args[0].elt)))
                        self.env[g.target.id] = saved
                    return all(vals) if f.id == "all" else any(vals)
            if isinstance(f, ast.Attribute) and f.attr == "box" and not e.args:
                v = self.ev(f.value)
                if isinstance(v, (Shape, Jordan)):
                    return BoxV(v.role)
            if isinstance(f, ast.Attribute) and f.attr == "contains_jordan":
                sh, j = self.ev(f.value), self.ev(e.args[0])
                if isinstance(sh, Shape) and isinstance(j, Jordan):
                    return curve_in_region(self.row["case"], j.role, sh.role, self.sign(sh))
            if isinstance(f, ast.Attribute) and f.attr in ("contains_shape", "_contains_shape"):
                sh, x = self.ev(f.value), self.ev(e.args[0])
                if isinstance(sh, Shape) and isinstance(x, Shape):
                    return self.shape_in_shape(x, sh)
            if isinstance(f, ast.Attribute) and f.attr in ("__invert__", "__neg__") and not e.args:
                v = self.ev(f.value)
                if isinstance(v, Shape):
                    return Shape(v.role, -v.flip)
            raise Undecided("call " + U(e)[:40])
        raise Undecided(U(e)[:40])


def simple_decider(ctx):
    """the pairwise decision function of two simple shapes: by name, or -- when the helper was renamed -- the unique
    SimpleShape method that SimpleShape._contains_shape calls under `isinstance(other, SimpleShape)`"""
    q = "shape.SimpleShape.__contains_simple"
    if q in ctx.model.funcs:
        return ctx.fn(q)
    host = ctx.fn("shape.SimpleShape._contains_shape")
    inf = ctx.inf(host.qname)
    found = []
    for st in ast.walk(host.node):
        if isinstance(st, ast.If) and isinstance(st.test, ast.Call) and pat.is_name(st.test.func, "isinstance") \
                and len(st.test.args) == 2 and pat.is_name(st.test.args[1], "SimpleShape"):
            for r in st.body:
                if isinstance(r, ast.Return) and isinstance(r.value, ast.Call):
                    found += [t for t in inf.targets(r.value, ("call",)) if t.cls == "SimpleShape"]
    if len({t.qname for t in found}) != 1:
        raise AnalysisError(f"anchor function {q} not found in {ctx.model.src} (and no unique callee under "
                            f"isinstance(other, SimpleShape) in {host.qname})")
    return found[0]


def r03_1(ctx):
    out = Outcome("R03.1", "SimpleShape.__contains_simple agrees with the geometric truth table of two simple closed "
                           "curves on every configuration x orientation pair x consultable fact", floor=40)
    out.exhaustive = True
    fn = simple_decider(ctx)
    global _CTX
    _CTX = ctx
    wrong = {}
    n = 0
    pending = list(rows())
    while pending:
        row = pending.pop(0)
        n += 1
        want = truth(row["case"], row["sA"], row["sB"])
        tag = f"{CASE_NAME[row['case']]}, A {'bounded' if row['sA'] > 0 else 'unbounded'}, " \
              f"B {'bounded' if row['sB'] > 0 else 'unbounded'}"
        try:
            got = Interp(fn, row).run()
        except NeedLength:
            # the lengths of the two boundaries are in no relation to the areas (a comb in a square has the longer
            # boundary); the same curve has the same length
            orders = [(2, 2)] if row["case"] == 4 else [(1, 4), (4, 1), (2, 2)]
            pending[:0] = [dict(row, lA=a, lB=b) for a, b in orders]
            n -= 1
            continue
        except Recursion:
            got = "unbounded recursion"
        except Undecided as ex:
            out.undecided(fn.qname, f"row not interpretable ({tag}): {ex}", where=fn.where())
            continue
        if "lA" in row:
            tag += f"; lengths {row['lA']},{row['lB']}"
        if got != want:
            wrong.setdefault((row["case"], row["sA"], row["sB"], got), []).append(row)
        else:
            out.ok(fn.qname, f"{tag}; |A|,|B|={row['mA']},{row['mB']}; boxes overlap={row['overlap']} -> {want}",
                   where=fn.where())
    for (case, sA, sB, got), rws in sorted(wrong.items()):
        kind = "both unbounded" if sA < 0 and sB < 0 else "both bounded" if sA > 0 and sB > 0 else \
            ("A bounded, B unbounded" if sA > 0 else "A unbounded, B bounded")
        out.bad(fn.qname, f"{kind}, {CASE_NAME[case]}: returns {got}", where=fn.where(),
                detail=f"the subset relation is {not got} there ({len(rws)} table rows, e.g. areas "
                       f"|A|={rws[0]['mA']} |B|={rws[0]['mB']}, boxes overlap={rws[0]['overlap']}"
                       + (f", boundary lengths {rws[0]['lA']} and {rws[0]['lB']}" if "lA" in rws[0] else "") + ")")
    return out


# ---------------------------------------------------------------------------
def shape_term(fn, e, defs, loopvar, depth=0):
    """(base name, complemented?) of a shape expression built from self / other / the loop variable"""
    if depth > 5:
        return None
    if isinstance(e, ast.Name):
        if e.id in (fn.params[0], fn.params[1] if len(fn.params) > 1 else None, loopvar):
            return (e.id, False)
        vals = [v for v in defs.get(e.id, []) if not isinstance(v, tuple)]
        if len(vals) == 1:
            return shape_term(fn, vals[0], defs, loopvar, depth + 1)
        return None
    if isinstance(e, ast.UnaryOp) and isinstance(e.op, (ast.Invert, ast.USub)):
        t = shape_term(fn, e.operand, defs, loopvar, depth + 1)
        return None if t is None else (t[0], not t[1])
    if isinstance(e, ast.Call) and isinstance(e.func, ast.Attribute) and e.func.attr in ("__invert__", "__neg__"):
        t = shape_term(fn, e.func.value, defs, loopvar, depth + 1)
        return None if t is None else (t[0], not t[1])
    if isinstance(e, ast.Call) and isinstance(e.func, ast.Name) and e.func.id == "copy" and len(e.args) == 1:
        return shape_term(fn, e.args[0], defs, loopvar, depth + 1)
    return None


def claim_of(fn, pred, defs, loopvar):
    """subset claim X <= Y made by a predicate -> (X term, Y term) or None"""
    if isinstance(pred, ast.Compare) and len(pred.ops) == 1 and isinstance(pred.ops[0], ast.In):
        return shape_term(fn, pred.left, defs, loopvar), shape_term(fn, pred.comparators[0], defs, loopvar)
    if isinstance(pred, ast.Call) and isinstance(pred.func, ast.Attribute) and pred.func.attr in (
            "contains_shape", "_contains_shape", "__contains__") and len(pred.args) == 1:
        return shape_term(fn, pred.args[0], defs, loopvar), shape_term(fn, pred.func.value, defs, loopvar)
    return None


def violating(claim, elem, fixed):
    """assignments (p in elem, p in fixed) that contradict the claim X <= Y"""
    (xb, xc), (yb, yc) = claim
    out = set()
    for pe, pf in itertools.product((0, 1), repeat=2):
        val = {elem: pe, fixed: pf}
        if xb not in val or yb not in val:
            return None
        x = val[xb] ^ xc
        y = val[yb] ^ yc
        if x and not y:
            out.add((pe, pf))
    return out


def guard_classes(fn, node, parents, who):
    """classes tested by the nearest enclosing `if isinstance(<who>, ...)` whose body contains node"""
    p = parents.get(id(node))
    child = node
    while p is not None:
        if isinstance(p, ast.If) and child in p.body:
            t = p.test
            if isinstance(t, ast.Call) and isinstance(t.func, ast.Name) and t.func.id == "isinstance" \
                    and pat.is_name(t.args[0], who):
                c = t.args[1]
                return tuple(sorted([c.id] if isinstance(c, ast.Name) else [x.id for x in c.elts]))
        child, p = p, parents.get(id(p))
    return None


# (function, guard classes on `other` or None) -> (quantifier, collection owner, required claim direction)
#   claim 'elem<=fixed': the iterated sub-object is claimed to be inside the other operand; 'fixed<=elem' the converse
COMPOSITION = [
    ("shape.ConnectedShape._contains_shape", None, "forall", "self", "fixed<=elem",
     "other inside an intersection  <=>  other inside every conjunct"),
    ("shape.DisjointShape._contains_shape", ("ConnectedShape", "SimpleShape"), "exists", "self", "fixed<=elem",
     "a connected shape inside a union of disjoint components  <=>  inside one component"),
    ("shape.DisjointShape._contains_shape", ("DisjointShape",), "forall", "other", "elem<=fixed",
     "a union inside self  <=>  every component inside self"),
    ("shape.SimpleShape._contains_shape", ("ConnectedShape",), "exists", "other", "elem<=fixed",
     "an intersection of simple regions inside a simple region  <=>  one conjunct inside it"),
    ("shape.SimpleShape._contains_shape", None, "forall", "other", "elem<=fixed",
     "a union inside self  <=>  every component inside self"),
]


def r03_2(ctx):
    out = Outcome("R03.2", "composition of containment over subshapes: quantifier kind, collection and direction of the "
                           "nested subset claim (complements normalised)", floor=5)
    for qname, guard, kind, owner, direction, why in COMPOSITION:
        fn = ctx.fn(qname)
        parents = pat.parents_of(fn.node)
        defs = pat.local_defs(fn)
        selfn, othn = fn.params[0], fn.params[1]
        cands = []
        for q in pat.quantifiers(fn):
            g = guard_classes(fn, q.node, parents, othn)
            if g is not None and guard is not None and set(g) != set(guard):
                continue
            if g is None and guard is not None:
                # a trailing unguarded loop serves the remaining kind only when the spec row is the unguarded one
                continue
            if g is not None and guard is None:
                continue
            cands.append(q)
        label = f"{qname} [{'/'.join(guard) if guard else 'remaining kinds'}]"
        if len(cands) != 1:
            if not cands:
                anyloop = [lp for lp in pat.loops(fn) if isinstance(lp.iter, ast.Attribute) and lp.iter.attr == "subshapes"
                           and guard_classes(fn, lp.node, parents, othn) == (tuple(sorted(guard)) if guard else None)]
                del anyloop
            # no (single) recognised quantifier spelling for this kind: the fact is decided by the abstract run R03.2b
            out.ok(qname, f"[{guard or 'remaining kinds'}] no single syntactic quantifier; decided by the exhaustive "
                          f"abstract run (R03.2b)", where=fn.where(), nontrivial=False)
            continue
        q = cands[0]
        own_name = selfn if owner == "self" else othn
        fixed = othn if owner == "self" else selfn
        if not (isinstance(q.iter, ast.Attribute) and q.iter.attr == "subshapes" and pat.is_name(q.iter.value, own_name)):
            out.bad(qname, f"[{guard or 'remaining kinds'}] quantifies over `{U(q.iter)}`, required {own_name}.subshapes",
                    where=fn.where(q.node))
            continue
        var = q.var.id if isinstance(q.var, ast.Name) else None
        claim = claim_of(fn, q.pred, defs, var)
        if claim is None or claim[0] is None or claim[1] is None:
            out.undecided(qname, f"nested predicate `{U(q.pred)[:50]}` is not a recognised subset claim", where=fn.where(q.node))
            continue
        viol = violating(claim, var, fixed)
        if viol is None:
            out.bad(qname, f"[{guard or 'remaining kinds'}] the nested claim `{U(q.pred)[:40]}` does not relate the "
                           f"sub-object to the other operand", where=fn.where(q.node))
            continue
        if q.negated:
            out.bad(qname, f"[{guard or 'remaining kinds'}] quantifies the negation of the subset claim", where=fn.where(q.node))
            continue
        want = {(1, 0)} if direction == "elem<=fixed" else {(0, 1)}
        if q.kind != kind:
            out.bad(qname, f"[{guard or 'remaining kinds'}] quantifier is '{q.kind}', required '{kind}'", where=fn.where(q.node),
                    detail=why)
        elif viol != want:
            out.bad(qname, f"[{guard or 'remaining kinds'}] nested subset claim has the wrong direction / a missing "
                           f"complement", where=fn.where(q.node),
                    detail=f"`{U(q.pred)[:50]}` is contradicted by (p in sub-object, p in other operand) = {sorted(viol)}; "
                           f"required claim is contradicted exactly by {sorted(want)}")
        else:
            out.ok(qname, f"[{guard or 'remaining kinds'}] {kind} s in {own_name}.subshapes: `{U(q.pred)[:40]}`",
                   where=fn.where(q.node))
    return out


class Reg(StandIn):
    """stand-in region with tabulated subset facts; every other observable is adversarial"""

    def __init__(self, name, facts, inv=False, kind="SimpleShape", subshapes=(), area=-1.0):
        self.name, self.facts, self.inv, self.kind, self.subshapes = name, facts, inv, kind, tuple(subshapes)
        self.jordans = (Obj("curve_of_" + name),)
        self.area = area

    def __invert__(self):
        return Reg(self.name, self.facts, not self.inv, self.kind, self.subshapes, -self.area)

    def _subset(self, x):
        """is x a subset of self?  facts: {(sub, sup): bool} on the un-complemented names"""
        if not isinstance(x, Reg):
            raise Undecided("containment of a foreign object")
        if x.inv == self.inv:
            key = (x.name, self.name) if not self.inv else (self.name, x.name)      # ~a <= ~b  <=>  b <= a
            if key in self.facts:
                return self.facts[key]
        raise Undecided(f"subset fact ({'~' if x.inv else ''}{x.name} <= {'~' if self.inv else ''}{self.name}) not tabulated")

    def __contains__(self, x):
        return self._subset(x)

    def contains_shape(self, x):
        return self._subset(x)

    _contains_shape = contains_shape

    def box(self):
        from rules.C02 import AdvBox
        return AdvBox()

    def __float__(self):
        return float(self.area)


# areas that any true subset claim `inner <= outer` is compatible with: an unbounded outer region (negative area by
# convention) around a bounded one, a much larger bounded outer region, two unbounded regions.  Regions for which the
# claim is false get the same areas, so that no comparison of areas tells the two apart.
AREA_MODES = (("unbounded container, bounded operand", -5.0, 3.0), ("large bounded container", 100.0, 3.0),
              ("both unbounded", -1.0, -10.0))


def r03_2b(ctx):
    out = Outcome("R03.2b", "composite containment is *exactly* the quantified subset claim: on every truth assignment of "
                            "the nested subset facts the answer is all(...) / any(...), with adversarial boxes and areas",
                  floor=5)
    out.exhaustive = True

    def isinstance_hook(rn, ev, call, name, recv, args, kwargs):
        if name == "isinstance":
            names = isinstance_names(call, args)
            k = getattr(args[0], "kind", None)
            return True if k is None else any(n in ctx.model.mro(k) for n in names)
        return NotImplemented
    specs = [
        ("shape.ConnectedShape._contains_shape", "self", "SimpleShape", all, "other <= sub"),
        ("shape.DisjointShape._contains_shape", "self", "SimpleShape", any, "other <= sub"),
        ("shape.DisjointShape._contains_shape", "self", "ConnectedShape", any, "other <= sub"),
        ("shape.DisjointShape._contains_shape", "other", "DisjointShape", all, "sub <= self"),
        ("shape.SimpleShape._contains_shape", "other", "ConnectedShape", any, "sub <= self"),
        ("shape.SimpleShape._contains_shape", "other", "DisjointShape", all, "sub <= self"),
    ]
    for q, owner, other_kind, agg, claim in specs:
        fn = ctx.fn(q)
        wrong, und = [], None
        for (mode, a_outer, a_inner), answers in itertools.product(AREA_MODES, itertools.product((True, False), repeat=3)):
            facts = {}
            names = [f"s{i}" for i in range(3)]
            fixed = "O" if owner == "self" else "S"
            for n, a in zip(names, answers):
                if claim == "other <= sub":
                    facts[(fixed, n)] = a
                    facts[(n, fixed)] = not a         # the converse claim answers the opposite (adversarial)
                else:
                    facts[(n, fixed)] = a
                    facts[(fixed, n)] = not a
            sub_is_outer = claim == "other <= sub"
            subs = [Reg(n, facts, area=a_outer if sub_is_outer else a_inner) for n in names]
            a_fixed = a_inner if sub_is_outer else a_outer
            if owner == "self":
                S = Reg("S", facts, kind=fn.cls, subshapes=subs, area=sum(x.area for x in subs))
                O = Reg("O", facts, kind=other_kind, area=a_fixed)
            else:
                S = Reg("S", facts, kind=fn.cls, area=a_fixed)
                O = Reg("O", facts, kind=other_kind, subshapes=subs, area=sum(x.area for x in subs))
            try:
                got = Runner(ctx, set(), isinstance_hook).call_fn(fn, [S, O])
            except Undecided as ex:
                und = str(ex)
                break
            if got is not agg(answers):
                wrong.append((answers, got, mode))
        word = "all" if agg is all else "any"
        label = f"[other is a {other_kind}]"
        if und:
            out.undecided(q, f"{label} not interpretable: {und}", where=fn.where())
        elif wrong:
            out.bad(q, f"{label} containment is not {word}({claim} over the subshapes)", where=fn.where(),
                    detail=f"{len(wrong)} of 24 cells wrong, e.g. facts {wrong[0][0]} -> {wrong[0][1]!r} ({wrong[0][2]})")
        else:
            out.ok(q, f"{label} 24 cells (8 fact assignments x 3 area regimes): result == {word}({claim})", where=fn.where())
    # a ConnectedShape asked about another ConnectedShape (an intersection T0 & T1 & T2): O <= S_i is tabulated, and so
    # are the facts T_j <= S_i an implementation may look at instead -- true for one T_j exactly when O <= S_i is true
    # (that T_j being the same member for every S_i, or a different one each time), false for all T_j otherwise
    fn = ctx.fn("shape.ConnectedShape._contains_shape")
    wrong, und = [], None
    for answers, witness in itertools.product(itertools.product((True, False), repeat=3), ("same", "rotating", "last")):
        facts = {}
        for i, a in enumerate(answers):
            facts[("O", f"s{i}")] = a
            facts[(f"s{i}", "O")] = not a
            w = {"same": 1, "rotating": (i + 1) % 3, "last": 2}[witness]
            for j in range(3):
                facts[(f"t{j}", f"s{i}")] = a and j == w
                facts[(f"s{i}", f"t{j}")] = False
        subs = [Reg(f"s{i}", facts, area=-5.0) for i in range(3)]
        tsubs = [Reg(f"t{j}", facts, area=-2.0) for j in range(3)]
        S = Reg("S", facts, kind="ConnectedShape", subshapes=subs, area=-15.0)
        O = Reg("O", facts, kind="ConnectedShape", subshapes=tsubs, area=-6.0)
        try:
            got = Runner(ctx, set(), isinstance_hook).call_fn(fn, [S, O])
        except Undecided as ex:
            und = str(ex)
            break
        if got is not all(answers):
            wrong.append((answers, witness, got))
    label = "[other is a ConnectedShape]"
    if und:
        out.undecided(fn.qname, f"{label} not interpretable: {und}", where=fn.where())
    elif wrong:
        out.bad(fn.qname, f"{label} containment is not all(other <= sub over the subshapes)", where=fn.where(),
                detail=f"{len(wrong)} of 24 cells wrong, e.g. facts {wrong[0][0]} with the {wrong[0][1]} member of the other "
                       f"shape inside each subshape that holds it -> {wrong[0][2]!r}")
    else:
        out.ok(fn.qname, f"{label} 24 cells (8 fact assignments x 3 witness patterns): result == all(other <= sub)", where=fn.where())
    return out


def r03_3(ctx):
    out = Outcome("R03.3", "singleton guards and kind dispatch: Empty is inside everything, Whole inside nothing "
                           "defined; SimpleShape dispatches simple operands to the pairwise decision function", floor=5)
    fn = ctx.fn("shape.DefinedShape.contains_shape")
    for kind, want in (("EmptyShape", True), ("WholeShape", False), ("SimpleShape", "DELEGATE")):
        S, X = Obj("S"), Obj("X")
        called = []

        def hook(rn, ev, call, name, recv, args, kwargs, kind=kind):
            if name == "isinstance":
                names = isinstance_names(call, args)
                mro = ctx.model.mro(kind)
                return any(n in mro for n in names)
            if recv is S and name == "_contains_shape":
                called.append(args)
                return "DELEGATE"
            return NotImplemented
        try:
            got = Runner(ctx, set(), hook).call_fn(fn, [S, X])
        except Undecided as ex:
            out.undecided(fn.qname, str(ex), where=fn.where())
            continue
        ok = (got is want) or (got == want)
        if want == "DELEGATE":
            ok = ok and called == [[X]]
        (out.ok if ok else out.bad)(fn.qname, f"other is {kind} -> {want}" if ok else
                                    f"wrong answer for an {kind} operand: {got!r}", where=fn.where())
    # dispatch of SimpleShape._contains_shape
    fn = ctx.fn("shape.SimpleShape._contains_shape")
    decider = simple_decider(ctx)
    S, X = Obj("S"), Obj("X")
    called = []

    def hook2(rn, ev, call, name, recv, args, kwargs):
        if name == "isinstance":
            names = isinstance_names(call, args)
            return any(n in ctx.model.mro("SimpleShape") for n in names)
        if recv is S and name and name.lstrip("_") == decider.name.lstrip("_"):
            called.append(args)
            return "PAIRWISE"
        return NotImplemented
    try:
        got = Runner(ctx, set(), hook2).call_fn(fn, [S, X])
        ok = got == "PAIRWISE" and called == [[X]]
        (out.ok if ok else out.bad)(fn.qname, "simple operand -> pairwise decision function" if ok else
                                    "simple operand is not decided by __contains_simple(other)", where=fn.where())
    except Undecided as ex:
        out.undecided(fn.qname, str(ex), where=fn.where())
    for cls, other, want in (("EmptyShape", "self", True), ("EmptyShape", "foreign", False), ("WholeShape", "foreign", True)):
        f3 = ctx.fn(f"shape.{cls}.__contains__")
        S = Obj(cls)
        try:
            got = Runner(ctx, set(), None).call_fn(f3, [S, S if other == "self" else Obj("X")])
        except Undecided as ex:
            out.undecided(f3.qname, str(ex), where=f3.where())
            continue
        (out.ok if got is want else out.bad)(f3.qname, f"{other} operand -> {want}" if got is want else
                                             f"{other} operand -> {got!r}, required {want}", where=f3.where())
    return out


class _SegW(StandIn):
    """segment of the queried curve: evaluation returns tokens that remember segment index and parameter"""

    def __init__(self, idx):
        self.idx = idx

    def eval(self, nodes):
        try:
            return tuple(("pt", self.idx, Fr(n)) for n in nodes)
        except TypeError:
            return ("pt", self.idx, Fr(nodes))

    __call__ = eval


class _CurveW(StandIn):
    """the queried curve: three vertices, three segments and a tabulated (unsorted, repeated) crossing list"""
    CROSSINGS = [(0, 5, Fr(3, 4), Fr(0)), (0, 7, Fr(1, 4), Fr(1, 2)), (2, 1, Fr(1, 2), Fr(0)), (0, 2, Fr(1, 2), Fr(1, 3)),
                 (0, 3, Fr(1, 4), Fr(2, 3)),
                 # crossings at the very ends of a segment (a vertex of the curve lying on the boundary)
                 (1, 4, Fr(0), Fr(1, 5)), (1, 6, Fr(1, 2), Fr(1, 7)), (2, 8, Fr(1), Fr(1, 9)),
                 # segment 3 runs from one vertex of the boundary to another one (vertex on vertex at both ends)
                 (3, 9, Fr(0), Fr(1)), (3, 10, Fr(1), Fr(0))]
    NSEG = 4

    def __init__(self):
        self.segments = tuple(_SegW(i) for i in range(self.NSEG))
        self.corners = tuple(("pt", i, Fr(0)) for i in range(self.NSEG))
        # segment 1 is curved: its interior control point is not a point of the curve
        self.vertices = (self.corners[0], self.corners[1], ("ctrl", 1, Fr(-1)), self.corners[2], self.corners[3])

    def points(self, subnpts=None):
        k = int(subnpts or 0)
        return tuple(("pt", i, Fr(j, k + 1)) for i in range(self.NSEG) for j in range(k + 1))

    def intersection(self, other, equal_beziers=True, end_points=True):
        """as JordanCurve.intersection: without `end_points` the records whose two parameters both sit at segment ends
        (a vertex of one curve on a vertex of the other) are left out"""
        recs = list(self.CROSSINGS)
        if not end_points:
            recs = [(a, b, u, v) for a, b, u, v in recs if 0 < u < 1 or 0 < v < 1]
        return tuple(sorted(recs))

    def __and__(self, other):
        return list(self.intersection(other, equal_beziers=False, end_points=False))

    def __rand__(self, other):
        return [(b, a, v, u) for a, b, u, v in self.__and__(other)]


class _OwnW(StandIn):
    """the boundary of the shape: asked for its crossings with the queried curve, it lists the same records from its own
    side (its segment and parameter first)"""

    def intersection(self, other, equal_beziers=True, end_points=True):
        return tuple(sorted((b, a, v, u) for a, b, u, v in other.intersection(self, equal_beziers, end_points)))

    def __and__(self, other):
        return list(self.intersection(other, equal_beziers=False, end_points=False))


class _SelfW(StandIn):
    def __init__(self, outside):
        self.outside, self.asked = outside, []
        self.jordans = (_OwnW(),)

    def contains_point(self, point, boundary="<default>"):
        self.asked.append((point, boundary))
        return not self.outside(point)

    _contains_point = contains_point

    def __contains__(self, point):
        return self.contains_point(point)


VV_FACT = ("a piece of the curve that runs from one vertex of the boundary to another is never sampled (crossings with both "
           "curves at a vertex are filtered out before the in-between points are chosen)")


def contains_jordan_world(ctx, out, parts=("vertices", "mids", "flag")):
    """SimpleShape._contains_jordan on an abstract curve (W): vertices (0..2), crossings of segment 0 at 1/4, 1/2, 3/4 and
    of segment 2 at 1/2.  Decided on the outcome of the run: which points were tested with which flag, and the result"""
    from verifkit.finite import Raised
    fn = ctx.fn("shape.SimpleShape._contains_jordan")
    gaps = [(0, Fr(1, 4), Fr(1, 2)), (0, Fr(1, 2), Fr(3, 4)), (1, Fr(0), Fr(1, 2)), (2, Fr(1, 2), Fr(1)), (3, Fr(0), Fr(1))]
    scen = [("everything inside", lambda p: False, True),
            ("vertex 1 outside", lambda p: p == ("pt", 1, Fr(0)), False),
            ("an off-curve control point of a curved segment lies outside, the curve itself inside",
             lambda p: p[0] == "ctrl", True),
            ("curve leaves between the crossings at 1/2 and 3/4 of segment 0",
             lambda p: p[1] == 0 and Fr(1, 2) < p[2] < Fr(3, 4), False),
            ("curve leaves between the crossings at 1/4 and 1/2 of segment 0",
             lambda p: p[1] == 0 and Fr(1, 4) < p[2] < Fr(1, 2), False),
            ("curve leaves between the crossing at its vertex (parameter 0) and 1/2 of segment 1",
             lambda p: p[1] == 1 and Fr(0) < p[2] < Fr(1, 2), False),
            ("curve leaves between the crossings at 1/2 and its end vertex (parameter 1) of segment 2",
             lambda p: p[1] == 2 and Fr(1, 2) < p[2] < Fr(1), False),
            ("curve leaves between two of its vertices that are vertices of the boundary as well (segment 3)",
             lambda p: p[1] == 3 and Fr(0) < p[2] < Fr(1), False)]
    bad = set()
    for flag in (True, False):
        for label, outside, want in scen:
            S, J = _SelfW(outside), _CurveW()
            try:
                got = Runner(ctx, set(), None).call_fn(fn, [S, J, flag])
            except Undecided as ex:
                out.undecided(fn.qname, f"{label}: {ex}", where=fn.where())
                return
            except Raised as ex:
                out.bad(fn.qname, "the query raises on a curve that crosses the boundary", where=fn.where(),
                        detail=f"{label}: {ex}")
                return
            pts = [p for p, f in S.asked]
            if not S.asked:
                bad.add(("flag", "no point-containment test of the sampled curve points"))
                bad.add(("vertices", "the vertices of the curve are not all tested"))
                continue
            if any(f is not flag for p, f in S.asked):
                bad.add(("flag", "a sampled curve point is tested without forwarding the caller's boundary flag"))
            if label == "everything inside":
                if not all(v in pts for v in J.corners):
                    bad.add(("vertices", "the vertices of the curve are not all tested"))
                missing = [(i, a, b) for i, a, b in gaps if not any(p[1] == i and a < p[2] < b for p in pts)]
                if missing == [(3, Fr(0), Fr(1))]:
                    bad.add(("mids", VV_FACT))
                elif missing:
                    bad.add(("mids", "no test of curve points between consecutive crossings"))
            if bool(got) != want:
                if "vertices of the boundary" in label:
                    bad.add(("mids", VV_FACT))
                elif "between" in label:
                    bad.add(("mids", "no test of curve points between consecutive crossings"))
                elif "off-curve" in label:
                    bad.add(("vertices", "a control point that does not lie on the curve decides the containment of the curve"))
                elif "vertex" in label:
                    bad.add(("vertices", "the vertices of the curve are not all tested"))
                else:
                    bad.add(("vertices", "a curve whose sampled points are all contained is reported as not contained"))
    for part, fact in sorted(bad):
        if part in parts:
            out.bad(fn.qname, fact, where=fn.where())
    if "vertices" in parts and not any(p == "vertices" for p, _ in bad):
        out.ok(fn.qname, "every vertex of the curve must be contained", where=fn.where())
    if "mids" in parts and not any(p == "mids" for p, _ in bad):
        out.ok(fn.qname, "a point between every two consecutive sorted crossing parameters is tested", where=fn.where())
    if "flag" in parts and not any(p == "flag" for p, _ in bad):
        out.ok(fn.qname, "every sampled point is tested with the caller's boundary flag", where=fn.where())


def r03_4(ctx):
    out = Outcome("R03.4", "SimpleShape._contains_jordan returns False as soon as a vertex of the curve is not "
                           "contained (caller's boundary flag), and tests points between consecutive crossings", floor=3)
    contains_jordan_world(ctx, out, ("vertices", "mids", "flag"))
    return out


def r03_5(ctx):
    from rules import C10
    o = C10.r10_1(ctx)
    o.rule = "R03.5"
    o.text = ("the facts the containment decision consults (orientation / area via float(), bounding boxes) are never "
              "served from a stale cache (same analysis as R10.1)")
    return o


def r03_6(ctx):
    from rules import C17
    o = C17.r17_3(ctx)
    o.rule = "R03.6"
    o.text = ("the boxes used as quick rejects enclose what they stand for: the box of a segment / closed curve / shape contains every point of it, interior extrema of curved pieces included (same analysis as R17.3)")
    return o


RULES = [r03_1, r03_2, r03_2b, r03_3, r03_4, r03_5, r03_6]
