"""C08 -- operators and queries leave operands unchanged; results share no state.

Engine O (verifkit/own.py).  Decided for every path and every history, under
the stated aliasing assumptions:
 R08.1 every operator / copy method returns a fresh object (or an immutable
       singleton): its `returns` summary names no parameter.
 R08.2 SimpleShape(jordan) adopts the curve by copy: the constructor captures
       nothing reachable from its argument.
 R08.3 the four __deepcopy__ methods share nothing, with Point2D(x) modelled as
       an alias of x.
 R08.4 from every non-mutating entry point the only writes that can reach
       operand-owned state are (a) below the gate JordanCurve.split
       (representation-only subdivision) and (b) the cache JordanCurve.__lenght.
"""
from verifkit.core import Outcome
from verifkit.cache import cache_fields
from verifkit.own import ownership, fmt

ASSUMPTIONS = [
    "no monkey-patching / user subclassing of the library classes",
    "copy.copy dispatches to __copy__",
    "numpy / pynurbs / matplotlib calls do not mutate their arguments and return objects sharing no Point2D with them",
    "JordanCurve.split only subdivides (region preservation of split is C15's business)",
]

FRESH_NAMES = ["__or__", "__and__", "__sub__", "__xor__", "__add__", "__mul__", "__neg__", "__invert__",
               "__copy__", "__deepcopy__", "__abs__", "__truediv__", "__rmul__", "__radd__", "derivate",
               "box", "points", "intersection", "split"]
# not operator results of the API: Box is a value object; PlanarCurve.__or__ is the internal uniting helper of
# clean() whose result goes through an opaque pynurbs object (conservatively "may contain operand points");
# JordanCurve.split returns None and is the documented in-place subdivision.
FRESH_EXCLUDE = {"curve.PlanarCurve.__or__", "curve.BezierCurve.__or__", "jordancurve.JordanCurve.split",
                 "polygon.Point2D.__or__", "polygon.Point2D.__xor__"}

# Documented in-place operations (the only public callables allowed to write operand state)
MUTATORS = {
    "move", "scale", "rotate", "invert", "clean", "split", "__iadd__", "__isub__", "__imul__", "__itruediv__",
    "__init__", "__new__", "__split_segment", "_JordanCurve__split_segment", "__set_jordancurve",
}
# Constructors / factories are outside the property's scope ("operator, comparison, containment query, integral,
# copy or plot"): they adopt the Point2D objects they are given by design (documented for from_segments: junction
# points are shared), and the two-level abstraction cannot tell a fresh curve holding caller points from a caller
# curve.
CONSTRUCTORS = {"from_segments", "from_vertices", "from_ctrlpoints", "from_full_curve", "polygon",
                "regular_polygon", "triangle", "square", "circle"}
SHAPE_LAYER = ("shape.", "jordancurve.", "plot.", "curve.PlanarCurve", "curve.Integrate", "curve.Intersection",
               "curve.Projection", "polygon.Point2D", "polygon.Box", "primitive.")


def r08_1(ctx):
    O = ownership(ctx)
    out = Outcome("R08.1", "operator / copy results are fresh: the returns-summary names no parameter", floor=45)
    for q, fn in sorted(ctx.model.funcs.items()):
        if fn.name in FRESH_NAMES and fn.cls and fn.cls != "Box" and fn.kind == "method" and q not in FRESH_EXCLUDE:
            sm = O.S[q]
            if sm.ret[0] or sm.ret[1]:
                what = []
                if sm.ret[0]:
                    what.append("may be " + fmt(sm.ret[0]))
                if sm.ret[1]:
                    what.append("may contain state of " + fmt(sm.ret[1]))
                out.bad(q, "result not fresh: " + "; ".join(what), where=fn.where(),
                        detail="p = the parameter object itself, p* = state reachable from it")
            else:
                out.ok(q, "result fresh", where=fn.where(), nontrivial=_has_nonliteral_return(fn))
    return out


def _has_nonliteral_return(fn):
    import ast
    for n in ast.walk(fn.node):
        if isinstance(n, ast.Return) and n.value is not None and not isinstance(n.value, ast.Constant):
            return True
    return False


def r08_2(ctx):
    O = ownership(ctx)
    out = Outcome("R08.2", "SimpleShape(jordan) adopts its curve by copy: the constructor captures nothing of its argument",
                  floor=1)
    fn = ctx.fn("shape.SimpleShape.__init__")
    sm = O.S[fn.qname]
    cap = set()
    for p, ds in sm.cap.items():
        cap |= {d for d in ds}
    if cap:
        out.bad(fn.qname, "constructor captures argument state: " + fmt(cap), where=fn.where())
    else:
        out.ok(fn.qname, "captures nothing", where=fn.where())
    return out


def r08_3(ctx):
    O = ownership(ctx)
    out = Outcome("R08.3", "__deepcopy__ shares nothing with the original (Point2D(x) is an alias of x)", floor=4)
    for q, fn in sorted(ctx.model.funcs.items()):
        if fn.name == "__deepcopy__" and fn.cls not in ("SingletonShape",):
            sm = O.S[q]
            if sm.ret[0] or sm.ret[1]:
                out.bad(q, "deep copy shares state: " + fmt(sm.ret[0] | sm.ret[1]), where=fn.where())
            else:
                out.ok(q, "deep copy fresh", where=fn.where())
    return out


def entry_points(ctx):
    eps = []
    for q, fn in sorted(ctx.model.funcs.items()):
        if not q.startswith(SHAPE_LAYER):
            continue
        if fn.kind == "setter" or fn.name in MUTATORS or fn.name in CONSTRUCTORS:
            continue
        if fn.name.startswith("_") and not (fn.name.startswith("__") and fn.name.endswith("__")):
            continue      # private helpers are judged through the public operations that reach them (a helper of a
            #               mutator may write its argument by design)
        eps.append(fn)
    return eps


def culprit(ctx, path, field):
    """(construct, fact) naming where the offending write enters a non-mutating operation"""
    for i, (q, l, t) in enumerate(path):
        fn = ctx.model.funcs.get(q)
        if fn is not None and (fn.kind == "setter" or fn.name in MUTATORS) and i > 0:
            return path[i - 1][0], f"calls in-place mutator {q} on operand-owned state"
    return path[-1][0], f"writes field {field} of operand-owned state"


def r08_4(ctx):
    O = ownership(ctx)
    out = Outcome("R08.4", "non-mutating entry points write operand state only below JordanCurve.split or into the "
                           "length cache", floor=100)
    found = {}
    CACHE_FIELDS = cache_fields(ctx)     # lazily computed fields; their coherence is R10.1's business
    out.note(f"cache fields (derived from the lazy-fill pattern): {sorted(CACHE_FIELDS)}")
    for fn in entry_points(ctx):
        sm = O.S[fn.qname]
        bad = {}
        for p, effs in sm.mut.items():
            for (f, d, g) in effs:
                if g or f in CACHE_FIELDS or f.startswith("["):
                    continue
                bad.setdefault((p, f), (f, d, g))
        if not bad:
            wrote = sorted({f for effs in sm.mut.values() for (f, d, g) in effs if not f.startswith("[")})
            out.ok(fn.qname, "operand writes within allow-list" + (": " + ",".join(wrote) if wrote else ": none"),
                   where=fn.where(), nontrivial=bool(wrote))
            continue
        for (p, f), key in sorted(bad.items()):
            path = O.explain(fn.qname, p, key)
            k = culprit(ctx, path, f)
            rec = found.setdefault(k, {"entries": [], "path": path, "fields": set()})
            rec["fields"].add(f)
            if fn.qname not in rec["entries"]:
                rec["entries"].append(fn.qname)
            if len(path) < len(rec["path"]):
                rec["path"] = path
    for (construct, fact), rec in sorted(found.items()):
        fn = ctx.model.funcs.get(construct)
        out.bad(construct, fact, where=fn.where() if fn else "",
                detail=f"fields {sorted(rec['fields'])}; reached from {len(rec['entries'])} non-mutating entry "
                       f"point(s), e.g. {rec['entries'][:4]}",
                path=O.fmt_path(rec["path"]))
    return out


RULES = [r08_1, r08_2, r08_3, r08_4]
