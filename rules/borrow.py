"""Rules borrowed across properties.

A property's observable behaviour goes through shared machinery (splitting, intersection, point classification,
containment, path following, grouping, the closed-chain constructors, boxes, integrals).  A change in that machinery
breaks every property that depends on it, so the check of such a property also runs the rule that decides the
machinery's clause, whichever property's module hosts it.  The table is explicit (one line per dependency, derived from
the call-graph closure of the property's observables and confirmed by reading); a borrowed outcome is labelled
`R<prop>/<original rule id>` in the report and the evidence.  Rules a module already re-exports under its own number
(R01.9 = R10.1 ...) are not repeated here.
"""
SPLIT = [("C15", "r15_1"), ("C15", "r15_4"), ("C15", "r15_5")]
CLEAN = [("C15", "r15_2"), ("C15", "r15_3")]
# (the segment == behind the "identical segments" marker of PlanarCurve.__and__ is R07.11)
INTER = [("C07", "r07_11"), ("C14", "r14_1"), ("C14", "r14_2"), ("C14", "r14_3"), ("C14", "r14_4"), ("C14", "r14_5"), ("C14", "r14_7"),
         ("C14", "r14_9"), ("C14", "r14_10"), ("C14", "r14_11")]
POINT = [("C02", "r02_1"), ("C02", "r02_2"), ("C18", "r18_9"), ("C18", "r18_5"), ("C18", "r18_6"), ("C18", "r18_11"),
         ("C12", "r12_2"), ("C13", "r13_4"), ("C17", "r17_8"), ("C17", "r17_9"), ("C18", "r18_13"), ("C18", "r18_14")]
ALGEBRA = [("C13", "r13_4"), ("C17", "r17_8")]           # the arithmetic of points and boxes everything rests on
COMPOSITE = [("C02", "r02_3b"), ("C03", "r03_2b")]
CONTAIN = [("C03", "r03_1"), ("C03", "r03_3"), ("C03", "r03_4")]
PATH = [("C01", "r01_2"), ("C01", "r01_3"), ("C01", "r01_7"), ("C01", "r01_8")]
GROUP = [("C06", "r06_4")]
CHAIN = [("C06", "r06_3")]
BOX = [("C17", "r17_3")]
SIGN = [("C17", "r17_4")]
FLOATS = [("C04", "r04_5")]
VERTICES = [("C09", "r09_2")]

BORROW = {
    # operators: crossings -> split -> classify pieces (point membership) -> follow paths -> group; containment short-cuts
    "C01": [("C15", "r15_1"), ("C15", "r15_5")] + INTER + POINT + COMPOSITE + CONTAIN + SIGN + CHAIN,
    # point membership: orientation sign, on-curve test, angle wrap
    "C02": [("C04", "r04_7"), ("C18", "r18_5"), ("C18", "r18_6"), ("C18", "r18_11"), ("C12", "r12_2"), ("C17", "r17_9"), ("C18", "r18_13"),
            ("C18", "r18_14"), ("C06", "r06_4")] + SIGN + ALGEBRA,          # R06.4: the shapes asked are grouped by ShapeFromJordans
    # containment samples points of the candidate and uses its crossings with the boundary and the areas
    "C03": [("C02", "r02_1"), ("C02", "r02_2"), ("C02", "r02_3b"), ("C18", "r18_9"), ("C18", "r18_5")] + INTER[:6] + SIGN + FLOATS,
    # measures of operator results: the whole operator pipeline
    "C05": [("C01", "r01_13")] + SPLIT + INTER + POINT + COMPOSITE + CONTAIN + [("C01", "r01_2"), ("C01", "r01_7"), ("C01", "r01_8")] + GROUP + CHAIN + BOX + SIGN,
    # well-formed results: the whole operator pipeline
    "C06": [("C01", "r01_13"), ("C15", "r15_4"), ("C15", "r15_5")] + INTER + POINT + CONTAIN + [("C01", "r01_7"), ("C01", "r01_8")] + BOX + SIGN,
    # == of curves: point-on-curve filter, boxes
    "C07": [("C18", "r18_5"), ("C18", "r18_11"), ("C17", "r17_9"), ("C18", "r18_13"), ("C18", "r18_14")] + BOX + ALGEBRA,
    # operands unchanged: the one in-place write the operators make on an operand is JordanCurve.split, allowed because
    # it only subdivides -- which is what these rules decide
    "C08": [("C01", "r01_13")] + SPLIT + [("C15", "r15_2"), ("C18", "r18_10")],
    # history independence: operands are split (and their pieces cleaned) in place by the operators
    # ... and == must not see the subdivision they leave behind (R07.8: curves with redundant vertices)
    # ... nor may an area depend on how a boundary was subdivided (exact quadrature: R04.4)
    # ... after a first operator the crossings of the same operands sit at vertices: the containment shortcut and the
    # line solver must treat a crossing at a segment end like any other
    "C10": [("C01", "r01_13"), ("C15", "r15_1"), ("C15", "r15_5"), ("C07", "r07_8"), ("C04", "r04_4"), ("C03", "r03_4"),
            ("C14", "r14_3"), ("C14", "r14_2")] + CLEAN + CHAIN,
    "C14": [("C07", "r07_11"), ("C18", "r18_13")] + ALGEBRA,
    # the complement of a shape integrates the reversed boundary: reversal must be exact for every degree
    # ... and the exact rational moments need exact quadrature points (no intermediate point rounded to the cap)
    # ... of the segments as they are stored: every constructor degree-reduces them (exactly as far as the error allows)
    "C04": ALGEBRA + CLEAN + [("C18", "r18_13"), ("C05", "r05_2"), ("C13", "r13_3"), ("C18", "r18_7")],   # ... on exact rational nodes
    "C09": ALGEBRA,
    # the containment of two simple shapes answers through an axis-aligned shortcut (disjoint boxes) or through the
    # general branch, depending on how the drawing is turned: the two must agree (rows with / without box overlap)
    # ... and T(A) is computed by the library's own move / rotate / scale
    # ... and an area that is exact is the same however the drawing is turned (node budget of the quadrature)
    # a memo table shared by every curve is state too: a value stored before it is complete (or changed after it was
    # stored) survives an interruption for the rest of the process (R10.2: memoised values are never mutated)
    "C11": [("C10", "r10_2")],
    # ... and a rotated / scaled drawing has crossings whose coordinates agree on the two curves up to rounding only
    "C12": ALGEBRA + [("C01", "r01_7"), ("C04", "r04_3"), ("C16", "r16_4"), ("C03", "r03_1"), ("C09", "r09_1"), ("C09", "r09_2"), ("C09", "r09_3"), ("C09", "r09_4"), ("C04", "r04_4")],
    # every constructor ends in the segments setter, which degree-reduces each segment (BezierCurve.clean)
    "C17": [("C13", "r13_4"), ("C18", "r18_13"), ("C15", "r15_2"), ("C15", "r15_3"), ("C07", "r07_12"), ("C07", "r07_8"), ("C07", "r07_11")],   # == of two descriptions unites pieces
    # ... evaluated exactly for rational data: no intermediate point of the Horner scheme is rounded to the cap
    "C18": ALGEBRA + [("C13", "r13_3")],
    # exact crossing parameters come from the exact line solver; they become exact vertices only if the split addresses
    # the segment they were computed on and cuts it at them
    # ... and the exact moments are the Green sums of R04.1 / R04.2
    "C13": [("C14", "r14_3"), ("C14", "r14_5"), ("C15", "r15_4"), ("C15", "r15_5"), ("C18", "r18_10"), ("C04", "r04_1"),
            ("C04", "r04_2"), ("C09", "r09_1"), ("C09", "r09_2"), ("C09", "r09_3"), ("C18", "r18_7")],      # ... exact transformed coordinates
    # factories build their curve through from_vertices / the segments setter
    # the pieces of a split are cut by the segment-level splitters
    "C15": [("C18", "r18_10")],
    # ... and are observed through `p in shape`; for the circle that is the winding number of quadratic arcs
    "C16": CHAIN + SIGN + VERTICES + BOX + [("C02", "r02_1"), ("C02", "r02_2"), ("C18", "r18_8"), ("C18", "r18_9")],
    # directly constructed composites answer containment like the operator-built ones
    "C19": [("C03", "r03_2"), ("C03", "r03_2b"), ("C03", "r03_3"), ("C04", "r04_1")],      # ... and has the moments of its members
    # fills and outlines are decided by the orientation sign
    "C20": SIGN,
}
