"""C07 -- `==` is region equality and always returns a bool (structural clauses).

 R07.1 no failure escapes to `==` for well-formed operands (engine E): every
       `raise` / `assert` / unguarded division reachable from an `__eq__`
       without an enclosing handler is an argument-contract check that holds
       by construction (type checks, ranges of library-computed integers,
       junction checks of closed chains, divisions by a segment count) or is
       listed in the reasoned allow table below.  A data-dependent failure
       (e.g. comparing the degrees of two segments) is a violation.
 R07.2 shape equality consults the constituents: abstract runs of the three
       shape `__eq__` on stand-in operands -- the result equals multiset
       equality of the subshapes / equality of the curve, independent of the
       order of components; R07.3 a different kind compares unequal and the
       result is a bool.
 R07.4 no exact float equality between measures on the `==` path.
 R07.5 Point2D / PlanarCurve equality compare values only (int / Fraction /
       float independence).
 R07.6 cyclic indexing uses the length of the indexed sequence.
 R07.7 uniting redundant pieces uses the junction tangents (= R15.3).
Not decided: reflexivity / symmetry / transitivity as such; the point-sampling
plus clean() comparison inside JordanCurve.__eq__.
"""
import ast
import itertools

from verifkit import modidx, pat
from verifkit.absrun import isinstance_names, Obj, Runner, StandIn
from verifkit.core import Outcome
from verifkit.known_names import is_new_helper
from verifkit.escape import escape
from verifkit.finite import Undecided, Raised

ASSUMPTIONS = [
    "operands of == are two shapes or two closed curves that were built through the public constructors (closed "
    "chains, >= 1 segment, integer library-computed sizes)",
    "asserts are enabled",
]
U = ast.unparse

# failures that may reach `==` and cannot fire for well-formed operands: (function, category) -> reason
ALLOW = {
    ("polygon.Point2D.__abs__", "data-division"): "denominator is the square root of a Fraction's denominator (>= 1)",
    ("curve.Math.comb", "data-division"): "divides by the loop index j >= 2",
    ("polygon.Point2D.__init__", "input-validation"): "re-raises for a malformed point; the operands' points are valid",
}
OK_CATEGORIES = {"type-check", "arg-range", "junction-check", "count-division"}


def _allow_key(ctx, q, cat, depth=0):
    """the allow entry that covers a failure site: the named function itself, or a private helper of the same class all
    of whose callers are covered (the same statement moved into `_unpack_coordinates` is the same statement)"""
    if (q, cat) in ALLOW:
        return (q, cat)
    fn = ctx.model.funcs.get(q)
    if fn is None or depth > 2 or not (fn.name.startswith("_") and not fn.name.endswith("__")):
        return None
    callers = [c for c in ctx.model.funcs if q in ctx.graph.callees(c) and c != q]
    keys = {_allow_key(ctx, c, cat, depth + 1) for c in callers}
    if callers and len(keys) == 1 and None not in keys and all(ctx.model.funcs[c].cls == fn.cls for c in callers):
        return next(iter(keys))
    return None


def _leaves(test):
    if isinstance(test, ast.BoolOp):
        out = []
        for v in test.values:
            out += _leaves(v)
        return out
    if isinstance(test, ast.UnaryOp) and isinstance(test.op, ast.Not):
        return _leaves(test.operand)
    return [test]


def _is_typecheck(e):
    # all(isinstance(x, T) for x in xs) / any(...) over a type test of the elements
    if isinstance(e, ast.Call) and isinstance(e.func, ast.Name) and e.func.id in ("all", "any") and len(e.args) == 1 \
            and isinstance(e.args[0], (ast.GeneratorExp, ast.ListComp)):
        return all(_is_typecheck(l) for l in _leaves(e.args[0].elt))
    if isinstance(e, ast.Call) and isinstance(e.func, ast.Name) and e.func.id in ("all", "any") and len(e.args) == 1 \
            and isinstance(e.args[0], ast.Call) and isinstance(e.args[0].func, ast.Name) and e.args[0].func.id == "map" \
            and e.args[0].args and isinstance(e.args[0].args[0], ast.Lambda):
        return all(_is_typecheck(l) for l in _leaves(e.args[0].args[0].body))
    if isinstance(e, ast.Call) and isinstance(e.func, ast.Name) and e.func.id in ("isinstance", "callable", "issubclass"):
        return True
    if isinstance(e, ast.Compare) and len(e.ops) == 1 and isinstance(e.ops[0], (ast.Is, ast.IsNot)) \
            and isinstance(e.comparators[0], ast.Constant) and e.comparators[0].value is None:
        return True
    return False


def _degree_receivers(test):
    recv = set()
    for n in ast.walk(test):
        if isinstance(n, ast.Compare):
            for side in [n.left] + n.comparators:
                for a in ast.walk(side):
                    if isinstance(a, ast.Attribute) and a.attr in ("degree", "npts"):
                        recv.add(U(a.value))
                    if isinstance(a, ast.Call) and isinstance(a.func, ast.Name) and a.func.id == "len" and a.args \
                            and isinstance(a.args[0], ast.Attribute) and a.args[0].attr == "ctrlpoints":
                        recv.add(U(a.args[0].value))
    return recv


def _is_ctrlpoints_seq(e, defs, depth=0):
    """X.ctrlpoints, or a local name bound only to such (possibly through tuple()/list())"""
    if isinstance(e, ast.Attribute) and e.attr == "ctrlpoints":
        return True
    if isinstance(e, ast.Call) and isinstance(e.func, ast.Name) and e.func.id in ("tuple", "list") and len(e.args) == 1:
        return _is_ctrlpoints_seq(e.args[0], defs, depth)
    if isinstance(e, ast.Name) and depth < 2:
        vals = [v for v in defs.get(e.id, []) if not isinstance(v, tuple)]
        return bool(vals) and len(vals) == len(defs.get(e.id, [])) and all(_is_ctrlpoints_seq(v, defs, depth + 1) for v in vals)
    return False


def _is_ctrlpoint(e, defs, depth=0):
    if isinstance(e, ast.Subscript) and not isinstance(e.slice, ast.Slice) and _is_ctrlpoints_seq(e.value, defs):
        return True
    if isinstance(e, ast.Call) and isinstance(e.func, ast.Name) and e.func.id == "id" and e.args:
        return _is_ctrlpoint(e.args[0], defs, depth)
    if isinstance(e, ast.Name) and depth < 2:
        vals = [v for v in defs.get(e.id, []) if not isinstance(v, tuple)]
        return bool(vals) and all(_is_ctrlpoint(v, defs, depth + 1) for v in vals)
    return False


def _outside_family(ctx, fn, conjuncts):
    """does the failure condition of an `__eq__` imply that the other operand is not an object of the family (shape,
    closed curve, segment, point) that `==` is specified for?  conjuncts: [(test, polarity)] holding at the failure."""
    if len(fn.params) < 2:
        return False
    other = fn.params[1]
    if any(isinstance(n, ast.Name) and isinstance(n.ctx, ast.Store) and n.id == other for n in ast.walk(fn.node)):
        return False
    family = set(ctx.model.mro(fn.cls)) if fn.cls else set()      # the class and its ancestors: every in-family operand
    #                                                               of == is an instance of the root of this chain
    # shapes of every kind are comparable with each other; curves, segments and points only with their own class
    root = "BaseShape" if "BaseShape" in family else fn.cls

    def implies(e, pol):
        if isinstance(e, ast.UnaryOp) and isinstance(e.op, ast.Not):
            return implies(e.operand, not pol)
        if isinstance(e, ast.BoolOp):
            conj = isinstance(e.op, ast.And) == pol           # And holding / Or failing: every part known
            return (any if conj else all)(implies(v, pol) for v in e.values)
        if not pol and isinstance(e, ast.Call) and pat.is_name(e.func, "isinstance") and len(e.args) == 2 \
                and pat.is_name(e.args[0], other):
            c = e.args[1]
            names = [c.id] if isinstance(c, ast.Name) else [x.id for x in c.elts if isinstance(x, ast.Name)] \
                if isinstance(c, ast.Tuple) else []
            if isinstance(c, ast.Attribute) and U(c) == f"{fn.params[0]}.__class__":
                return root == fn.cls and not ctx.model.subclasses(fn.cls)
            return root in names
        return False
    return any(implies(t, pol) for t, pol in conjuncts)


def _expand_named_conditions(cond, fn, defs, depth=0):
    """a condition given a name (`valid = isinstance(n, int) and n >= 0; assert valid`) is read through: locals bound
    exactly once (and no parameter) are replaced by the expression they name"""
    import copy
    if cond is None or depth > 3:
        return cond
    params = set(fn.params)

    class Sub(ast.NodeTransformer):
        changed = False

        def visit_Name(self, n):
            if isinstance(n.ctx, ast.Load) and n.id not in params:
                vals = defs.get(n.id, [])
                if len(vals) == 1 and not isinstance(vals[0], tuple) and isinstance(vals[0], (ast.BoolOp, ast.Compare, ast.UnaryOp, ast.Call)):
                    Sub.changed = True
                    return copy.deepcopy(vals[0])
            return n
    new = Sub().visit(copy.deepcopy(cond))
    if Sub.changed:
        return _expand_named_conditions(ast.fix_missing_locations(new), fn, defs, depth + 1)
    return cond


def category(ctx, f):
    fn = ctx.model.funcs[f.q]
    params = set(fn.params)
    defs = pat.local_defs(fn)
    if f.cond is not None and not (isinstance(f.cond, ast.Name) and f.cond.id.startswith("<except")):
        import copy
        f = copy.copy(f)
        f.cond = _expand_named_conditions(f.cond, fn, defs)
        f.path = [(_expand_named_conditions(t, fn, defs), pol) for t, pol in f.path]
    if fn.name == "__eq__" and f.kind in ("assert", "raise") and fn.cls:
        # in the comparison itself a failed test is harmless only when it says "the other operand is not one of us"
        conj = list(f.path) + ([(f.cond, False)] if f.kind == "assert" else [])
        if _outside_family(ctx, fn, conj):
            return "type-check"
        if f.kind == "raise":
            return "raise:" + f.exc
        if all(_is_typecheck(l) for l in _leaves(f.cond)):
            return "data-assert"
    if f.kind == "assert":
        leaves = _leaves(f.cond)
        if len(_degree_receivers(f.cond)) >= 2:
            return "degree-compare"
        if all(_is_typecheck(l) for l in leaves):
            return "type-check"

        def argish(e):
            for n in ast.walk(e):
                if isinstance(n, ast.Name) and n.id not in params and n.id not in ("len", "isinstance", "int", "float"):
                    return False
                if isinstance(n, ast.Attribute) and not (isinstance(n.value, ast.Name) and n.value.id in params
                                                         and n.attr in ("segments",)):
                    return False
            return True
        if all(_is_typecheck(l) or (isinstance(l, ast.Compare) and argish(l)) for l in leaves):
            return "arg-range"
        if all(isinstance(l, ast.Compare) and len(l.ops) == 1 and isinstance(l.ops[0], (ast.Eq, ast.Is))
               and _is_ctrlpoint(l.left, defs) and _is_ctrlpoint(l.comparators[0], defs) for l in leaves):
            return "junction-check"
        return "data-assert"
    if f.kind == "raise":
        g = f.cond
        if g is None:
            return "raise:" + f.exc
        if isinstance(g, ast.Name) and g.id.startswith("<except"):
            return "input-validation"
        if all(_is_typecheck(l) for l in _leaves(g)):
            return "type-check"
        return "raise:" + f.exc
    if f.kind == "division":
        d = f.cond

        def is_count(e, fn_, defs_, depth=0):
            """len(x), or a local / a parameter of a private helper that only ever receives such"""
            if isinstance(e, ast.Call) and isinstance(e.func, ast.Name) and e.func.id == "len":
                return True
            if isinstance(e, ast.Name) and depth < 3:
                vals = [v for v in defs_.get(e.id, []) if not isinstance(v, tuple)]
                if vals and len(vals) == len(defs_.get(e.id, [])):
                    return all(is_count(v, fn_, defs_, depth + 1) for v in vals)
                if e.id in fn_.params and not vals and fn_.name.startswith("_") and not fn_.name.endswith("__"):
                    idx = fn_.params.index(e.id)
                    sites = []
                    for q2, g in ctx.model.funcs.items():
                        inf2 = ctx.typer.of(g)
                        for c in ast.walk(g.node):
                            if isinstance(c, ast.Call) and any(t.qname == fn_.qname for t in inf2.targets(c, ("call",))):
                                off = 1 if (fn_.kind in ("method", "getter", "setter", "class") and isinstance(c.func, ast.Attribute)) else 0
                                a = c.args[idx - off] if 0 <= idx - off < len(c.args) else next(
                                    (k.value for k in c.keywords if k.arg == e.id), None)
                                sites.append((g, a))
                    return bool(sites) and all(a is not None and is_count(a, g, pat.local_defs(g), depth + 1) for g, a in sites)
            return False
        if is_count(d, fn, defs):
            return "count-division"
        if isinstance(d, ast.Name):
            vals = [v for v in defs.get(d.id, []) if not isinstance(v, tuple)]
            if vals and all(isinstance(v, ast.Call) and isinstance(v.func, ast.Name) and v.func.id == "len" for v in vals):
                return "count-division"
        if isinstance(d, ast.Call) and isinstance(d.func, ast.Name) and d.func.id == "len":
            return "count-division"
        return "data-division"
    return f.kind


def r07_1(ctx):
    out = Outcome("R07.1", "no data-dependent raise / assert / division by a computed quantity can escape to `==` on "
                           "well-formed operands (argument-contract checks and the reasoned allow table excepted)",
                  floor=30)
    E = escape(ctx)
    entries = [q for q, fn in sorted(ctx.model.funcs.items()) if fn.name == "__eq__"]
    if len(entries) < 6:
        out.undecided("__eq__", f"only {len(entries)} __eq__ methods found (6 confirmed by hand)")
    seen = {}
    for e in entries:
        for k, (f, path) in E.escapes(e).items():
            rec = seen.setdefault(k, (f, path, set()))
            rec[2].add(e)
            if len(path) < len(rec[1]):
                seen[k] = (f, path, rec[2])
    for k, (f, path, ents) in sorted(seen.items(), key=lambda kv: (kv[1][0].q, kv[1][0].line)):
        cat = category(ctx, f)
        fn = ctx.model.funcs[f.q]
        cond = U(f.cond)[:60] if f.cond is not None else ""
        if cat in OK_CATEGORIES:
            out.ok(f.q, f"{f.exc} ({cat}) `{cond}` holds by construction", where=fn.where(f.node), nontrivial=True)
        elif _allow_key(ctx, f.q, cat) is not None:
            out.ok(f.q, f"{f.exc} ({cat}) `{cond}`: {ALLOW[_allow_key(ctx, f.q, cat)]}", where=fn.where(f.node))
        else:
            what = {"degree-compare": "degree assertion escapes to ==",
                    "data-division": "division by a computed geometric quantity can raise ZeroDivisionError inside ==",
                    "data-assert": "data-dependent assertion escapes to ==",
                    }.get(cat, f"{f.exc} ({cat}) escapes to ==")
            out.bad(f.q, what, where=fn.where(f.node), detail=f"`{cond}`; reached from {sorted(ents)[:3]}",
                    path=path + [f"l.{f.line} {f.kind}"])
    return out


# ---------------------------------------------------------------------------
class Sub(StandIn):
    """stand-in subshape / curve with a table-driven equality"""

    def __init__(self, name, table, area=1.0):
        self.name, self.table, self._area = name, table, area

    def __eq__(self, o):
        return isinstance(o, Sub) and (self.name[1:] == o.name[1:] if self.table is None
                                       else frozenset((self.name, o.name)) in self.table)

    def __ne__(self, o):
        return not self.__eq__(o)

    def __hash__(self):
        return hash(self.name)

    def __repr__(self):
        return self.name


def eq_hook(kind_of_other, areas):
    def hook(rn, ev, call, name, recv, args, kwargs):
        if name == "isinstance":
            names = isinstance_names(call, args)
            x = args[0]
            k = getattr(x, "kind", None)
            if k is None:
                return True
            return any(n in rn.ctx.model.mro(k) for n in names)
        if name == "float" and args and isinstance(args[0], Obj):
            return areas.get(args[0]._name, 1.0)
        if name == "float" and args and isinstance(args[0], Sub):
            return args[0]._area
        return NotImplemented
    return hook


def r07_2(ctx):
    out = Outcome("R07.2", "shape == : a different kind is unequal; equal kinds compare their constituents as multisets "
                           "(order of components irrelevant), the result is a bool", floor=14)
    out.exhaustive = True
    # composite shapes
    for cls in ("ConnectedShape", "DisjointShape"):
        fn = ctx.fn(f"shape.{cls}.__eq__")
        worlds = {
            "same components, same order": ({frozenset(("s1", "t1")), frozenset(("s2", "t2"))}, 2, 2, True),
            "same components, other order": ({frozenset(("s1", "t2")), frozenset(("s2", "t1"))}, 2, 2, True),
            "one component differs": ({frozenset(("s1", "t1"))}, 2, 2, False),
            "all components differ (equal total area)": (set(), 2, 2, False),
            "different number of components": ({frozenset(("s1", "t1")), frozenset(("s2", "t2"))}, 2, 3, False),
            "one component matches two of the other": ({frozenset(("s1", "t1")), frozenset(("s1", "t2"))}, 2, 2, False),
            "two components match the same one of the other": ({frozenset(("s1", "t1")), frozenset(("s2", "t1"))}, 2, 2, False),
            # with three components a permutation need not be a cyclic rotation
            "three components, two of them swapped": ({frozenset(("s1", "t1")), frozenset(("s2", "t3")), frozenset(("s3", "t2"))},
                                                      3, 3, True),
            "three components, cyclically rotated": ({frozenset(("s1", "t2")), frozenset(("s2", "t3")), frozenset(("s3", "t1"))},
                                                     3, 3, True),
            "three components, one without a partner": ({frozenset(("s1", "t1")), frozenset(("s2", "t3"))}, 3, 3, False),
        }
        for label, (table, ns, nt, want) in worlds.items():
            S = Obj("S", subshapes=tuple(Sub(f"s{i + 1}", table) for i in range(ns)), kind=cls)
            T = Obj("T", subshapes=tuple(Sub(f"t{i + 1}", table) for i in range(nt)), kind=cls)
            try:
                got = Runner(ctx, set(), eq_hook(cls, {"S": 5.0, "T": 5.0})).call_fn(fn, [S, T])
            except Undecided as ex:
                out.undecided(fn.qname, f"{label}: not interpretable: {ex}", where=fn.where())
                continue
            except Raised as ex:
                out.bad(fn.qname, f"{label}: == raises {ex.what}", where=fn.where())
                continue
            if got is not want:
                out.bad(fn.qname, f"wrong answer: {label}", where=fn.where(),
                        detail=f"returns {got!r}, region equality gives {want}")
            else:
                out.ok(fn.qname, f"{label} -> {want}", where=fn.where())
        # equal regions whose component areas differ in the last bit (the same boundary parametrised differently):
        # the components are stored largest area first on both sides; both directions of == must say True
        a_hi, a_lo = 3.0000000000000004, 3.0
        table = {frozenset(("s1", "t1")), frozenset(("s2", "t2"))}
        for label, sa, ta in (("left operand's areas a hair larger", (a_hi, 2.0), (a_lo, 2.0)),
                              ("right operand's areas a hair larger", (a_lo, 2.0), (a_hi, 2.0))):
            S = Obj("S", subshapes=tuple(Sub(f"s{i + 1}", table, sa[i]) for i in range(2)), kind=cls)
            T = Obj("T", subshapes=tuple(Sub(f"t{i + 1}", table, ta[i]) for i in range(2)), kind=cls)
            try:
                got = Runner(ctx, set(), eq_hook(cls, {"S": sum(sa), "T": sum(ta)})).call_fn(fn, [S, T])
                (out.ok if got is True else out.bad)(
                    fn.qname, f"equal components, {label} -> True" if got is True else
                    "wrong answer: equal components whose areas differ in the last bit", where=fn.where(),
                    detail="" if got is True else f"{label}: returns {got!r}")
            except (Undecided, Raised) as ex:
                out.undecided(fn.qname, f"area noise ({label}): {ex}", where=fn.where())
        # kind guard
        for other_kind in ("SimpleShape", "EmptyShape", "DisjointShape" if cls == "ConnectedShape" else "ConnectedShape"):
            S = Obj("S", subshapes=(Sub("s1", None), Sub("s2", None)), kind=cls)
            T = Obj("T", subshapes=(Sub("t1", None), Sub("t2", None)), jordans=(Sub("j1", None),), kind=other_kind)
            try:
                got = Runner(ctx, set(), eq_hook(cls, {"S": 5.0, "T": 5.0})).call_fn(fn, [S, T])
                (out.ok if got is False else out.bad)(fn.qname, f"other is a {other_kind} -> False" if got is False else
                                                      f"a {other_kind} compares {got!r} to a {cls}", where=fn.where())
            except (Undecided, Raised) as ex:
                out.undecided(fn.qname, f"kind guard ({other_kind}): {ex}", where=fn.where())
    fn = ctx.fn("shape.SimpleShape.__eq__")
    for eq in (True, False):
        table = {frozenset(("jS", "jT"))} if eq else set()
        for aS, aT in ((4.0, 4.0), (4.000000000000001, 4.0)):
            S = Obj("S", jordans=(Sub("jS", table),), kind="SimpleShape")
            T = Obj("T", jordans=(Sub("jT", table),), kind="SimpleShape")
            try:
                got = Runner(ctx, set(), eq_hook("SimpleShape", {"S": aS, "T": aT})).call_fn(fn, [S, T])
            except (Undecided, Raised) as ex:
                out.undecided(fn.qname, str(ex), where=fn.where())
                continue
            label = f"curves equal={eq}, float areas {'bit-identical' if aS == aT else 'differ in the last bit'}"
            if got is not eq:
                out.bad(fn.qname, f"wrong answer: {label}", where=fn.where(), detail=f"returns {got!r}")
            else:
                out.ok(fn.qname, f"{label} -> {eq}", where=fn.where())
    S = Obj("S", jordans=(Sub("jS", None),), kind="SimpleShape")
    T = Obj("T", jordans=(Sub("jS", None),), subshapes=(), kind="ConnectedShape")
    try:
        got = Runner(ctx, set(), eq_hook("SimpleShape", {})).call_fn(fn, [S, T])
        (out.ok if got is False else out.bad)(fn.qname, "other is a ConnectedShape -> False" if got is False else
                                              f"a ConnectedShape compares {got!r} to a SimpleShape", where=fn.where())
    except (Undecided, Raised) as ex:
        out.undecided(fn.qname, str(ex), where=fn.where())
    return out


def r07_4(ctx):
    out = Outcome("R07.4", "no exact ==/!= between two float() measures on the path of shape equality", floor=3)
    g = ctx.graph
    entries = [f"shape.{c}.__eq__" for c in ("SimpleShape", "ConnectedShape", "DisjointShape")]
    reach = g.reach([e for e in entries if e in ctx.model.funcs])
    for q in sorted(reach):
        fn = ctx.model.funcs[q]
        if fn.mod not in ("shape",):
            continue
        inf = ctx.typer.of(fn)
        defs = pat.local_defs(fn)

        def is_measure(e, depth=0):
            if isinstance(e, ast.Call) and isinstance(e.func, ast.Name) and e.func.id == "float" and e.args:
                return bool(ctx.typer.classes_of(inf.typeof(e.args[0])))
            if isinstance(e, ast.Name) and depth < 2:
                vals = [v for v in defs.get(e.id, []) if not isinstance(v, tuple)]
                return bool(vals) and all(is_measure(v, depth + 1) for v in vals)
            return False
        found = False
        for n in ast.walk(fn.node):
            if isinstance(n, ast.Compare) and len(n.ops) == 1 and isinstance(n.ops[0], (ast.Eq, ast.NotEq)) \
                    and is_measure(n.left) and is_measure(n.comparators[0]):
                found = True
                out.bad(q, "exact float comparison of measures on the == path", where=fn.where(n), detail=f"`{U(n)[:60]}`")
        if not found and q in entries:
            out.ok(q, "no exact comparison of float measures", where=fn.where())
    return out


def r07_5(ctx):
    out = Outcome("R07.5", "Point2D / PlanarCurve equality compare coordinate values only (no type test on coordinates: "
                           "int, Fraction and float representations of the same number are equal)", floor=2)
    for q in ("polygon.Point2D.__eq__", "curve.PlanarCurve.__eq__"):
        fn = ctx.fn(q)
        bad = []
        for n in ast.walk(fn.node):
            if isinstance(n, ast.Call) and isinstance(n.func, ast.Name) and n.func.id in ("isinstance", "type"):
                a0 = n.args[0] if n.args else None
                if not (isinstance(a0, ast.Name) and a0.id in fn.params):
                    bad.append(U(n)[:50])
            if isinstance(n, ast.Compare) and any(isinstance(o, (ast.Is, ast.IsNot)) for o in n.ops):
                bad.append(U(n)[:50])
        if bad:
            out.bad(q, "equality depends on the numeric type / identity of coordinates", where=fn.where(), detail=str(bad[:2]))
        else:
            out.ok(q, "value comparison only", where=fn.where())
    return out


def r07_6(ctx):
    out = Outcome("R07.6", "cyclic indexing `S[(..) % n]`: n is the length of S (or of a sequence shown to have the same "
                           "length)", floor=2)
    for q, fn in sorted(ctx.model.funcs.items()):
        for (n, seq, m, ok, why) in modidx.analyse(fn, ctx.typer.of(fn)):
            if ok:
                out.ok(q, f"`{seq}[.. % {m}]`", where=fn.where(n))
            elif ok is None:
                out.undecided(q, f"`{seq}[.. % {m}]`: {why}", where=fn.where(n))
            elif _lengths_equal_at_call_sites(ctx, fn, seq, m):
                out.ok(q, f"`{seq}[.. % {m}]`: a private helper, every caller hands it sequences of equal length", where=fn.where(n))
            else:
                out.bad(q, f"cyclic index of `{seq}` taken modulo the length of another sequence", where=fn.where(n),
                        detail=why + ": IndexError (or a wrong element) when the lengths differ")
    return out


def _lengths_equal_at_call_sites(ctx, fn, seq, m):
    """a private helper (cut out of a function that had established the fact) indexes its parameter `seq` modulo the
    length of another parameter: accepted when every call site passes two sequences its caller has shown to be of equal
    length"""
    from verifkit.known_names import KNOWN
    if not fn.name.startswith("_") or (fn.name.startswith("__") and fn.name.endswith("__")) or fn.name in KNOWN:
        return False
    if seq not in fn.params:
        return False
    others = [x for x in modidx.length_of(fn, m) if x in fn.params] if not m.startswith("len(") else \
        [m[4:-1]] if m[4:-1] in fn.params else []
    if not others:
        return False
    other = others[0]
    i, j = fn.params.index(seq), fn.params.index(other)
    sites = 0
    for g in ctx.model.funcs.values():
        inf = ctx.typer.of(g)
        for c in ast.walk(g.node):
            if isinstance(c, ast.Call) and any(t.qname == fn.qname for t in inf.targets(c, ("call",))):
                off = 1 if (fn.kind in ("method", "getter", "setter", "class") and isinstance(c.func, ast.Attribute)) else 0
                if any(isinstance(a, ast.Starred) for a in c.args) or c.keywords:
                    return False
                try:
                    a, b = c.args[i - off], c.args[j - off]
                except IndexError:
                    return False
                if not modidx.equal_lengths(g, U(a), U(b)):
                    return False
                sites += 1
    return sites > 0


class PtE(StandIn):
    def __init__(self, name):
        self.name = name

    def __eq__(self, o):
        return isinstance(o, PtE) and o.name == self.name

    def __ne__(self, o):
        return not self.__eq__(o)

    def __hash__(self):
        return hash(self.name)

    def __repr__(self):
        return self.name


class SgE(StandIn):
    """cleaned segment: equal iff same control point names in the same order"""

    def __init__(self, names):
        self.ctrlpoints = tuple(PtE(n) for n in names)
        self.degree = len(names) - 1
        self.npts = len(names)

    def __eq__(self, o):
        return isinstance(o, SgE) and [p.name for p in o.ctrlpoints] == [p.name for p in self.ctrlpoints]

    def __ne__(self, o):
        return not self.__eq__(o)

    def __hash__(self):
        return hash(tuple(p.name for p in self.ctrlpoints))


class CvE(StandIn):
    def __init__(self, segs, on_other=True, cleaned=None):
        self.segments = tuple(SgE(s) for s in segs)
        self.on_other = on_other
        self._raw, self._cleaned = segs, cleaned

    def __float__(self):
        return 12.0             # the stand-in curves all have the same signed length: it decides nothing

    @property
    def vertices(self):
        out, seen = [], set()
        for s in self.segments:
            for p in s.ctrlpoints:
                if p.name not in seen:
                    seen.add(p.name)
                    out.append(p)
        return tuple(out)

    def points(self, n):
        return tuple(("pt", self.on_other) for _ in range(3))

    def __contains__(self, pt):
        return pt[1]

    def __copy__(self):
        return self if self._cleaned is None else CvE(self._raw, self.on_other, self._cleaned)

    def clean(self):
        if self._cleaned is not None:           # redundant vertices are united away, in place
            self.segments = tuple(SgE(s) for s in self._cleaned)
        return self


def r07_8(ctx):
    out = Outcome("R07.8", "JordanCurve.__eq__ (after its sampling test) compares the cleaned segment sequences up to "
                           "rotation of the start segment, also for mixed degrees", floor=6)
    fn = ctx.fn("jordancurve.JordanCurve.__eq__")
    base = [("A", "B"), ("B", "q", "C"), ("C", "r", "s", "D"), ("D", "A")]          # degrees 1, 2, 3, 1
    worlds = {
        "same curve, same start": (base, base, True, True),
        "same curve, started one segment later": (base, base[1:] + base[:1], True, True),
        "same curve, started after the curved segments": (base, base[3:] + base[:3], True, True),
        "same curve, started two segments later": (base, base[2:] + base[:2], True, True),
        "one segment differs": (base, [("A", "B"), ("B", "x", "C"), ("C", "r", "s", "D"), ("D", "A")], True, False),
        "different number of segments": (base, base[:3] + [("D", "m"), ("m", "A")], True, False),
        "a sample point of other is off self": (base, base, False, False),
        "reversed orientation": (base, [tuple(reversed(s)) for s in reversed(base)], True, False),
    }
    # a single segment that differs (same end points, another interior control point), at every position of the chain
    # and for every start of the other curve: no segment is left out of the comparison
    alt = [("A", "z", "B"), ("B", "x", "C"), ("C", "r", "t", "D"), ("D", "z", "A")]
    for k in range(4):
        changed = base[:k] + [alt[k]] + base[k + 1:]
        for r in range(4):
            worlds[f"segment {k} differs, the other curve started {r} segment(s) later"] = (base, changed[r:] + changed[:r], True, False)
    # the same square with one redundant vertex each, on different edges: as many segments, equal only once cleaned
    sq = [("A", "B"), ("B", "C"), ("C", "D"), ("D", "A")]
    cut_ab = [("A", "M"), ("M", "B"), ("B", "C"), ("C", "D"), ("D", "A")]
    cut_cd = [("A", "B"), ("B", "C"), ("C", "N"), ("N", "D"), ("D", "A")]
    redundant = {
        "same square, redundant vertices on different edges": (cut_ab, sq, cut_cd, sq, True),
        "same square, a redundant vertex on one of them only": (cut_ab, sq, sq, sq, True),
        "different squares with a redundant vertex each": (cut_ab, sq, [("A", "B"), ("B", "X"), ("X", "N"), ("N", "D"), ("D", "A")],
                                                             [("A", "B"), ("B", "X"), ("X", "D"), ("D", "A")], False),
    }
    for label, (a, ca, b, cb, want) in redundant.items():
        S, O = CvE(a, cleaned=ca), CvE(b, cleaned=cb)
        try:
            got = Runner(ctx, set(), lambda rn, ev, c, n, r, a_, k: True if n == "isinstance" else NotImplemented,
                         asserts=True).call_fn(fn, [S, O])
        except Undecided as ex:
            out.undecided(fn.qname, f"{label}: {ex}", where=fn.where())
            continue
        except (Raised, IndexError, ValueError) as ex:
            out.bad(fn.qname, f"== raises: {label}", where=fn.where(), detail=str(getattr(ex, "what", ex)))
            continue
        if got is not want:
            out.bad(fn.qname, f"wrong answer: {label}", where=fn.where(), detail=f"returns {got!r}, required {want}")
        elif [tuple(p.name for p in sg.ctrlpoints) for sg in S.segments] != [tuple(x) for x in a]:
            out.bad(fn.qname, f"== cleans the operand itself, not a copy: {label}", where=fn.where())
        else:
            out.ok(fn.qname, f"{label} -> {want}", where=fn.where())
    for label, (a, b, on, want) in worlds.items():
        S, O = CvE(a), CvE(b, on_other=on)
        try:
            got = Runner(ctx, set(), lambda rn, ev, c, n, r, a_, k: True if n == "isinstance" else NotImplemented,
                         asserts=True).call_fn(fn, [S, O])
        except Undecided as ex:
            out.undecided(fn.qname, f"{label}: {ex}", where=fn.where())
            continue
        except (Raised, IndexError, ValueError) as ex:
            out.bad(fn.qname, f"== raises: {label}", where=fn.where(), detail=str(getattr(ex, "what", ex)))
            continue
        if got is not want:
            out.bad(fn.qname, f"wrong answer: {label}", where=fn.where(), detail=f"returns {got!r}, required {want}")
        else:
            out.ok(fn.qname, f"{label} -> {want}", where=fn.where())
    return out


def r07_7(ctx):
    from rules import C15
    o = C15.r15_3(ctx)
    o.rule = "R07.7"
    return o


def r07_9(ctx):
    from rules import C10
    o = C10.r10_1(ctx)
    o.rule = "R07.9"
    o.text = ("== never reads a box or a signed length cached before one of the operands was transformed in place (same analysis as R10.1)")
    return o


def r07_10(ctx):
    from rules import C15
    o = C15.r15_2(ctx)
    o.rule = "R07.10"
    o.text = ("== compares cleaned copies: clean() unites redundant pieces to a fixpoint (a freshly united segment is tried against its next neighbour again, the wrap-around pair included), so that a curve with several redundant vertices on one segment equals the curve without them (same analysis as R15.2)")
    return o


def r07_11(ctx):
    """abstract run (W) of PlanarCurve.__eq__ on stand-in segments with named control points: equal iff the same
    control points in the same order -- in particular a segment never equals a segment of another degree whose leading
    (or trailing) control points coincide with its own"""
    out = Outcome("R07.11", "two segments are == iff they have the same control points in the same order (segments of "
                            "different degree are never ==, whatever prefix they share)", floor=6)
    fn = ctx.fn("curve.PlanarCurve.__eq__")

    def seg(names):
        return Obj("seg_" + "".join(names), ctrlpoints=tuple(PtE(n) for n in names), degree=len(names) - 1, npts=len(names))
    cases = [("same points", "ABC", "ABC", True), ("one point differs", "ABC", "AXC", False), ("reversed", "ABC", "CBA", False),
             ("line against a cubic that starts with its two points", "AB", "ABCD", False),
             ("cubic against a line made of its first two points", "ABCD", "AB", False),
             ("quadratic against a cubic with the same first three points", "ABC", "ABCD", False),
             ("line against a quadratic that ends with its two points", "BC", "ABC", False), ("lines", "AB", "AB", True),
             ("lines with swapped ends", "AB", "BA", False)]
    for label, a, b, want in cases:
        try:
            got = Runner(ctx, set(), lambda rn, ev, c, n, r, a_, k: True if n == "isinstance" else NotImplemented,
                         asserts=True).call_fn(fn, [seg(a), seg(b)])
        except Undecided as ex:
            out.undecided(fn.qname, f"{label}: {ex}", where=fn.where())
            continue
        except (Raised, IndexError, ValueError) as ex:
            out.bad(fn.qname, f"== of two segments raises: {label}", where=fn.where(), detail=str(getattr(ex, "what", ex)))
            continue
        if bool(got) is not want or not isinstance(got, bool):
            out.bad(fn.qname, f"wrong answer: {label}", where=fn.where(),
                    detail=f"control points {a} == {b} gives {got!r}, required {want}")
        else:
            out.ok(fn.qname, f"{label}: {a} == {b} -> {want}", where=fn.where())
    return out


def r07_12(ctx):
    """S: float() of a curve or of a shape is a sum of floating-point numbers taken in the stored order of the segments
    / curves; two descriptions of the same region give sums that differ in the last bits.  Inside `==` such values may
    be compared within a tolerance, never for exact equality."""
    out = Outcome("R07.12", "inside == no two computed float() values (signed lengths / areas: sums in storage order) are "
                            "compared for exact equality", floor=5)

    def is_float_call(e, defs, depth=0):
        if isinstance(e, ast.Call) and isinstance(e.func, ast.Name) and e.func.id in ("float", "abs") and e.args \
                and not isinstance(e.args[0], ast.Constant):
            return e.func.id == "float" or is_float_call(e.args[0], defs, depth + 1)
        if isinstance(e, ast.Name) and depth < 3:
            vals = defs.get(e.id, [])
            return bool(vals) and all(not isinstance(v, tuple) and is_float_call(v, defs, depth + 1) for v in vals)
        return False
    seen = 0
    for q, fn in sorted(ctx.model.funcs.items()):
        if fn.name not in ("__eq__", "__ne__") or fn.mod not in ("curve", "jordancurve", "shape"):
            continue
        seen += 1
        # the comparison itself and the new helpers a later change cut it into
        hosts, todo = [], [fn]
        while todo:
            h = todo.pop()
            if h in hosts:
                continue
            hosts.append(h)
            for t in ctx.graph.callees(h.qname):
                g = ctx.model.funcs.get(t)
                if g is not None and is_new_helper(g.name) and g not in hosts:
                    todo.append(g)
        bad = []
        for h in hosts:
            defs = pat.local_defs(h)
            for n in ast.walk(h.node):
                if isinstance(n, ast.Compare) and len(n.ops) == 1 and isinstance(n.ops[0], (ast.Eq, ast.NotEq)) \
                        and is_float_call(n.left, defs) and is_float_call(n.comparators[0], defs):
                    bad.append((h, n))
        if bad:
            h, n = bad[0]
            out.bad(q, "two computed float() values are compared for exact equality", where=h.where(n),
                    detail=f"`{U(n)[:70]}`: the same curve stored from another start vertex sums its lengths in another "
                           f"order, and the sums differ in the last bit")
        else:
            out.ok(q, "no exact comparison of computed floats", where=fn.where())
    return out


RULES = [r07_1, r07_2, r07_4, r07_5, r07_6, r07_7, r07_8, r07_9, r07_10, r07_11, r07_12]
