"""C09 -- move / rotate / scale act on the region exactly as the affine map does.

 R09.1 the point maps Point2D.move/scale/rotate as linear forms in the old
       coordinates: identity+vector, diag(xscale, yscale), [[c,-s],[s,c]] with
       c, s the cosine and sine of the same angle; no read-after-write hazard.
 R09.2 JordanCurve.move/scale/rotate call the same-named point method exactly
       once per element of self.vertices with the (validated) arguments and
       return self; `vertices` enumerates every control point of every segment,
       de-duplicated by object identity.
 R09.3 DefinedShape.move/scale/rotate call the same-named curve method on every
       element of self.jordans, forward the arguments, return self; `jordans`
       covers every subshape.
 R09.4 the factor pi/180 is applied to the angle iff `degrees`.
 R09.5 the cached signed length is reset after non-isometries (= R10.1).
Because a Bezier curve is affine-invariant in its control points these clauses
are also sufficient for "T(S) contains T(p) iff S contains p" up to rounding;
that last step is mathematics, not something the checker proves.
"""
import ast
import math

from verifkit import affine, pat, poly
from verifkit.core import Outcome
from verifkit.model import AnalysisError
from verifkit.own import ownership
from rules import C10

ASSUMPTIONS = [
    "a Bezier curve is affine-invariant in its control points (textbook)",
    "np.cos / np.sin are the cosine and sine",
] + C10.ASSUMPTIONS[-1:]

U = ast.unparse
NAMES = ("move", "scale", "rotate")


def r09_1(ctx):
    out = Outcome("R09.1", "Point2D.move/scale/rotate are the affine maps identity+vector, diag(xscale,yscale), "
                           "rotation by the angle; all reads of old coordinates precede the first write", floor=3)
    for name in NAMES:
        fn = ctx.fn(f"polygon.Point2D.{name}")
        ps = fn.params[1:]
        try:
            state, haz = affine.point_map(fn)
        except affine.Undecided as e:
            # not a polynomial the symbolic engine can read off (a conditional, a helper ...): the map is observed on
            # the repository's own point arithmetic instead, on a grid of arguments that includes the special values
            _point_map_by_runs(ctx, out, fn, name, str(e))
            continue
        show = f"x' = {poly.show(state['_x'])}; y' = {poly.show(state['_y'])}"
        if haz:
            out.bad(fn.qname, "coordinate read after it was written (read-after-write hazard)", where=fn.where(),
                    detail=f"{show}; hazards {haz}")
            continue
        (a11, a12, a21, a22), (b1, b2) = affine.matrix(state)
        kind = affine.classify(state)
        one = poly.const(1)
        ok = False
        if name == "move" and len(ps) == 1:
            ok = (kind == "translation" and b1 == poly.atom(f"{ps[0]}[0]") and b2 == poly.atom(f"{ps[0]}[1]"))
            want = f"x' = X + {ps[0]}[0]; y' = Y + {ps[0]}[1]"
        elif name == "scale" and len(ps) == 2:
            ok = (affine.is_linear(state) and a11 == poly.atom(ps[0]) and a22 == poly.atom(ps[1])
                  and not a12 and not a21 and not b1 and not b2)
            want = f"x' = X*{ps[0]}; y' = Y*{ps[1]}"
        elif name == "rotate" and len(ps) == 1:
            ok = (kind == "rotation" and list(a11.keys()) == [(f"cos({ps[0]})",)])
            want = f"x' = X*cos({ps[0]}) - Y*sin({ps[0]}); y' = X*sin({ps[0]}) + Y*cos({ps[0]})"
        else:
            out.undecided(fn.qname, f"unexpected signature {fn.params}", where=fn.where())
            continue
        rets = [n for n in ast.walk(fn.node) if isinstance(n, ast.Return)]
        ret_self = bool(rets) and all(pat.is_name(r.value, fn.params[0]) for r in rets)
        if not ok:
            out.bad(fn.qname, f"point map is not the documented affine map ({kind})", where=fn.where(),
                    detail=f"derived: {show}; required: {want}")
        elif not ret_self:
            out.bad(fn.qname, "does not return the same object", where=fn.where())
        else:
            out.ok(fn.qname, f"{kind}: {show}", where=fn.where())
    return out


def _point_map_by_runs(ctx, out, fn, name, why):
    """abstract runs (W) of Point2D.move / scale / rotate on rules/pointworld.py: the new coordinates are those of the
    documented affine map for every argument of a grid with the values special-cased most easily (0, 1, -1)"""
    from fractions import Fraction as Fr
    from rules.pointworld import World
    from verifkit.finite import Raised, Undecided
    X, Y = Fr(3, 2), Fr(-5)
    vals = [Fr(0), Fr(1), Fr(-1), Fr(2), Fr(1, 3), 1, 1.0, 2.5]
    if name == "move":
        cases = [((a, b), (X + a, Y + b)) for a in vals for b in vals]
    elif name == "scale":
        cases = [((a, b), (X * a, Y * b)) for a in vals for b in vals]
    else:
        cases = [((t,), (X * math.cos(t) - Y * math.sin(t), X * math.sin(t) + Y * math.cos(t))) for t in (0.0, 0.75, -2.0, math.pi / 2, -math.pi / 2, math.pi, -math.pi, 3 * math.pi / 2, 2 * math.pi)]      # ... and every right angle, both ways
    wrong = []
    for args, want in cases:
        W = World(ctx)
        p = W.point(X, Y)
        try:
            call_args = [W.point(*args)] if name == "move" else list(args)
            got = W.call(name, p, *call_args)
        except Undecided as ex:
            out.undecided(fn.qname, f"point map not a recognised linear form ({why}) and not interpretable: {ex}", where=fn.where())
            return
        except (Raised, TypeError, ValueError, AttributeError, ZeroDivisionError) as ex:
            wrong.append((args, f"raises {type(ex).__name__}"))
            continue
        xy = W.xy(p)
        close = all(abs(float(g) - float(w)) <= 1e-12 * max(1.0, abs(float(w))) for g, w in zip(xy, want))
        exact_ok = name == "rotate" or all(isinstance(a, float) for a in args) or tuple(xy) == tuple(want) or \
            any(isinstance(a, float) for a in args)
        if not close or not exact_ok:
            wrong.append((args, f"gives {xy}, required {want}"))
        elif got is not p:
            wrong.append((args, "does not return the same object"))
    if wrong:
        out.bad(fn.qname, f"point map is not the documented affine map (observed on {len(cases)} arguments)", where=fn.where(),
                detail=f"point ({X}, {Y}): {name}{tuple(str(a) for a in wrong[0][0])} {wrong[0][1]} ({len(wrong)} of {len(cases)} wrong)")
    else:
        out.ok(fn.qname, f"affine map observed on {len(cases)} arguments incl. 0, 1, -1 (symbolic form not readable: {why[:40]})",
               where=fn.where())


def _element_calls(ctx, fn, getter_suffix, callee_name):
    """loops over `self.<getter>` whose body calls <var>.<callee_name>(...).
    returns (loops over the collection, [(loop, call)] of matching calls, other coordinate-writing calls)"""
    inf = ctx.typer.of(fn)
    selfn = fn.params[0]
    hits, coll_loops = [], []
    for lp in pat.loops(fn):
        it = lp.iter
        if isinstance(it, ast.Attribute) and pat.is_name(it.value, selfn) and any(
                g.endswith("." + getter_suffix) for g in pat.getter_of(inf, it)):
            coll_loops.append(lp)
            for b in lp.body:
                for c in ast.walk(b):
                    if isinstance(c, ast.Call) and isinstance(c.func, ast.Attribute) and lp.var \
                            and pat.is_name(c.func.value, lp.var) and c.func.attr == callee_name:
                        hits.append((lp, c))
    return coll_loops, hits


class _Elem:
    pass


def _transform_rule(ctx, out, qname, getter, elem_cls_mod, name):
    """abstract run (W) of a transformation method on an object whose parts are recording stand-ins: every part must
    receive exactly one call of the same-named method with the caller's arguments, and the object itself is returned.
    Decided on the recorded calls, so loops, comprehensions and helpers are all accepted."""
    from fractions import Fraction as Fr
    from verifkit.absrun import Obj, Runner, StandIn
    from verifkit.finite import Raised, Undecided
    from rules.C16 import PV, point2d
    fn = ctx.fn(qname)

    class Elem(StandIn):
        def __init__(self, label):
            self.label, self.calls = label, []

        def _rec(self, meth, *a, **k):
            self.calls.append((meth, a, tuple(sorted(k.items()))))
            return self

        def move(self, *a, **k):
            return self._rec("move", *a, **k)

        def scale(self, *a, **k):
            return self._rec("scale", *a, **k)

        def rotate(self, *a, **k):
            return self._rec("rotate", *a, **k)

        def __repr__(self):
            return self.label

    def flat(v):
        if isinstance(v, PV):
            return (v.x, v.y)
        if isinstance(v, (tuple, list)):
            r = ()
            for x in v:
                r += flat(x)
            return r
        return (v,)

    def close(a, b):
        try:
            return abs(float(a) - float(b)) <= 1e-12 * max(1.0, abs(float(b)))
        except (TypeError, ValueError):
            return a == b

    class MutNum(StandIn):
        """numpy 0-d array: a number that is updated in place by `*=` (visible through every alias)"""

        def __init__(self, v):
            self.v, self.ndim, self.shape = float(v), 0, ()

        def __float__(self):
            return self.v

        def __imul__(self, o):
            self.v *= float(o)
            return self

        def __mul__(self, o):
            return self.v * float(o)

        __rmul__ = __mul__

        def __repr__(self):
            return f"array({self.v})"

    jcalls = []

    class TolPV(type(point2d(0, 0))):
        """the validated vector compares as Point2D does: against pairs too, within 1e-9"""

        def __eq__(self, o):
            try:
                ox, oy = o
            except (TypeError, ValueError):
                return False
            return abs(self.x - ox) <= 1e-9 and abs(self.y - oy) <= 1e-9

        def __ne__(self, o):
            return not self.__eq__(o)

        def __bool__(self):
            return True

        __hash__ = None

    def hook(rn, ev, call, cname, recv, args, kwargs):
        if cname == "Point2D":
            v = point2d(*args)
            x, y = v.x, v.y
            if name == "scale" and not (len(args) == 1 and isinstance(args[0], PV)):
                # factors are not coordinates: a pair of them sent through the constructor comes back as the
                # repository's own __init__ stores it (denominators capped), and that is what the parts then receive
                from rules import pointworld
                try:
                    W = pointworld.World(ctx)
                    x, y = W.xy(W.construct(W.runner(), [x, y]))
                except (Undecided, Raised):
                    pass
            return TolPV(x, y)
        if cname == "isinstance":
            return True
        if cname == "float" and args and isinstance(args[0], Obj) and hasattr(args[0], "area"):
            return args[0].area
        if cname in ("invert", "__invert__", "__neg__") and isinstance(recv, Obj) and getattr(recv, "is_curve", False):
            # the orientation of a boundary curve is part of the region it bounds
            recv.__dict__["area"] = -recv.__dict__["area"]
            recv.__dict__["reversed"] = recv.__dict__.get("reversed", 0) + 1
            return recv
        # a boundary curve of the stand-in shape: its transformation is the repository's own JordanCurve method
        if cname in NAMES and isinstance(recv, Obj) and getattr(recv, "is_curve", False):
            jcalls.append((recv, cname))
            jf = ctx.fn(f"jordancurve.JordanCurve.{cname}")
            rn.call_fn(jf, [recv] + list(args), kwargs)
            return recv
        return NotImplemented
    ext = {"np.asarray": lambda x, dtype=None: MutNum(x), "np.array": lambda x, dtype=None: MutNum(x),
           "np.float64": float, "math.radians": math.radians, "np.radians": lambda x: float(x) * math.pi / 180,
           "np.deg2rad": lambda x: float(x) * math.pi / 180}
    if name == "move":
        tiny = (Fr(1, 10**12), Fr(0))
        cases = [((Fr(3), Fr(-4)), {}, lambda a, k: flat(a) == (Fr(3), Fr(-4)) and not k),
                 # a translation below every tolerance of the library is a translation all the same
                 (tiny, {}, lambda a, k: flat(a) == tiny and not k),
                 ((5e-10, -5e-10), {}, lambda a, k: flat(a) == (5e-10, -5e-10) and not k),
                 # the vector as a one-shot iterable (`shape.move(map(float, text.split()))`): read once, for all curves
                 ("one-shot", {}, lambda a, k: flat(a) == (Fr(7), Fr(2)) and not k)]
    elif name == "scale":
        near1 = (1 + Fr(1, 10**12), Fr(1))
        cases = [((Fr(2), Fr(5)), {}, lambda a, k: flat(a) + tuple(v for _, v in k) == (Fr(2), Fr(5))
                  and [n for n, _ in k] in ([], ["yscale"], ["xscale", "yscale"])),
                 (near1, {}, lambda a, k: flat(a) + tuple(v for _, v in k) == near1
                  and [n for n, _ in k] in ([], ["yscale"], ["xscale", "yscale"]))]
    else:
        def rot_ok(angle, degrees):
            def chk(a, k):
                kd = dict(k)
                ang = a[0] if a else kd.get("angle")
                deg = a[1] if len(a) > 1 else kd.get("degrees", False)
                if ang is None:
                    return False
                want = float(angle) * math.pi / 180 if (degrees and not deg) else float(angle)
                if deg:
                    return False            # points rotate by radians only
                return close(ang, want) and (bool(deg) == bool(degrees) or (degrees and not deg))
            return chk
        cases = [((0.75,), {}, rot_ok(0.75, False)), ((0.75, False), {}, rot_ok(0.75, False)), ((1e-12,), {}, rot_ok(1e-12, False)),
                 ((30.0, True), {}, rot_ok(30.0, True)), ((30.0,), {"degrees": True}, rot_ok(30.0, True))]
    for args, kwargs, good in cases:
        def curve(label, area, closing_twin=False):
            """three control points; with `closing_twin` the last segment ends in a control point of its own (equal to
            the first one by value): the constructor accepts such a chain, and `vertices` lists every control point
            object, so this one too"""
            vs = [Elem(f"{label}v{i}") for i in range(3)]
            ends = vs[1:] + [Elem(f"{label}v0'") if closing_twin else vs[0]]
            segs = tuple(Obj(f"{label}s{i}", ctrlpoints=(vs[i], ends[i])) for i in range(3))
            allv = vs + ([ends[-1]] if closing_twin else [])
            return Obj(label, vertices=tuple(allv), segments=segs, area=area, is_curve=True), allv
        del jcalls[:]
        if getter == "vertices":
            S, parts = curve("J", 4.0, closing_twin=True)
            curves = []
        else:
            # a region with two holes: the boundary curves are stand-ins whose own move/scale/rotate is the
            # repository's JordanCurve method, so the decision is taken on what happens to the control points
            made = [curve(f"j{i}", a, closing_twin=(i == 1)) for i, a in enumerate((9.0, -1.0, -2.0))]
            curves = [c for c, _ in made]
            parts = [v for _, vs in made for v in vs]
            S = Obj("S", jordans=tuple(curves), subshapes=())
        if args == "one-shot":
            args = (iter((Fr(7), Fr(2))),)
        try:
            got = Runner(ctx, set(), hook, ext=ext).call_fn(fn, [S] + list(args), dict(kwargs))
        except Undecided as ex:
            out.undecided(qname, f"{name}{args}: {ex}", where=fn.where())
            return
        except (Raised, ValueError, TypeError, StopIteration) as ex:
            out.bad(qname, f"{name}() raises on a legitimate argument", where=fn.where(),
                    detail=f"{name}{args if not (args and hasattr(args[0], '__next__')) else '(<one-shot iterable of two numbers>)'}: "
                           f"{getattr(ex, 'what', type(ex).__name__)} -- after {sum(len(e.calls) for e in parts)} of {len(parts)} "
                           f"control points were transformed")
            return
        counts = [len(e.calls) for e in parts]
        label = f"{name}{args}{kwargs or ''}"
        if curves:
            per_curve = [sum(1 for c, _ in jcalls if c is cv) for cv in curves]
            if any(n == 0 for n in per_curve) and any(per_curve):
                out.bad(qname, f"the call of .{name}() is not made for every element of self.{getter} (conditional / "
                               f"early exit)", where=fn.where(), detail=f"{label}: calls per boundary curve {per_curve}")
                return
            if any(m != name for _, m in jcalls):
                out.bad(qname, f"elements are transformed by {sorted({m for _, m in jcalls})} instead of the same-named "
                               f"method", where=fn.where())
                return
        flipped = [c.label if hasattr(c, "label") else str(c) for c in curves if c.__dict__.get("reversed", 0) % 2]
        if flipped:
            out.bad(qname, "the transformation reverses boundary curves: with positive factors / a rigid motion every curve "
                           "keeps its orientation (a clockwise curve bounds a hole or an unbounded region)", where=fn.where(),
                    detail=f"{label}: curves with signed areas (9, -1, -2), reversed afterwards: {flipped}")
            return
        if not any(counts):
            out.bad(qname, f"does not visit self.{getter}", where=fn.where(), detail=label)
            return
        if any(c == 0 for c in counts):
            out.bad(qname, f"the call of .{name}() is not made for every element of self.{getter} (conditional / early exit)",
                    where=fn.where(), detail=f"{label}: calls per element {counts}")
            return
        if any(c > 1 for c in counts):
            out.bad(qname, f"elements of self.{getter} are transformed {max(counts)} times", where=fn.where(),
                    detail=f"{label}: calls per element {counts}")
            return
        for e in parts:
            meth, a, k = e.calls[0]
            if meth != name:
                out.bad(qname, f"elements are transformed by {meth} instead of the same-named method", where=fn.where())
                return
            if not good(a, k):
                out.bad(qname, f"arguments not forwarded unchanged/in order: callee receives {a} {dict(k) or ''}",
                        where=fn.where(), detail=f"{label}")
                return
        if got is not S:
            out.bad(qname, "does not return the same object", where=fn.where())
            return
    out.ok(qname, f"calls .{name}() exactly once on every element of self.{getter} with the caller's arguments; returns self",
           where=fn.where())


def r09_2(ctx):
    out = Outcome("R09.2", "JordanCurve.move/scale/rotate transform each element of self.vertices exactly once with "
                           "the validated arguments; vertices = every control point, de-duplicated by identity",
                  floor=4)
    for name in NAMES:
        _transform_rule(ctx, out, f"jordancurve.JordanCurve.{name}", "vertices", "polygon.Point2D", name)
    _vertices_rule(ctx, out)
    return out


def _vertices_rule(ctx, out):
    """vertices on an abstract curve (W): two distinct control points at the same position must both be listed, a
    junction point shared by two segments once, in first-occurrence order.  Decided on the outcome of the abstract
    run, so any loop / comprehension / set idiom is accepted."""
    from verifkit.absrun import Obj, Runner
    from verifkit.finite import Raised, Undecided
    from rules.C16 import PV
    fn = ctx.fn("jordancurve.JordanCurve.vertices")
    a, b, c = PV(0, 0), PV(4, 0), PV(0, 3)
    twin = PV(4, 0)             # a distinct control point at the same coordinates as b
    m1, m2 = PV(3, 3), PV(-1, 1)      # interior control points of the later segments (lost if a segment is skipped)
    J = Obj("J", segments=(Obj("s0", ctrlpoints=(a, twin, b)), Obj("s1", ctrlpoints=(b, m1, c)),
                           Obj("s2", ctrlpoints=(c, m2, a))))
    try:
        got = list(Runner(ctx, set(), None).call_fn(fn, [J]))
    except (Undecided, Raised) as ex:
        out.undecided(fn.qname, str(ex), where=fn.where())
        return
    ids = [id(x) for x in got]
    want = [id(x) for x in (a, twin, b, m1, c, m2)]
    detail = f"got {got} for control points a,twin(b),b | b,m1,c | c,m2,a"
    if ids == want:
        out.ok(fn.qname, "every control point of every segment, de-duplicated by id(), order kept", where=fn.where())
    elif len(ids) != len(set(ids)):
        out.bad(fn.qname, "control points are collected without de-duplication (shared junction points would be "
                          "transformed twice)", where=fn.where(), detail=detail)
    elif set(want) - set(ids) == {id(twin)} or set(want) - set(ids) == {id(b)}:
        out.bad(fn.qname, "vertices de-duplicated by value, not by object identity", where=fn.where(), detail=detail)
    elif set(want) - set(ids):
        out.bad(fn.qname, "does not list every control point of every segment", where=fn.where(), detail=detail)
    else:
        out.bad(fn.qname, "vertex list is not [each control point object once, in order]", where=fn.where(), detail=detail)
    # second world: one control point object used by several segments away from their junctions (a shared centre),
    # and a junction whose two sides are distinct objects at the same place: every object exactly once
    a, b1, b2, c, centre = PV(0, 0), PV(4, 0), PV(4, 0), PV(0, 3), PV(1, 1)
    J = Obj("J", segments=(Obj("s0", ctrlpoints=(a, centre, b1)), Obj("s1", ctrlpoints=(b2, centre, c)),
                           Obj("s2", ctrlpoints=(c, centre, a))))
    try:
        got = list(Runner(ctx, set(), None).call_fn(fn, [J]))
    except (Undecided, Raised) as ex:
        out.undecided(fn.qname, str(ex), where=fn.where())
        return
    ids = [id(x) for x in got]
    want = {id(x) for x in (a, centre, b1, b2, c)}
    detail = f"got {got} for control points a,centre,b1 | b2,centre,c | c,centre,a"
    if len(ids) != len(set(ids)):
        out.bad(fn.qname, "a control point object shared by several segments is listed more than once (it would be "
                          "transformed more than once)", where=fn.where(), detail=detail)
    elif want - set(ids):
        out.bad(fn.qname, "does not list every control point object of every segment", where=fn.where(), detail=detail)
    else:
        out.ok(fn.qname, "a control point object shared by several segments is listed once; both objects of a junction "
                         "made of two objects are listed", where=fn.where())


def r09_3(ctx):
    out = Outcome("R09.3", "DefinedShape.move/scale/rotate transform every element of self.jordans, forward their "
                           "arguments and return self; `jordans` enumerates the curve of every subshape", floor=6)
    for name in NAMES:
        _transform_rule(ctx, out, f"shape.DefinedShape.{name}", "jordans", "jordancurve.JordanCurve", name)
    jordans_coverage(ctx, out)
    return out


def jordans_coverage(ctx, out):
    """`jordans` of the three concrete shape classes covers every boundary curve (abstract run of the getters on
    stand-in shapes; any loop / comprehension idiom is accepted)"""
    from verifkit.absrun import Obj, Runner
    from verifkit.finite import Raised, Undecided
    from verifkit.model import FIELD_TYPES

    def run(fn, S):
        try:
            return list(Runner(ctx, set(), None).call_fn(fn, [S])), None
        except (Undecided, Raised, TypeError) as ex:
            return None, str(ex)
    fn = ctx.fn("shape.SimpleShape.jordans")
    JC = Obj("own_curve")
    fields = {}
    for (c, f), t in FIELD_TYPES.items():
        if c == "SimpleShape" and "JordanCurve" in ctx.typer.classes_of(t):
            fields[f[len("_SimpleShape"):] if f.startswith("_SimpleShape__") else f] = JC
    got, err = run(fn, Obj("S", **fields))
    if err:
        out.undecided(fn.qname, err, where=fn.where())
    else:
        ok = len(got) == 1 and got[0] is JC
        (out.ok if ok else out.bad)(fn.qname, "jordans = (own curve,)" if ok else "jordans is not the 1-tuple of the own curve",
                                    where=fn.where())
    for cls, parts in (("ConnectedShape", (1, 1, 1)), ("DisjointShape", (2, 1, 3))):
        fn = ctx.fn(f"shape.{cls}.jordans")
        subs, want = [], []
        for k, n in enumerate(parts):
            js = tuple(Obj(f"j{k}{m}") for m in range(n))
            want += list(js)
            subs.append(Obj(f"sub{k}", jordans=js))
        got, err = run(fn, Obj("S", subshapes=tuple(subs)))
        if err:
            out.undecided(fn.qname, err, where=fn.where())
            continue
        ids, wids = sorted(id(x) for x in got), sorted(id(x) for x in want)
        firsts = sorted(id(s.jordans[0]) for s in subs)
        if ids == wids:
            out.ok(fn.qname, "jordans covers the curves of every subshape", where=fn.where())
        elif ids == firsts and ids != wids:
            out.bad(fn.qname, "only one curve per subshape is collected although a subshape may have several",
                    where=fn.where(), detail=f"got {got}")
        elif not set(ids) & set(wids):
            out.bad(fn.qname, "jordans does not collect subshape.jordans", where=fn.where(), detail=f"got {got}")
        else:
            out.bad(fn.qname, "jordans does not visit every element of self.subshapes", where=fn.where(),
                    detail=f"got {got}, subshape curves {want}")
    single_curve_projection(ctx, out)


# `x.jordans[k]` on a shape that may have several boundary curves: legitimate only where just one curve is wanted
SINGLE_CURVE_OK = {
    "shape.DisjointShape.subshapes:set": "secondary sort key: length of the first curve of each component (not a region)",
}


def _is_simple_test(t, name):
    return isinstance(t, ast.Call) and isinstance(t.func, ast.Name) and t.func.id == "isinstance" and len(t.args) == 2 \
        and pat.is_name(t.args[0], name) and isinstance(t.args[1], ast.Name) and t.args[1].id == "SimpleShape"


def _implies_simple(test, name, positive=True):
    """the test being true (positive) / false (not positive) implies isinstance(name, SimpleShape)"""
    t, neg = pat._strip_not(test)
    if neg:
        return _implies_simple(t, name, not positive)
    if positive:
        if _is_simple_test(t, name):
            return True
        return isinstance(t, ast.BoolOp) and isinstance(t.op, ast.And) and any(_implies_simple(v, name, True) for v in t.values)
    return isinstance(t, ast.BoolOp) and isinstance(t.op, ast.Or) and any(_implies_simple(v, name, False) for v in t.values)


def _narrowed_to_simple(fn, name, node):
    """the use is dominated by a test that `name` is a SimpleShape: an early exit `if not isinstance(..): return`,
    an enclosing `if` / conditional expression / comprehension filter, or an earlier operand of `and` / `or`"""
    par = pat.parents_of(fn.node)
    child, p = node, par.get(id(node))
    while p is not None and p is not fn.node:
        if isinstance(p, ast.BoolOp) and child in p.values:
            before = p.values[:p.values.index(child)]
            if any(_implies_simple(v, name, isinstance(p.op, ast.And)) for v in before):
                return True
        if isinstance(p, (ast.If, ast.While, ast.IfExp)):
            body = p.body if isinstance(p.body, list) else [p.body]
            orelse = p.orelse if isinstance(p.orelse, list) else [p.orelse]
            if any(child is b for b in body) and _implies_simple(p.test, name, True):
                return True
            if any(child is b for b in orelse) and _implies_simple(p.test, name, False):
                return True
        if isinstance(p, (ast.ListComp, ast.GeneratorExp, ast.SetComp, ast.DictComp)):
            for g in p.generators:
                if any(_implies_simple(c, name, True) for c in g.ifs):
                    return True
        child, p = p, par.get(id(p))
    for st in fn.node.body:
        if getattr(st, "lineno", 0) >= node.lineno:
            break
        if isinstance(st, ast.If) and st.body and isinstance(st.body[-1], (ast.Return, ast.Raise)) and not st.orelse:
            if _implies_simple(st.test, name, False):
                return True
        if isinstance(st, ast.Assert) and _implies_simple(st.test, name, True):
            return True
    return False


def _single_curve_allowed(ctx, fn, ctx_cls=None, depth=0):
    """an allow entry covers the private helpers it delegates to: a private method f is allowed when every call that can
    reach it *on an instance of the class it belongs to* comes from an allowed function -- `self._f(..)` in a method g
    counts when g is a method such an instance has (g's class is among its bases) and `_f` looked up from that
    instance is f (the override, not the base definition)"""
    if fn.qname in SINGLE_CURVE_OK:
        return SINGLE_CURVE_OK[fn.qname]
    if depth > 4 or not fn.name.startswith("_") or fn.name.endswith("__") or not fn.cls:
        return None
    M = ctx.model
    ctx_cls = ctx_cls or fn.cls
    line = [ctx_cls] + M.mro(ctx_cls)[1:]
    first = next((M.methods[k][fn.name] for k in line if fn.name in M.methods.get(k, {})), None)
    if first is None or first.qname != fn.qname:
        return None
    reasons = []
    for g in M.funcs.values():
        if g.qname == fn.qname:
            continue
        selfn = g.params[0] if g.params and g.cls else None
        for c in ast.walk(g.node):
            if isinstance(c, ast.Call) and isinstance(c.func, ast.Attribute) and c.func.attr == fn.name:
                recv = c.func.value
                if isinstance(recv, ast.Name) and recv.id == selfn and g.cls in line:
                    r = _single_curve_allowed(ctx, g, ctx_cls, depth + 1)
                    if r is None:
                        return None
                    reasons.append(r)
                elif isinstance(recv, ast.Name) and recv.id in M.classes and recv.id in ([ctx_cls] + M.subclasses(ctx_cls) + line):
                    r = _single_curve_allowed(ctx, g, ctx_cls, depth + 1)
                    if r is None:
                        return None
                    reasons.append(r)
                elif not isinstance(recv, ast.Name) or (recv.id != selfn and recv.id not in M.classes):
                    return None                     # called on some other object: not covered
    return reasons[0] if reasons else None


def single_curve_projection(ctx, out):
    """no function treats one boundary curve of a possibly multi-curve shape as if it were the whole boundary"""
    n = 0
    for q, fn in sorted(ctx.model.funcs.items()):
        if fn.mod not in ("shape", "plot", "primitive"):
            continue
        inf = ctx.typer.of(fn)
        for node in ast.walk(fn.node):
            if isinstance(node, ast.Subscript) and not isinstance(node.slice, ast.Slice) \
                    and isinstance(node.value, ast.Attribute) and node.value.attr == "jordans":
                t = inf.typeof(node.value.value)
                classes = ctx.typer.classes_of(t)
                n += 1
                recv = node.value.value
                narrowed = isinstance(recv, ast.Name) and _narrowed_to_simple(fn, recv.id, node)
                if not classes and not narrowed:
                    continue          # receiver of unknown static type: not decided here
                if narrowed or all(c == "SimpleShape" for c in classes):
                    out.ok(q, f"`{U(node)}` on a SimpleShape (one curve)", where=fn.where(node), nontrivial=False)
                elif _single_curve_allowed(ctx, fn) is not None:
                    out.ok(q, f"`{U(node)}`: {_single_curve_allowed(ctx, fn)}", where=fn.where(node))
                else:
                    out.bad(q, "one boundary curve of a shape that may have several is used for the whole shape",
                            where=fn.where(node), detail=f"`{U(node)}` with receiver type {t}: holes / further components "
                                                         f"are silently dropped")
    return n


def r09_4(ctx):
    """abstract run (W) of JordanCurve.rotate on recording vertices: the angle every control point receives is the
    caller's angle, multiplied by pi/180 exactly when `degrees` is true -- whatever the spelling of the conversion"""
    from verifkit.absrun import Obj, Runner, StandIn
    from verifkit.finite import Raised, Undecided
    out = Outcome("R09.4", "the angle is multiplied by pi/180 iff `degrees`", floor=1)
    fn = ctx.fn("jordancurve.JordanCurve.rotate")
    factor = math.pi / 180

    class Vtx(StandIn):
        def __init__(self):
            self.got = []

        def rotate(self, angle, *a, **k):
            self.got.append((angle, a, tuple(sorted(k.items()))))
            return self
    ext = {"np.deg2rad": lambda x: float(x) * factor, "np.radians": lambda x: float(x) * factor,
           "math.radians": math.radians, "np.float64": float, "np.asarray": lambda x, dtype=None: float(x),
           "math.degrees": math.degrees}
    verdict = None
    for angle in (30.0, 90, -45.5):
        for mode, args, kwargs, deg in (("degrees=True", (angle, True), {}, True), ("degrees=True (keyword)", (angle,), {"degrees": True}, True),
                                        ("degrees=False", (angle, False), {}, False), ("default", (angle,), {}, False)):
            vs = tuple(Vtx() for _ in range(3))
            S = Obj("J", vertices=vs, segments=tuple(Obj(f"s{i}", ctrlpoints=(vs[i], vs[(i + 1) % 3])) for i in range(3)))
            try:
                Runner(ctx, set(), lambda rn, ev, c, n, r, a, k: True if n == "isinstance" else NotImplemented,
                       ext=ext).call_fn(fn, [S] + list(args), dict(kwargs))
            except (Undecided, Raised) as ex:
                out.undecided(fn.qname, f"rotate({angle}, {mode}): {ex}", where=fn.where())
                return out
            for v in vs:
                for got, a, k in v.got:
                    passed_deg = (a[0] if a else dict(k).get("degrees", False))
                    eff = float(got) * (factor if passed_deg else 1.0)
                    want = float(angle) * (factor if deg else 1.0)
                    if abs(eff - want) > 1e-12 * max(1.0, abs(want)) and verdict is None:
                        ratio = eff / float(angle)
                        verdict = (f"with {mode} the angle is multiplied by {ratio!r} instead of "
                                   f"{'pi/180' if deg else '1'}")
    if verdict:
        out.bad(fn.qname, verdict, where=fn.where())
    else:
        out.ok(fn.qname, "angle *= pi/180 iff degrees", where=fn.where())
    return out


def _conv_expr(e, ang):
    """factor f such that e == ang * f, or None"""
    if pat.is_name(e, ang):
        return 1.0
    if isinstance(e, ast.Call) and U(e.func) in ("np.deg2rad", "math.radians", "np.radians", "numpy.deg2rad") \
            and len(e.args) == 1 and pat.is_name(e.args[0], ang):
        return math.pi / 180
    if isinstance(e, ast.BinOp) and isinstance(e.op, (ast.Mult, ast.Div)):
        l = _conv_expr(e.left, ang)
        rv = pat.const_value(e.right)
        if l is not None and rv is not None:
            return l * rv if isinstance(e.op, ast.Mult) else l / rv
        lv = pat.const_value(e.left)
        r = _conv_expr(e.right, ang)
        if lv is not None and r is not None and isinstance(e.op, ast.Mult):
            return lv * r
    return None


def _conversion(body, ang):
    if not body:
        return 1.0
    f = 1.0
    seen = False
    for st in body:
        if isinstance(st, ast.AugAssign) and pat.is_name(st.target, ang):
            v = pat.const_value(st.value)
            if v is None:
                return None
            if isinstance(st.op, ast.Mult):
                f *= v
            elif isinstance(st.op, ast.Div):
                f /= v
            else:
                return None
            seen = True
        elif isinstance(st, ast.Assign) and len(st.targets) == 1 and pat.is_name(st.targets[0], ang):
            c = _conv_expr(st.value, ang)
            if c is None:
                return None
            f *= c
            seen = True
        elif isinstance(st, ast.Pass):
            continue
        else:
            return None
    return f if seen else 1.0


def r09_5(ctx):
    o = C10.r10_1(ctx)
    o.rule = "R09.5"
    o.text = "the cached signed length / orientation is reset after every non-isometric transformation (same analysis as R10.1)"
    return o


RULES = [r09_1, r09_2, r09_3, r09_4, r09_5]
