"""C17 -- Jordan-curve constructors agree with each other and reject open chains
(structural clauses).

 R17.1 constructor funnel (= R06.3) plus explicit rejection of a string by
       from_vertices / from_ctrlpoints.
 R17.2 vertices: every control point of every segment, first-occurrence order,
       de-duplicated by object identity (shared rule with C09).
 R17.3 boxes: PlanarCurve.box = (min, max) over *all* control points with the
       right coordinate per component (convex-hull property => encloses the
       segment); JordanCurve.box / DefinedShape.box join every segment / curve;
       Box.__or__ takes min for the low and max for the top corner per
       coordinate; `None | box` is `box`.
 R17.4 signed length: +length for positive area, -length otherwise, both
       computed from the same curve.
Not decided: `==` of curves built in different ways (numeric).
"""
import ast
from fractions import Fraction as Fr

from verifkit import pat
from verifkit.absrun import Obj, Runner, StandIn
from verifkit.core import Outcome
from verifkit.finite import Undecided, Raised
from rules import C06, C09
from rules.C16 import PV, point2d

ASSUMPTIONS = ["a Bezier segment lies in the convex hull of its control points (textbook)"]
U = ast.unparse


def r17_1(ctx):
    o = C06.r06_3(ctx)
    o.rule = "R17.1"
    for name in ("from_vertices", "from_ctrlpoints"):
        fn = ctx.fn(f"jordancurve.JordanCurve.{name}")
        try:
            Runner(ctx, set(), lambda rn, ev, c, n, r, a, k: (isinstance(a[0], a[1]) if n == "isinstance" and isinstance(a[1], type)
                                                             else NotImplemented), asserts=True).call_fn(fn, ["abc"])
            o.bad(fn.qname, "a string is accepted as a list of vertices / control points", where=fn.where())
        except Raised as r:
            o.ok(fn.qname, f"string argument rejected ({r.what.split('(')[0]})", where=fn.where())
        except Undecided as ex:
            o.bad(fn.qname, "a string argument is not rejected before it is used as a vertex list", where=fn.where(),
                  detail=str(ex))
        except (TypeError, ValueError) as ex:
            o.ok(fn.qname, f"string argument rejected ({type(ex).__name__})", where=fn.where())
    return o


def r17_2(ctx):
    out = Outcome("R17.2", "vertices = every control point of every segment once, de-duplicated by object identity",
                  floor=1)
    C09._vertices_rule(ctx, out)
    return out


class BoxS(StandIn):
    def __init__(self, lo, hi):
        self.lowpt, self.toppt = lo, hi

    def __or__(self, o):
        return BoxS(PV(min(self.lowpt.x, o.lowpt.x), min(self.lowpt.y, o.lowpt.y)),
                    PV(max(self.toppt.x, o.toppt.x), max(self.toppt.y, o.toppt.y)))

    def __ror__(self, o):
        return self


class HasBox(StandIn):
    def __init__(self, box):
        self._box = box

    def box(self):
        return self._box


def box_hook(rn, ev, call, name, recv, args, kwargs):
    if name == "Point2D":
        return point2d(*args)
    if name == "Box":
        both = list(args) + [kwargs[k] for k in ("lowpt", "toppt") if k in kwargs][len(args) and 0:]
        if len(args) < 2:
            both = [args[0] if args else kwargs.get("lowpt"), kwargs.get("toppt") if len(args) < 2 else args[1]]
        return BoxS(both[0], both[1])
    return NotImplemented


class CurveB(StandIn):
    """exact planar segment: control points, evaluation by de Casteljau, and its control box"""

    def __init__(self, pts):
        self.ctrlpoints = tuple(pts)
        self.degree, self.npts = len(pts) - 1, len(pts)

    def at(self, t):
        cur = [(Fr(p.x), Fr(p.y)) for p in self.ctrlpoints]
        while len(cur) > 1:
            cur = [((1 - t) * a[0] + t * b[0], (1 - t) * a[1] + t * b[1]) for a, b in zip(cur, cur[1:])]
        return PV(cur[0][0], cur[0][1])

    def eval(self, nodes):
        try:
            return tuple(self.at(Fr(t)) for t in nodes)
        except TypeError:
            return self.at(Fr(nodes))

    __call__ = eval

    def box(self):
        xs, ys = [p.x for p in self.ctrlpoints], [p.y for p in self.ctrlpoints]
        return BoxS(PV(min(xs), min(ys)), PV(max(xs), max(ys)))

    def samples(self, n=64):
        return [self.at(Fr(k, n)) for k in range(n + 1)]


class JordanB(StandIn):
    """closed chain of exact segments with the sampling interface of a JordanCurve"""

    def __init__(self, segments):
        self.segments = tuple(segments)

    @property
    def vertices(self):
        out = []
        for sg in self.segments:
            for p in sg.ctrlpoints:
                if not any(p is q for q in out):
                    out.append(p)
        return tuple(out)

    def points(self, subnpts=None):
        k = int(subnpts or 0)
        return tuple(sg.at(Fr(j, k + 1)) for sg in self.segments for j in range(k + 1))


def _encloses(box, pts):
    return isinstance(box, BoxS) and all(box.lowpt.x <= p.x <= box.toppt.x and box.lowpt.y <= p.y <= box.toppt.y for p in pts)


def r17_3(ctx):
    out = Outcome("R17.3", "bounding boxes enclose: the box of a segment / of a closed curve contains every point of it "
                           "(interior extrema of curved pieces included); curve / shape boxes join every part; Box.__or__ "
                           "= (min, min) .. (max, max); None | box = box", floor=5)
    fn = ctx.fn("curve.PlanarCurve.box")
    # a cubic whose extremes are at interior control points, and a quadratic whose right-most point is reached at a
    # parameter that is none of 0, 1/2, 1
    for label, pts in (("cubic", (PV(1, 5), PV(-3, 9), PV(7, -2), PV(4, 4))), ("quadratic", (PV(4, 0), PV(6, 2), PV(0, 3))),
                       ("tall quadratic", (PV(0, 0), PV(1, 10), PV(2, 0))), ("wide quadratic", (PV(0, 0), PV(-10, 1), PV(0, 2))),
                       ("low quadratic", (PV(0, 0), PV(1, -10), PV(2, 0))), ("far quadratic", (PV(0, 0), PV(10, 1), PV(0, 2)))):
        C = CurveB(pts)
        try:
            got = Runner(ctx, {"curve.Math.closed_linspace", "curve.Math.open_linspace"}, box_hook).call_fn(fn, [C])
            ok = _encloses(got, C.samples())
            (out.ok if ok else out.bad)(fn.qname, f"the box encloses every point of a {label} segment" if ok else
                                        "the box of a segment does not enclose the segment", where=fn.where(),
                                        detail="" if ok else f"{label} {pts}: box {getattr(got, 'lowpt', got)}..{getattr(got, 'toppt', '')} "
                                                             f"misses points of the curve")
        except (Undecided, Raised) as ex:
            out.undecided(fn.qname, str(ex), where=fn.where())
    # a closed curve with a bulging arc: the box must contain the bulge, not only the vertices
    a, b, c = PV(0, 0), PV(4, 0), PV(0, 3)
    J = JordanB((CurveB((a, PV(3, -4), b)), CurveB((b, c)), CurveB((c, PV(-5, 1), a))))
    fj = ctx.fn("jordancurve.JordanCurve.box")
    try:
        got = Runner(ctx, {"curve.Math.closed_linspace", "curve.Math.open_linspace"}, box_hook).call_fn(fj, [J])
        ok = _encloses(got, [p for sg in J.segments for p in sg.samples()])
        (out.ok if ok else out.bad)(fj.qname, "the box encloses every point of every segment (bulging arcs included)" if ok else
                                    "the box of a closed curve does not enclose its curved pieces", where=fj.where(),
                                    detail="" if ok else f"box {getattr(got, 'lowpt', got)}..{getattr(got, 'toppt', '')} for arcs "
                                                         f"bulging to y = -2 and x = -2.5")
    except (Undecided, Raised) as ex:
        out.undecided(fj.qname, str(ex), where=fj.where())
    parts = [HasBox(BoxS(PV(0, 0), PV(1, 1))), HasBox(BoxS(PV(-5, 2), PV(0, 3))), HasBox(BoxS(PV(2, -7), PV(9, 0)))]
    for q, attr in (("jordancurve.JordanCurve.box", "segments"), ("shape.DefinedShape.box", "jordans")):
        f2 = ctx.fn(q)
        S = Obj("S", **{attr: tuple(parts)})
        try:
            got = Runner(ctx, set(), box_hook).call_fn(f2, [S])
            ok = isinstance(got, BoxS) and (got.lowpt.x, got.lowpt.y, got.toppt.x, got.toppt.y) == (-5, -7, 9, 3)
            (out.ok if ok else out.bad)(q, f"join of the boxes of every element of self.{attr}" if ok else
                                        f"the box is not the join over every element of self.{attr}", where=f2.where())
        except (Undecided, Raised) as ex:
            if q.endswith("JordanCurve.box"):
                continue                    # decided on the sampled world above
            out.undecided(q, str(ex), where=f2.where())
    fo = ctx.fn("polygon.Box.__or__")
    A = Obj("A", lowpt=PV(0, 5), toppt=PV(4, 9))
    B = Obj("B", lowpt=PV(-2, 6), toppt=PV(3, 12))
    try:
        got = Runner(ctx, set(), box_hook).call_fn(fo, [A, B])
        ok = isinstance(got, BoxS) and (got.lowpt.x, got.lowpt.y, got.toppt.x, got.toppt.y) == (-2, 5, 4, 12)
        (out.ok if ok else out.bad)(fo.qname, "join = componentwise min of the low and max of the top corners" if ok else
                                    "Box.__or__ is not the enclosing box of both", where=fo.where())
    except (Undecided, Raised) as ex:
        out.undecided(fo.qname, str(ex), where=fo.where())
    fr = ctx.fn("polygon.Box.__ror__")
    A = Obj("A")
    try:
        got = Runner(ctx, set(), None).call_fn(fr, [A, None])
        (out.ok if got is A else out.bad)(fr.qname, "None | box is box" if got is A else "None | box is not box", where=fr.where())
    except (Undecided, Raised) as ex:
        out.undecided(fr.qname, str(ex), where=fr.where())
    return out


def r17_4(ctx):
    out = Outcome("R17.4", "float(curve) = +length for positive area, -length otherwise, both integrals of this curve",
                  floor=2)
    out.exhaustive = True
    fn = ctx.fn("jordancurve.JordanCurve.__float__")
    # the stand-in curve has geometry to look at, none of which tells its orientation: a lens of two arcs (its end
    # points span no area) and a crescent whose end-point polygon turns the other way -- only the integral does
    from rules.C16 import PV
    worlds = [("lens of two arcs", [PV(0, 0), PV(2, 0)], [PV(1, -1), PV(1, 1)]),
              ("crescent", [PV(0, 0), PV(0, 2), PV(3, 1)], [PV(-2, 1), PV(4, 3), PV(4, -1)])]
    for area, want, (wname, ends, mids) in ((Fr(2), 7, worlds[0]), (Fr(-2), -7, worlds[0]), (Fr(2), 7, worlds[1]),
                                            (Fr(-2), -7, worlds[1])):
        n = len(ends)
        segs = tuple(Obj(f"s{i}", ctrlpoints=(ends[i], mids[i], ends[(i + 1) % n]), degree=2, npts=3) for i in range(n))
        J = Obj("J", segments=segs, vertices=tuple(p for i in range(n) for p in (ends[i], mids[i])))
        J.__dict__["points"] = lambda *a, ends=ends, **k: tuple(ends) + (ends[0],)
        J.__dict__["__lenght"] = None
        J.__dict__["_JordanCurve__lenght"] = None
        seen = []

        def hook(rn, ev, call, name, recv, args, kwargs, area=area, J=J, ends=ends):
            if name == "points" and recv is J:
                return tuple(ends) + (ends[0],)
            if name == "lenght":
                seen.append(("lenght", args[0]))
                return 7
            if name == "area":
                seen.append(("area", args[0]))
                return area
            return NotImplemented
        try:
            got = Runner(ctx, set(), hook).call_fn(fn, [J])
            ok = got == want and sorted(s[0] for s in seen) == ["area", "lenght"] and all(s[1] is J for s in seen)
            (out.ok if ok else out.bad)(fn.qname, f"{wname}, area {area} -> {want}" if ok else
                                        f"signed length of a {wname} of area {area} is {got!r} (integrals taken: "
                                        f"{[s[0] for s in seen]}): the sign must be that of the area integral of the curve",
                                        where=fn.where())
        except (Undecided, Raised) as ex:
            out.undecided(fn.qname, str(ex), where=fn.where())
    return out


def r17_5(ctx):
    from rules import C04
    o = C04.r04_2(ctx)
    o.rule = "R17.5"
    o.text = ("the sign of float(curve) is the sign of IntegrateJordan.area, which is the sum over *every* segment, "
              "straight or curved, of the same per-segment integral (same analysis as R04.2)")
    return o


def r17_6(ctx):
    from rules import C10
    o = C10.r10_1(ctx)
    o.rule = "R17.6"
    o.text = ("box, vertices and signed length of a curve are computed from its control points as they are now: nothing "
              "cached or memoised survives move / rotate / scale / a change of the segments (same analysis as R10.1)")
    return o


def r17_7(ctx):
    """abstract run (W) of Point2D.__abs__ (the integrand of the signed length) on stand-in points with int, Fraction and
    float coordinates: the result squared must be x^2 + y^2 (exactly when the norm is rational, within rounding
    otherwise), whatever the numeric type of the description"""
    import math
    out = Outcome("R17.7", "abs(point) is the Euclidean norm for int, Fraction and float coordinates alike (perfect and "
                           "non-perfect squares in numerator and denominator): descriptions of one curve in different "
                           "numeric types give the same length", floor=6)
    fn = ctx.fn("polygon.Point2D.__abs__")
    cases = [(3, 4), (1, 1), (Fr(3, 2), 2), (Fr(1, 2), Fr(1, 2)), (Fr(1, 3), Fr(1, 3)), (Fr(3, 5), Fr(4, 5)), (0.5, 0.5),
             (3.0, 4.0), (Fr(2, 7), Fr(3, 7)), (10 ** 9, 1), (Fr(1, 10 ** 6), 0)]

    class Pt(StandIn):
        def __init__(self, x, y):
            self._x, self._y = x, y

        def inner(self, o):
            return self._x * o._x + self._y * o._y

        def norm2(self):
            return self.inner(self)

        def __getitem__(self, i):
            return (self._x, self._y)[i]

        def __iter__(self):
            return iter((self._x, self._y))
    ext = {"math.sqrt": math.sqrt, "math.isqrt": math.isqrt, "np.sqrt": math.sqrt, "math.hypot": math.hypot,
           "np.hypot": math.hypot, "fractions.Fraction": Fr}
    for x, y in cases:
        try:
            got = Runner(ctx, set(), None, ext=ext).call_fn(fn, [Pt(x, y)])
        except (Undecided, Raised) as ex:
            out.undecided(fn.qname, f"abs(({x}, {y})): {ex}", where=fn.where())
            continue
        except (TypeError, ValueError, ArithmeticError) as ex:
            out.bad(fn.qname, f"abs of a point raises {type(ex).__name__}", where=fn.where(), detail=f"point ({x}, {y})")
            continue
        want2 = x * x + y * y
        ok = abs(float(got) ** 2 - float(want2)) <= 1e-12 * max(1.0, float(want2))
        if ok and isinstance(want2, (int, Fr)):
            w = Fr(want2)
            if math.isqrt(w.numerator) ** 2 == w.numerator and math.isqrt(w.denominator) ** 2 == w.denominator:
                ok = got * got == want2             # a rational norm must come out exactly
        if ok:
            out.ok(fn.qname, f"abs(({x}, {y}))^2 = {want2}", where=fn.where())
        else:
            out.bad(fn.qname, "abs(point) is not the Euclidean norm", where=fn.where(),
                    detail=f"abs(({x}, {y})) = {got!r}, its square must be {want2}")
    return out


def r17_8(ctx):
    """abstract run (W) of Box.__contains__ / __and__ / __float__ on stand-in boxes: a point is in the box iff both
    coordinates are within the corners, enlarged by the padding (1e-6) and no more; the intersection of two boxes is the
    overlap rectangle, None iff they are apart in x or in y (touching boxes do overlap)"""
    out = Outcome("R17.8", "Box: `p in box` iff low - pad <= p <= top + pad in both coordinates; `a & b` is the overlap "
                           "rectangle or None iff the boxes are apart in one coordinate; float(box) = width * height",
                  floor=12)
    fc, fa, ff = ctx.fn("polygon.Box.__contains__"), ctx.fn("polygon.Box.__and__"), ctx.fn("polygon.Box.__float__")

    def box(x0, y0, x1, y1):
        return Obj("box", lowpt=PV(x0, y0), toppt=PV(x1, y1), dx=Fr(1, 10**6), dy=Fr(1, 10**6))
    B = (Fr(1), Fr(2), Fr(4), Fr(6))
    eps, far = Fr(1, 10**7), Fr(1, 10**5)
    pts = [((2, 3), True), ((1, 2), True), ((4, 6), True), ((1 - eps, 3), True), ((2, 6 + eps), True), ((4 + eps, 2 - eps), True),
           ((1 - far, 3), False), ((4 + far, 3), False), ((2, 2 - far), False), ((2, 6 + far), False), ((0, 7), False),
           ((5, 3), False), ((2, 1), False)]
    for (x, y), want in pts:
        try:
            got = Runner(ctx, set(), box_hook).call_fn(fc, [box(*B), PV(Fr(x), Fr(y))])
        except (Undecided, Raised) as ex:
            out.undecided(fc.qname, str(ex), where=fc.where())
            continue
        (out.ok if got is want else out.bad)(fc.qname, f"({x}, {y}) in box [1,4]x[2,6] -> {want}" if got is want else
                                             "point-in-box test wrong", where=fc.where(),
                                             **({} if got is want else {"detail": f"({x}, {y}) in [1,4]x[2,6] (padding 1e-6) gives {got!r}"}))
    pairs = [((0, 0, 2, 2), (1, 1, 3, 3), (1, 1, 2, 2)), ((0, 0, 2, 2), (2, 0, 3, 2), (2, 0, 2, 2)), ((0, 0, 2, 2), (3, 0, 4, 2), None),
             ((0, 0, 2, 2), (0, 3, 2, 4), None), ((0, 0, 5, 5), (1, 2, 3, 4), (1, 2, 3, 4)), ((1, 2, 3, 4), (0, 0, 5, 5), (1, 2, 3, 4)),
             ((0, 0, 2, 5), (1, 4, 6, 9), (1, 4, 2, 5))]
    for a, b, want in pairs:
        try:
            got = Runner(ctx, set(), box_hook).call_fn(fa, [box(*map(Fr, a)), box(*map(Fr, b))])
        except (Undecided, Raised) as ex:
            out.undecided(fa.qname, str(ex), where=fa.where())
            continue
        val = None if got is None else (got.lowpt.x, got.lowpt.y, got.toppt.x, got.toppt.y) if isinstance(got, BoxS) else got
        ok = val == (None if want is None else tuple(map(Fr, want)))
        (out.ok if ok else out.bad)(fa.qname, f"{a} & {b} -> {want}" if ok else "overlap of two boxes wrong", where=fa.where(),
                                    **({} if ok else {"detail": f"{a} & {b} gives {val}, required {want}"}))
    try:
        got = Runner(ctx, set(), box_hook).call_fn(ff, [box(*B)])
        (out.ok if got == 12 else out.bad)(ff.qname, "float(box) = width * height" if got == 12 else
                                           f"float(box [1,4]x[2,6]) = {got}, required 12", where=ff.where())
    except (Undecided, Raised) as ex:
        out.undecided(ff.qname, str(ex), where=ff.where())
    return out


def r17_9(ctx):
    """abstract run (W) of JordanCurve.points / __contains__ on a closed chain of exact segments: points(k) lists, segment
    after segment, the start point and k interior samples of every segment, and the very first point again to close; a point is on
    the curve iff it is on one of its segments (after the box quick reject)"""
    out = Outcome("R17.9", "JordanCurve.points(k) = for every segment its start point and k equally spaced interior points, "
                           "in order, closed by the first point; `p in curve` iff p is in the box and on some segment", floor=4)
    fn = ctx.fn("jordancurve.JordanCurve.points")
    a, b, c = PV(0, 0), PV(4, 0), PV(0, 3)
    segs = (CurveB((a, PV(3, -4), b)), CurveB((b, c)), CurveB((c, PV(-5, 1), a)))
    J = Obj("J", segments=segs)
    for k in (0, 1, 3):
        try:
            got = list(Runner(ctx, {"curve.Math.closed_linspace", "curve.Math.open_linspace"}, box_hook).call_fn(fn, [J, k]))
        except (Undecided, Raised) as ex:
            out.undecided(fn.qname, f"points({k}): {ex}", where=fn.where())
            continue
        except (IndexError, TypeError, ValueError, ZeroDivisionError) as ex:
            out.bad(fn.qname, f"points({k}) raises {type(ex).__name__}", where=fn.where())
            continue
        want = [sg.at(Fr(j, k + 1)) for sg in segs for j in range(k + 1)]
        want.append(want[0])                       # the sampled polyline is closed: the first point once more
        gv = [(Fr(p[0]), Fr(p[1])) for p in got]
        ok = gv == [(p.x, p.y) for p in want]
        (out.ok if ok else out.bad)(fn.qname, f"points({k}): {len(want)} samples, segment by segment" if ok else
                                    "sample points are not start + interior points of every segment in order", where=fn.where(),
                                    **({} if ok else {"detail": f"points({k}) gives {len(gv)} points {gv[:4]}..., required {len(want)}"}))
    fc = ctx.fn("jordancurve.JordanCurve.__contains__")

    class SegOn(StandIn):
        def __init__(self, name, on):
            self.name, self.on, self.asked = name, on, 0

        def __contains__(self, p):
            self.asked += 1
            return self.on
    for label, ons, inbox, want in (("on the last segment", (False, False, True), True, True), ("on no segment", (False,) * 3, True, False),
                                    ("on the first segment", (True, False, False), True, True),
                                    ("outside the box", (True, True, True), False, False)):
        S = Obj("J", segments=tuple(SegOn(f"s{i}", on) for i, on in enumerate(ons)))

        class BoxAns(StandIn):
            def __contains__(self, p):
                return inbox
        S.__dict__["box"] = lambda: BoxAns()
        try:
            got = Runner(ctx, set(), lambda rn, ev, c, n, r, a_, k: (BoxAns() if n == "box" else NotImplemented)).call_fn(fc, [S, PV(1, 1)])
        except (Undecided, Raised) as ex:
            out.undecided(fc.qname, f"{label}: {ex}", where=fc.where())
            continue
        (out.ok if got is want else out.bad)(fc.qname, f"point {label} -> {want}" if got is want else
                                             f"`point in curve` wrong for a point {label}: {got!r}", where=fc.where())
    return out


class _Nm(StandIn):
    """a named point: equal to every other point of the same name, whichever object it is"""

    def __init__(self, name):
        self.name = name

    def __eq__(self, o):
        return isinstance(o, _Nm) and o.name == self.name

    def __ne__(self, o):
        return not self == o

    def __hash__(self):
        return hash(self.name)

    def __repr__(self):
        return self.name


def r17_10(ctx):
    """abstract run (W) of from_full_curve on stand-in splines of degree 1, 2 and 3 whose last control point repeats the
    first as a second object: whatever constructor it ends in, the closed curve described -- one segment per piece of
    the spline, piece i with the control points of piece i -- must be the one the pieces give (no piece more or less,
    no repeated junction; the degree reduction is the business of the segments setter every constructor ends in)"""
    out = Outcome("R17.10", "from_full_curve describes the closed curve by one segment per piece of the spline, with the "
                            "control points of that piece, whatever the degree of the spline", floor=3)
    fn = ctx.fn("jordancurve.JordanCurve.from_full_curve")
    for degree, npieces in ((1, 3), (1, 4), (2, 2), (3, 3)):
        names = [chr(ord("A") + i) for i in range(degree * npieces)]
        ctrl = [_Nm(n) for n in names] + [_Nm(names[0])]          # closed: the first point again, as another object
        log = []

        class Piece(StandIn):
            def __init__(self, pts):
                self.ctrlpoints, self.degree, self.npts, self.cleaned = tuple(pts), degree, degree + 1, False

            def clean(self, *a, **k):
                self.cleaned = True
                return self

        pieces = [Piece(ctrl[i * degree:(i + 1) * degree + 1]) for i in range(npieces)]

        class Full(StandIn):
            def __init__(self):
                self.ctrlpoints, self.degree, self.npts = tuple(ctrl), degree, len(ctrl)
                self.knotvector = tuple([0] * (degree + 1) + [Fr(i, npieces) for i in range(1, npieces)] + [1] * (degree + 1))

            def split(self, *a):
                return list(pieces)

        class Cls(StandIn):
            @staticmethod
            def from_ctrlpoints(lists):
                log.append([tuple(x) for x in lists])
                return "CURVE"

            @staticmethod
            def from_vertices(vs):
                vs = list(vs)
                log.append([(vs[i], vs[(i + 1) % len(vs)]) for i in range(len(vs))])
                return "CURVE"

            @staticmethod
            def from_segments(segs):
                log.append([tuple(getattr(x, "ctrlpoints", ())) for x in segs])
                return "CURVE"

        def hook(rn, ev, call, name, recv, args, kwargs):
            if name == "isinstance":
                return True
            if name in ("from_ctrlpoints", "from_vertices", "from_segments") and len(args) == 1:
                return getattr(Cls, name)(args[0])
            if name in ("PlanarCurve", "BezierCurve") and args:
                return Piece(args[0])
            if name == "Point2D" and args:
                return args[0]
            return NotImplemented
        label = f"closed spline of degree {degree} with {npieces} pieces"
        try:
            got = Runner(ctx, set(), hook, asserts=True).call_fn(fn, [Full()])
        except (Undecided, Raised) as ex:
            out.undecided(fn.qname, f"{label}: {ex}", where=fn.where())
            continue
        want = [tuple(x.name for x in pc.ctrlpoints) for pc in pieces]
        desc = [tuple(x.name for x in seg) for seg in log[-1]] if log else None
        if got != "CURVE" or len(log) != 1:
            out.bad(fn.qname, f"{label}: does not end in one constructor call", where=fn.where())
        elif desc != want:
            out.bad(fn.qname, f"{label}: the curve built is not the chain of the pieces of the spline", where=fn.where(),
                    detail=f"segments described {desc}, pieces {want}")
        else:
            out.ok(fn.qname, f"{label}: {npieces} segments, control points of the pieces in order", where=fn.where())
    return out


RULES = [r17_1, r17_2, r17_3, r17_4, r17_5, r17_6, r17_7, r17_8, r17_9, r17_10]
