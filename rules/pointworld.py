"""A world in which the repository's own Point2D methods are interpreted.

Most abstract runs replace points by hand-written stand-ins with their own arithmetic (PV, Vec); that keeps the rules
independent of Point2D -- and leaves Point2D itself unexamined.  Here a point is an attribute bag (`_x`, `_y`) whose
Python operators re-enter the interpreter on the *repository's* method of the same name, so `a - b`, `a.cross(b)`,
`a[0]`, `a == b`, `abs(a)` are decided on what polygon.py says.  (Validation and the
denominator cap are the business of C13 / C16): `Point2D(p)` is p, `Point2D(x, y)` a new point initialised by the
repository's own `__init__` (so a result that is routed through the constructor is capped as polygon.py says).
"""
import math
from fractions import Fraction as Fr

from verifkit.absrun import Obj, Runner


class World:
    def __init__(self, ctx, extra_hook=None):
        self.ctx = ctx
        self.extra_hook = extra_hook
        self.made = []
        world = self

        class Pt(Obj):
            is_point = True

            def _run(self, name, *args):
                fn = world.ctx.fn(f"polygon.Point2D.{name}")
                return world.runner().call_fn(fn, [self] + list(args))

            def __add__(self, o): return self._run("__add__", o)
            def __sub__(self, o): return self._run("__sub__", o)
            def __mul__(self, o): return self._run("__mul__", o)
            def __rmul__(self, o): return self._run("__rmul__", o)
            def __truediv__(self, o): return self._run("__truediv__", o)
            def __neg__(self): return self._run("__neg__")
            def __iadd__(self, o): return self._run("__iadd__", o)
            def __isub__(self, o): return self._run("__isub__", o)
            def __imul__(self, o): return self._run("__imul__", o)
            def __itruediv__(self, o): return self._run("__itruediv__", o)
            def __or__(self, o): return self._run("__or__", o)
            def __xor__(self, o): return self._run("__xor__", o)
            def __abs__(self): return self._run("__abs__")
            def __getitem__(self, i): return self._run("__getitem__", i)
            def __iter__(self): return iter(self._run("__iter__"))
            def __eq__(self, o): return self._run("__eq__", o)
            def __ne__(self, o): return not self._run("__eq__", o)
            __hash__ = None

            def __repr__(self):
                return f"({self.__dict__.get('_x')}, {self.__dict__.get('_y')})"
        self.Pt = Pt

    def point(self, x, y):
        p = self.Pt(f"pt{len(self.made)}", _x=x, _y=y)
        p.__dict__["__class__"] = Obj("class:Point2D")          # what `self.__class__` reads
        self.made.append(p)
        return p

    def construct(self, rn, args):
        """Point2D(x, y) / Point2D(pair): a new point initialised by the repository's own __init__ (so the coordinate cap
        and the validation are the ones polygon.py states); modelled as a plain pair of coordinates if there is none"""
        p = self.point(None, None)
        q = "polygon.Point2D.__init__"
        if q in self.ctx.model.funcs:
            rn.call_fn(self.ctx.fn(q), [p] + list(args))
        else:
            x, y = args if len(args) == 2 else args[0]
            p.__dict__["_x"], p.__dict__["_y"] = x, y
        return p

    def hook(self, rn, ev, call, name, recv, args, kwargs):
        if self.extra_hook is not None:
            r = self.extra_hook(rn, ev, call, name, recv, args, kwargs)
            if r is not NotImplemented:
                return r
        if name == "isinstance" and len(args) == 2 and isinstance(args[0], self.Pt):
            from verifkit.absrun import isinstance_names
            return "Point2D" in isinstance_names(call, args) or "object" in isinstance_names(call, args)
        if name in ("Point2D", "__class__") or (isinstance(recv, Obj) and str(recv) in ("class:Point2D", "cls:Point2D")):
            if len(args) == 1 and isinstance(args[0], self.Pt):
                return args[0]                                  # Point2D(p) is p
            if len(args) in (1, 2):
                return self.construct(rn, list(args))
        if isinstance(recv, self.Pt) and name and f"polygon.Point2D.{name}" in self.ctx.model.funcs:
            target = self.ctx.fn(f"polygon.Point2D.{name}")
            if target.kind in ("static", "class"):                     # self._as_point(x): no receiver is passed
                return rn.call_fn(target, list(args), kwargs)
            return rn.call_fn(target, [recv] + list(args), kwargs)
        return NotImplemented

    def runner(self):
        ext = {"math.sqrt": math.sqrt, "math.isqrt": math.isqrt, "np.sqrt": math.sqrt, "fractions.Fraction": Fr,
               "math.hypot": math.hypot, "np.hypot": math.hypot, "np.cos": math.cos, "np.sin": math.sin,
               "math.cos": math.cos, "math.sin": math.sin, "math.radians": math.radians, "np.radians": math.radians,
               "np.deg2rad": math.radians, "math.floor": math.floor, "np.floor": math.floor, "np.round": round,
               "np.isclose": math.isclose}
        return Runner(self.ctx, set(), self.hook, ext=ext)

    def call(self, name, recv, *args):
        return self.runner().call_fn(self.ctx.fn(f"polygon.Point2D.{name}"), [recv] + list(args))

    @staticmethod
    def xy(p):
        return (p.__dict__.get("_x"), p.__dict__.get("_y"))
