"""C05 -- operator results are measure-consistent (structural clauses).

 R05.1 the derived operators are the right Boolean combinations (= R01.1), and
       the two recombination cores partition the boundary pieces: for a piece
       whose midpoint is not on the other boundary exactly one of {union,
       intersection} selects it (same selector, opposite `inside`, closed vs
       open boundary) -- the structural reason why m(A|B)+m(A&B)=m(A)+m(B);
       the two cores are identical up to those two constants (sibling check).
 R05.2 the complement reverses every boundary: JordanCurve.invert emits the
       segments in reverse order and inverts each one; PlanarCurve.invert
       reverses the control points; the shape-level complements visit every
       curve / subshape.
 R05.3 an in-place invert keeps the cached orientation coherent (= R10.1).
 R05.4 Green plumbing of the measures (= R04.1/R04.2).
Not decided: that follow_path uses each selected piece exactly once; the
tolerance of the identities for float input.
"""
import ast

from verifkit import pat
from verifkit.absrun import Obj, Runner, StandIn
from verifkit.core import Outcome
from verifkit.finite import Undecided, Raised
from rules import C01, C04, C10

ASSUMPTIONS = C01.ASSUMPTIONS + C04.ASSUMPTIONS
U = ast.unparse


def r05_1(ctx):
    o = C01.r01_1(ctx)
    o.rule = "R05.1a"
    o.text = "derived operators are the right Boolean combinations of | & ~ (same analysis as R01.1)"
    out = Outcome("R05.1b", "union and intersection partition the boundary pieces: each piece whose midpoint is off the "
                            "other boundary is selected by exactly one of the two cores; the cores differ only in the "
                            "two selector constants", floor=3)
    out.exhaustive = True
    try:
        ev_or, cap_or, status = C01.run_core(ctx, "or_shapes")
        ev_and, cap_and, _ = C01.run_core(ctx, "and_shapes")
        sel = {}
        for name, cap in (("or", cap_or), ("and", cap_and)):
            try:
                sel[name] = {cap["jordans"][k].segments[j]._name for (k, j) in cap["indexs"]}
            except (IndexError, TypeError):
                out.bad(f"shape.FollowPath.{name}_shapes", "a selected (curve, segment) index does not address a piece of the "
                                                           "curve list handed to follow_path",
                        detail=f"indexes {list(cap['indexs'])[:8]} for {len(cap['jordans'])} curves")
                return [o, out]
        for piece, st in sorted(status.items()):
            n = (piece in sel["or"]) + (piece in sel["and"])
            if st == "on":
                (out.ok if n == 0 else out.bad)("shape.FollowPath", f"piece {piece} on the other boundary: selected by "
                                                f"{n} core(s)" + ("" if n == 0 else " (a shared boundary piece must be "
                                                                  "dropped by both)"))
            else:
                (out.ok if n == 1 else out.bad)("shape.FollowPath", f"piece {piece} ({st} the other operand): selected by "
                                                f"{n} core(s)" + ("" if n == 1 else " -- inclusion-exclusion of the "
                                                                  "boundary pieces fails"))
    except (Undecided, KeyError) as ex:
        out.undecided("shape.FollowPath", f"cores not interpretable: {ex}")
    # sibling check: same statements up to constants
    fo, fa = ctx.fn("shape.FollowPath.or_shapes"), ctx.fn("shape.FollowPath.and_shapes")

    def skeleton(fn):
        t = ast.parse(ast.unparse(fn.node))
        for n in ast.walk(t):
            if isinstance(n, ast.Constant) and isinstance(n.value, bool):
                n.value = True
        t.body[0].name = "f"
        return ast.dump(t)
    if skeleton(fo) == skeleton(fa):
        out.ok("shape.FollowPath.or_shapes", "or_shapes / and_shapes identical up to the selector flags")
    else:
        out.note("or_shapes / and_shapes differ structurally beyond the two flags (informational only)")
    return [o, out]


class SegI(StandIn):
    def __init__(self, name):
        self.name, self.inverted = name, 0

    def invert(self):
        self.inverted += 1
        return self

    def __repr__(self):
        return self.name


def r05_2(ctx):
    out = Outcome("R05.2", "complement = every boundary reversed: JordanCurve.invert reverses the order of the segments "
                           "and inverts each once; PlanarCurve.invert reverses the control points; shape complements "
                           "visit every curve / subshape", floor=5)
    fn = ctx.fn("jordancurve.JordanCurve.invert")
    segs = [SegI("s0"), SegI("s1"), SegI("s2")]
    J = Obj("J", segments=tuple(segs))
    try:
        got = Runner(ctx, set(), None).call_fn(fn, [J])
        final = [s.name for s in J.__dict__["segments"]]
        if final != ["s2", "s1", "s0"]:
            out.bad(fn.qname, "segments are not emitted in reverse order", where=fn.where(), detail=str(final))
        elif [s.inverted for s in segs] != [1, 1, 1]:
            out.bad(fn.qname, "not every segment is inverted exactly once", where=fn.where(),
                    detail=str([s.inverted for s in segs]))
        elif got is not J:
            out.bad(fn.qname, "invert() does not return the same curve", where=fn.where())
        else:
            out.ok(fn.qname, "order reversed, each segment inverted once, returns self", where=fn.where())
    except (Undecided, Raised) as ex:
        out.undecided(fn.qname, str(ex), where=fn.where())
    fp = ctx.fn("curve.PlanarCurve.invert")
    for n in (2, 3, 4, 5, 6):                      # straight, quadratic, cubic, quartic, quintic
        names = tuple(f"p{i}" for i in range(n))
        inner = Obj("planar", ctrlpoints=names, degree=n - 1, npts=n)
        C = Obj("C", ctrlpoints=names, degree=n - 1, npts=n)
        # name-mangled private holder: give the stand-in both spellings
        C.__dict__["__planar"] = inner
        C.__dict__["_PlanarCurve__planar"] = inner
        try:
            got = Runner(ctx, set(), None).call_fn(fp, [C])
            pts = tuple(inner.__dict__["ctrlpoints"])
            if pts != tuple(reversed(names)):
                out.bad(fp.qname, f"control points are not reversed (degree {n - 1})", where=fp.where(), detail=str(pts))
            else:
                out.ok(fp.qname, f"degree {n - 1}: control points reversed", where=fp.where())
        except (Undecided, Raised, IndexError, TypeError) as ex:
            out.undecided(fp.qname, f"degree {n - 1}: {ex}", where=fp.where())
    # coverage of the shape-level complements
    for q, coll in (("shape.DefinedShape.__invert__", "jordans"), ("shape.ConnectedShape.__invert__", "subshapes")):
        f2 = ctx.fn(q)
        selfn = f2.params[0]
        lps = [lp for lp in pat.loops(f2) if isinstance(lp.iter, ast.Attribute) and lp.iter.attr == coll
               and pat.is_name(lp.iter.value, selfn)]
        ok = len(lps) == 1 and not pat.has_early_exit(lps[0]) and any(
            isinstance(x, ast.UnaryOp) and isinstance(x.op, ast.Invert) and pat.is_name(x.operand, lps[0].var)
            for b in lps[0].body for x in ast.walk(b))
        (out.ok if ok else out.bad)(q, f"~x for every x in self.{coll}" if ok else
                                    f"the complement does not invert every element of self.{coll}", where=f2.where())
    from rules import C09
    C09.single_curve_projection(ctx, out)
    f3 = ctx.fn("shape.SimpleShape.__invert__")
    ok = any(isinstance(x, ast.UnaryOp) and isinstance(x.op, ast.Invert) for x in ast.walk(f3.node))
    (out.ok if ok else out.bad)(f3.qname, "built from the inverted curve" if ok else "the curve is not inverted", where=f3.where())
    return out


def r05_3(ctx):
    o = C10.r10_1(ctx)
    o.rule = "R05.3"
    o.text = "in-place invert / scale keep the cached orientation coherent (same analysis as R10.1)"
    return o


def r05_4(ctx):
    a = C04.r04_1(ctx)
    a.rule = "R05.4a"
    b = C04.r04_2(ctx)
    b.rule = "R05.4b"
    return [a, b]


def r05_5(ctx):
    from rules import C01
    o = C01.r01_3(ctx)
    o.rule = "R05.5"
    o.text = ("every boundary curve of one operand is cut against every boundary curve of the other (all pairs, not "
              "index-wise, not only the first) before any piece is selected (same analysis as R01.3)")
    return o


RULES = [r05_1, r05_2, r05_3, r05_4, r05_5]
