"""C02 -- point membership with the documented boundary rule (structural clauses only).

 R02.1 decision table of SimpleShape._contains_point over orientation x
       boundary flag x winding value (the value is only compared with
       constants, so the partition {-1,-1/2,0,1/2,1} is exact).
 R02.2 IntegrateJordan.winding_number: +1/2 (positive curve) / -1/2 (negative)
       when the point lies on a segment; otherwise the rounded sum of the
       contribution of *every* segment about the same centre.
 R02.3 composite quantifiers: Connected = forall subshapes, Disjoint = exists,
       each nested call forwards (point|jordan, boundary) unmodified.
 R02.4 API plumbing of __contains__ / contains_point (dispatch, default
       boundary=True, Empty contains nothing, Whole everything).
 R02.5 the orientation sign that decides interior vs exterior is never stale
       (= cache coherence R10.1).
 R02.6 the on-curve decision compares a distance (L^1) with its tolerance.
Not decided: that the winding number of a curved segment equals the geometric
one (chord approximation), projection accuracy.
"""
import ast
from fractions import Fraction as Fr

from verifkit import pat
from verifkit.absrun import isinstance_names, Obj, Runner, StandIn
from verifkit.core import Outcome
from verifkit.dim import dims
from verifkit.finite import Raised, Undecided, compared_constants, partition_reps
from rules import C10

ASSUMPTIONS = [
    "the winding number about a point off the curve is +-1 inside and 0 outside a simple closed curve (textbook)",
    "R17.3: the bounding box encloses the curve, so the quick reject in front of the on-segment test is sound",
] + C10.ASSUMPTIONS[-1:]
U = ast.unparse


def r02_1(ctx):
    out = Outcome("R02.1", "decision table of SimpleShape._contains_point: + curve: 1->True, 1/2->boundary, 0->False; "
                           "- curve: -1->False, -1/2->boundary, 0->True", floor=12)
    out.exhaustive = True
    fn = ctx.fn("shape.SimpleShape._contains_point")
    consts = compared_constants(fn.node) | {0, 1, -1}
    winds = [w for w in partition_reps(consts) if -1 <= w <= 1]
    spec = {}
    for w in winds:
        spec[(+1, w)] = True if w == 1 else False if w == 0 else "boundary" if w == Fr(1, 2) else None
        spec[(-1, w)] = False if w == -1 else True if w == 0 else "boundary" if w == Fr(-1, 2) else None
    for (orient, wind), want in sorted(spec.items()):
        if want is None:
            continue       # unreachable: the winding number of a +curve is in {0, 1/2, 1}
        for boundary in (True, False):
            J = Obj("J")
            S = Obj("S", jordans=(J,))
            state = {}

            def hook(rn, ev, call, name, recv, args, kwargs, orient=orient, wind=wind):
                if name == "winding_number":
                    state["center"] = kwargs.get("center", args[1] if len(args) > 1 else None)
                    state["curve"] = args[0] if args else None
                    return wind
                if name == "float" and args and args[0] is J:
                    return float(orient) * 8.0
                return NotImplemented
            try:
                got = Runner(ctx, set(), hook).call_fn(fn, [S, "P", boundary])
            except Undecided as ex:
                out.undecided(fn.qname, f"not interpretable: {ex}", where=fn.where())
                return out
            exp = boundary if want == "boundary" else want
            cell = f"orientation {'+' if orient > 0 else '-'}, winding {wind}, boundary={boundary}"
            if got is not exp and got != exp:
                out.bad(fn.qname, f"wrong membership for {cell}", where=fn.where(),
                        detail=f"returns {got!r}, the documented rule gives {exp!r}")
            elif state.get("center") != "P" or state.get("curve") is not J:
                out.bad(fn.qname, "winding number not taken of the own curve about the query point", where=fn.where())
            else:
                out.ok(fn.qname, f"{cell} -> {exp}", where=fn.where())
    return out


def r02_2(ctx):
    out = Outcome("R02.2", "IntegrateJordan.winding_number: +-1/2 on the boundary according to orientation; otherwise "
                           "round(sum over every segment) about the same centre", floor=8)
    out.exhaustive = True
    fn = ctx.fn("jordancurve.IntegrateJordan.winding_number")
    for orient in (+1, -1):
        for inbox in (True, False):
            for onseg in (None, 0, 1, 2, "ctrl"):
                if onseg is not None and not inbox:
                    continue      # impossible by R17.3
                # "ctrl": the query point is an off-curve control point of a curved segment -- listed among the
                # `vertices` of the curve, in its box, on no segment: an ordinary point, wound round or not
                ends = (Obj("v0"), Obj("v1"), Obj("v2"))
                mids = (Obj("m0"), Obj("m1"), Obj("m2"))
                segs = tuple(Obj(f"s{i}", ctrlpoints=(ends[i], mids[i], ends[(i + 1) % 3]), degree=2, npts=3) for i in range(3))
                contrib = {"s0": Fr(3, 8), "s1": Fr(3, 8), "s2": Fr(21, 100)}    # sum 0.96: rounding, not truncation
                BOX = Obj("BOX")
                J = Obj("J", segments=segs, vertices=(ends[0], mids[0], ends[1], mids[1], ends[2], mids[2]))
                P = mids[0] if onseg == "ctrl" else "P"
                if onseg == "ctrl":
                    onseg = None
                    cellnote = ", the query point an off-curve control point"
                else:
                    cellnote = ""
                calls = []

                class InBox:
                    pass

                def hook(rn, ev, call, name, recv, args, kwargs, orient=orient, inbox=inbox, onseg=onseg):
                    if name == "box" and recv is J:
                        return ContainerTok(lambda p: inbox)
                    if name == "float" and args and args[0] is J:
                        return float(orient) * 8.0
                    if name == "winding_number":
                        calls.append((args[0]._name, args[1] if len(args) > 1 else kwargs.get("center")))
                        return contrib[args[0]._name] * orient
                    if name == "round":
                        return round(args[0])
                    return NotImplemented
                for s_i, s in enumerate(segs):
                    s.__dict__["_contains"] = (onseg == s_i)
                try:
                    rn = Runner(ctx, set(), hook)
                    got = _run_with_contains(rn, fn, [J, P, None])
                except Undecided as ex:
                    out.undecided(fn.qname, f"not interpretable: {ex}", where=fn.where())
                    return out
                cell = f"orientation {'+' if orient > 0 else '-'}, in box={inbox}, on segment={onseg}{cellnote}"
                if onseg is not None:
                    exp = Fr(1, 2) * orient
                    if got != exp:
                        out.bad(fn.qname, f"wrong boundary sentinel for {cell}", where=fn.where(),
                                detail=f"returns {got!r}, required {exp}")
                    else:
                        out.ok(fn.qname, f"{cell} -> {exp}", where=fn.where())
                else:
                    exp = orient
                    seen = sorted(c[0] for c in calls)
                    if seen != ["s0", "s1", "s2"] or any(c[1] is not P and c[1] != P for c in calls):
                        out.bad(fn.qname, "the winding sum does not visit every segment once about the query point",
                                where=fn.where(), detail=f"contributions taken: {calls}")
                    elif got != exp:
                        out.bad(fn.qname, f"wrong winding total for {cell}", where=fn.where(),
                                detail=f"returns {got!r} for contributions summing to {exp}")
                    else:
                        out.ok(fn.qname, f"{cell} -> round(sum of 3 segments) = {exp}", where=fn.where())
    return out


class ContainerTok:
    """stand-in for an object supporting `x in obj`"""

    def __init__(self, pred):
        self.pred = pred

    def __contains__(self, x):
        return self.pred(x)


def _run_with_contains(rn, fn, args):
    """Obj segments answer `center in bezier` from their _contains attribute"""
    def contains(self, x):
        return self.__dict__.get("_contains", False)
    Obj.__contains__ = contains
    try:
        return rn.call_fn(fn, args)
    finally:
        del Obj.__contains__


# ---------------------------------------------------------------------------
def quantifier_rule(ctx, out, qname, kind, coll, callee, forwarded):
    """method `qname` must be  kind x in self.<coll> : x.<callee>(<forwarded params>)"""
    fn = ctx.fn(qname)
    inf = ctx.typer.of(fn)
    qs = pat.quantifiers(fn)
    selfn = fn.params[0]
    qs = [q for q in qs if isinstance(q.iter, ast.Attribute) and q.iter.attr == coll and pat.is_name(q.iter.value, selfn)]
    if not qs:
        anyloop = [lp for lp in pat.loops(fn) if isinstance(lp.iter, ast.Attribute) and lp.iter.attr == coll
                   and pat.is_name(lp.iter.value, selfn)]
        # no recognised quantifier spelling (a helper, a reduce, ...): the fact itself -- the answer is all(...) /
        # any(...) of the sub-objects' answers with the arguments forwarded -- is decided by the abstract run R02.3b
        out.ok(qname, f"no syntactic quantifier over self.{coll}; decided by the exhaustive abstract run (R02.3b)",
               where=fn.where(), nontrivial=False)
        return
    if len(qs) > 1:
        out.undecided(qname, f"{len(qs)} quantifier loops over self.{coll}", where=fn.where())
        return
    q = qs[0]
    var = q.var.id if isinstance(q.var, ast.Name) else None
    call = q.pred
    got_kind = q.kind if not q.negated else ("forall-not" if q.kind == "forall" else "exists-not")
    ok_call = isinstance(call, ast.Call) and isinstance(call.func, ast.Attribute) and pat.is_name(call.func.value, var) \
        and call.func.attr == callee
    # also accept `x in sub` / `sub.contains(x)` forms for shapes: Compare In with the sub-object on the right
    if not ok_call and isinstance(call, ast.Compare) and len(call.ops) == 1 and isinstance(call.ops[0], ast.In) \
            and callee == "contains_shape" and pat.is_name(call.comparators[0], var):
        defs = pat.local_defs(fn)
        a = pat.param_origin(fn, call.left, defs)
        if got_kind != kind:
            out.bad(qname, f"quantifier is '{got_kind}' over self.{coll}, required '{kind}'", where=fn.where(q.node))
        elif [a] != forwarded:
            out.bad(qname, f"nested containment receives {a}, required {forwarded}", where=fn.where(q.node))
        else:
            out.ok(qname, f"{kind} s in self.{coll}: {forwarded[0]} in s", where=fn.where(q.node))
        return
    if not ok_call:
        out.bad(qname, f"the quantified predicate is `{U(call)[:40]}`, required `{var}.{callee}(...)`", where=fn.where(q.node))
        return
    if got_kind != kind:
        out.bad(qname, f"quantifier is '{got_kind}' over self.{coll}, required '{kind}'", where=fn.where(q.node))
        return
    defs = pat.local_defs(fn)
    got = [pat.param_origin(fn, a, defs) for a in call.args] + [pat.param_origin(fn, k.value, defs) for k in call.keywords]
    if got != forwarded:
        out.bad(qname, f"arguments of the nested call are {got}, required the parameters {forwarded} unmodified",
                where=fn.where(call))
        return
    out.ok(qname, f"{kind} s in self.{coll}: s.{callee}({', '.join(forwarded)})", where=fn.where(q.node))


def r02_3(ctx):
    out = Outcome("R02.3", "ConnectedShape contains = forall subshapes, DisjointShape = exists; (point|jordan, boundary) "
                           "forwarded unmodified to every nested query", floor=6)
    quantifier_rule(ctx, out, "shape.ConnectedShape._contains_point", "forall", "subshapes", "contains_point", ["point", "boundary"])
    quantifier_rule(ctx, out, "shape.DisjointShape._contains_point", "exists", "subshapes", "contains_point", ["point", "boundary"])
    quantifier_rule(ctx, out, "shape.ConnectedShape._contains_jordan", "forall", "subshapes", "contains_jordan", ["jordan", "boundary"])
    quantifier_rule(ctx, out, "shape.DisjointShape._contains_jordan", "exists", "subshapes", "contains_jordan", ["jordan", "boundary"])
    # SimpleShape._contains_jordan: every sampled point is tested with the caller's flag (abstract run, see R03.4)
    from rules import C03
    C03.contains_jordan_world(ctx, out, ("flag",))
    # the public wrappers answer exactly what the class-specific query answers for the same (object, flag): abstract
    # run (W) on a shape whose boundary curves have control points that are *not* on the curve (a query point equal to
    # such a control point must not be short-cut to "on the boundary")
    from rules.C16 import PV, point2d
    for name, inner in (("contains_point", "_contains_point"), ("contains_jordan", "_contains_jordan")):
        fn = ctx.fn(f"shape.DefinedShape.{name}")
        ctrl = PV(Fr(1), Fr(1))                      # interior control point of a quadratic arc: outside the disk
        curve = Obj("J", vertices=(PV(Fr(1), Fr(0)), ctrl, PV(Fr(0), Fr(1))), segments=(), kind="JordanCurve")
        verdict = None
        for flag in (True, False):
            for label, arg in (("a point equal to a control point that is not on the curve", PV(Fr(1), Fr(1))),
                               ("an ordinary point", PV(Fr(1, 3), Fr(1, 5)))) if name == "contains_point" else \
                    (("a curve", Obj("K", vertices=(), segments=(), kind="JordanCurve")),):
                S = Obj("S", jordans=(curve,), subshapes=(), kind="SimpleShape")
                asked = []

                def hook(rn, ev, call, cname, recv, args, kwargs):
                    if cname == "isinstance":
                        k = getattr(args[0], "kind", None) if isinstance(args[0], Obj) else None
                        if k is None:
                            return isinstance(args[0], bool) if U(call.args[1]) == "bool" else True
                        return any(n in ctx.model.mro(k) for n in isinstance_names(call, args))
                    if cname == "Point2D":
                        return point2d(*args)
                    if cname == inner and recv is S:
                        asked.append((args, kwargs))
                        return "ANSWER"
                    return NotImplemented
                try:
                    got = Runner(ctx, set(), hook, asserts=True).call_fn(fn, [S, arg, flag])
                except (Undecided, Raised) as ex:
                    verdict = verdict or ("undecided", f"{label}, boundary={flag}: {ex}")
                    continue
                fwd = asked and len(asked[0][0]) >= 1 and (asked[0][0][0] == arg or asked[0][0][0] is arg) and \
                    ((len(asked[0][0]) > 1 and asked[0][0][1] is flag) or asked[0][1].get("boundary") is flag)
                if got != "ANSWER" or not fwd:
                    verdict = ("bad", f"{label}, boundary={flag}: returns {got!r}" + ("" if fwd else
                               f"; self.{inner} received {asked[:1]}"))
        if verdict is None:
            out.ok(fn.qname, f"returns self.{inner}(object, boundary) unchanged", where=fn.where())
        elif verdict[0] == "undecided":
            out.undecided(fn.qname, verdict[1], where=fn.where())
        else:
            out.bad(fn.qname, f"does not return self.{inner}(object, boundary)", where=fn.where(), detail=verdict[1])
    return out


class AdvBox(StandIn):
    """adversarial bounding box of an unbounded region: contains nothing, overlaps nothing"""

    def __contains__(self, x):
        return False

    def __and__(self, o):
        return None

    def __or__(self, o):
        return self

    def __ror__(self, o):
        return self

    def __bool__(self):
        return True


class SubS(StandIn):
    """stand-in subshape: its containment answers are tabulated; its other observables are those of a legitimate
    region of the given signed area -- a bounded one (area > 0) has a box containing every point it contains, an
    unbounded one (a hole) has a box that contains nothing of interest"""

    def __init__(self, name, answer, area=-1.0):
        self.name, self.answer, self.area = name, answer, area
        self.asked = []
        self.jordans = (CurveS(area),)
        self.jordans[0].owner = self

    def _ask(self, *a, **k):
        self.asked.append((a, tuple(sorted(k.items()))))
        return self.answer

    contains_point = contains_jordan = contains_shape = _contains_point = _contains_jordan = _contains_shape = _ask

    def __contains__(self, x):
        return self._ask(x)

    def box(self):
        return AdvBox() if not (self.answer and self.area > 0) else FullBox()

    def __float__(self):
        return float(self.area)

    def __repr__(self):
        return self.name


class CurveS(StandIn):
    def __init__(self, area):
        self.area = area

    def __float__(self):
        return float(3 * self.area)


class FullBox(AdvBox):
    def __contains__(self, x):
        return True

    def __and__(self, o):
        return self


def r02_3b(ctx):
    import itertools
    out = Outcome("R02.3b", "composite membership is *exactly* the quantifier over the subshapes: for every input order of "
                            "three subshapes (stored through the class's own setter) and every truth assignment the "
                            "answer is all(...) / any(...), whatever boxes and areas the subshapes legitimately report, "
                            "and every nested query receives the caller's arguments", floor=4)
    out.exhaustive = True
    class CurveArg(StandIn):
        """the curve asked about: its box meets the box of every region (a box says nothing about which component holds it)"""

        def box(self):
            return FullBox()

        def __repr__(self):
            return "J"
    specs = [("shape.ConnectedShape._contains_point", all, "P"), ("shape.DisjointShape._contains_point", any, "P"),
             ("shape.ConnectedShape._contains_jordan", all, CurveArg()), ("shape.DisjointShape._contains_jordan", any, CurveArg())]
    ihook = (lambda rn, ev, c, n, r, a, k: True if n == "isinstance" else NotImplemented)
    for q, agg, arg in specs:
        fn = ctx.fn(q)
        setter = ctx.model.lookup_setter(fn.cls, "subshapes")
        wrong = []
        fwd_bad = False
        undecided = None
        for areas, answers in itertools.product(((9.0, -4.0, -1.0), (-1.0, -4.0, -9.0)),     # outer + holes / all unbounded
                                                itertools.product((True, False), repeat=3)):
            for perm in itertools.permutations(range(3)):
                for flag in (True, False):
                    subs = [SubS(f"s{i}", answers[i], areas[i]) for i in range(3)]
                    # the box of the composite (the box of its boundary curves) encloses the region only when the region
                    # is bounded: an intersection with one bounded member, a union of bounded members only
                    bounded = any(a > 0 for a in areas) if agg is all else all(a > 0 for a in areas)
                    S = Obj("S")
                    try:
                        if setter is not None:
                            Runner(ctx, set(), ihook, asserts=True).call_fn(setter, [S, [subs[i] for i in perm]])
                            stored = [v for k, v in S.__dict__.items() if k.endswith("subshapes")]
                            if stored:
                                S.__dict__["subshapes"] = stored[0]
                        else:
                            S.__dict__["subshapes"] = tuple(subs[i] for i in perm)
                        S.__dict__["jordans"] = tuple(x.jordans[0] for x in S.__dict__["subshapes"])
                        def winding(a):
                            """the winding number of a member's boundary curve about the (interior) query point, as the
                            member's own answer implies it: 1 / 0 inside / outside a counter-clockwise curve, 0 / -1
                            outside / inside a clockwise one"""
                            own = getattr(a[0], "owner", None) if a else None
                            if own is None:
                                return NotImplemented
                            return (1 if own.answer else 0) if own.area > 0 else (0 if own.answer else -1)
                        got = Runner(ctx, set(), lambda rn, ev, c, n, r, a, k: (
                            (FullBox() if agg(answers) and bounded else AdvBox()) if n == "box" and r is S else
                            sum(areas) if n == "float" and a and a[0] is S else
                            winding(a) if n == "winding_number" and arg == "P" else NotImplemented)).call_fn(fn, [S, arg, flag])
                    except (Undecided, Raised) as ex:
                        undecided = str(getattr(ex, "what", ex))
                        break
                    if got is not agg(answers):
                        wrong.append((answers, perm, flag, got))
                    for x in subs:
                        for (a, k) in x.asked:
                            if not (len(a) >= 1 and a[0] == arg and (len(a) < 2 or a[1] is flag) and
                                    (len(a) >= 2 or dict(k).get("boundary", None) is flag)):
                                fwd_bad = True
                if undecided:
                    break
            if undecided:
                break
        word = "all" if agg is all else "any"
        if undecided:
            out.undecided(q, f"not interpretable: {undecided}", where=fn.where())
        elif wrong:
            a, pm, f, g = wrong[0]
            out.bad(q, f"membership is not {word}(subshape answers)", where=fn.where(),
                    detail=f"{len(wrong)} of 192 cells wrong, e.g. subshapes answer {a}, listed in order "
                           f"{pm}, boundary={f}: returns {g!r} (the box / area of a hole or of the first-listed subshape "
                           f"must not short-cut the decision)")
        elif fwd_bad:
            out.bad(q, "nested queries do not receive the caller's (object, boundary) arguments", where=fn.where())
        else:
            out.ok(q, f"192 cells (2 area worlds x 8 assignments x 6 input orders x 2 flags): result == {word}(answers)",
                   where=fn.where())
    return out


def r02_4(ctx):
    out = Outcome("R02.4", "`x in shape` dispatches shape -> contains_shape, curve -> contains_jordan, otherwise "
                           "contains_point(Point2D(x)) with boundary=True; Empty contains nothing, Whole everything",
                  floor=6)
    fn = ctx.fn("shape.DefinedShape.__contains__")
    for kind, want in (("BaseShape", "contains_shape"), ("JordanCurve", "contains_jordan"), ("tuple", "contains_point")):
        S = Obj("S")
        X = Obj("X:" + kind)
        called = []

        def hook(rn, ev, call, name, recv, args, kwargs, kind=kind):
            if name == "isinstance":
                names = isinstance_names(call, args)
                return kind in names
            if name == "Point2D":
                return ("pt", args[0])
            if recv is S and name in ("contains_shape", "contains_jordan", "contains_point"):
                called.append((name, args, kwargs))
                return "RESULT"
            return NotImplemented
        try:
            got = Runner(ctx, set(), hook).call_fn(fn, [S, X])
        except Undecided as ex:
            out.undecided(fn.qname, f"not interpretable: {ex}", where=fn.where())
            continue
        if got != "RESULT" or len(called) != 1 or called[0][0] != want:
            out.bad(fn.qname, f"`x in shape` with x a {kind} is not answered by {want}", where=fn.where(),
                    detail=f"calls {[c[0] for c in called]}")
        elif want == "contains_point" and (called[0][1] != [("pt", X)] or called[0][2].get("boundary", True) is not True
                                           or len(called[0][1]) > 1):
            out.bad(fn.qname, "point membership via `in` does not use Point2D(x) with the default closed boundary",
                    where=fn.where(), detail=str(called[0]))
        else:
            out.ok(fn.qname, f"{kind} -> {want}", where=fn.where())
    # default of the boundary flag
    for name in ("contains_point", "contains_jordan"):
        f2 = ctx.fn(f"shape.DefinedShape.{name}")
        a = f2.node.args
        names = [p.arg for p in a.args]
        d = dict(zip(names[len(names) - len(a.defaults):], a.defaults))
        ok = "boundary" in d and isinstance(d["boundary"], ast.Constant) and d["boundary"].value is True
        (out.ok if ok else out.bad)(f2.qname, "boundary defaults to True" if ok else "boundary does not default to True",
                                    where=f2.where())
    for cls, want in (("EmptyShape", False), ("WholeShape", True)):
        f3 = ctx.fn(f"shape.{cls}.__contains__")
        S = Obj(cls)
        vals = set()
        for other in (Obj("point"), Obj("othershape")):
            try:
                vals.add(Runner(ctx, set(), None).call_fn(f3, [S, other]))
            except Undecided as ex:
                out.undecided(f3.qname, str(ex), where=f3.where())
        ok = vals == {want}
        (out.ok if ok else out.bad)(f3.qname, f"contains {'everything' if want else 'nothing (but itself)'}" if ok else
                                    f"returns {sorted(map(str, vals))} for foreign objects", where=f3.where())
    return out


def r02_5(ctx):
    o = C10.r10_1(ctx)
    o.rule = "R02.5"
    o.text = "the cached orientation sign used by point membership is never stale (same analysis as R10.1)"
    return o


C02_DISTANCE_SITES = {"curve.PlanarCurve.__contains__": ("compare", "1")}


def r02_6(ctx):
    out = Outcome("R02.6", "the on-curve decision compares a distance (L^1), not a squared distance, with its tolerance",
                  floor=1)
    D = dims(ctx)
    for q, (what, want) in C02_DISTANCE_SITES.items():
        fn = ctx.fn(q)
        keys = [(w, a, b) for (qq, w, a, b, ln, txt) in D.ALL if qq == q]
        dimsfound = sorted({a for (w, a, b) in keys if w == what and b == "C"})
        if not keys:
            # no tolerance comparison at all: either exact (fine) or the test vanished
            cmp_n = D.FN_STATS[q]["compare"]
            if cmp_n == 0:
                out.bad(q, "the point-on-curve test no longer compares a distance with a tolerance", where=fn.where())
            else:
                out.ok(q, "distance decision is homogeneous", where=fn.where())
        elif dimsfound == [want]:
            out.ok(q, f"compares L^{want} (a distance) with the tolerance constant", where=fn.where())
        else:
            out.bad(q, f"the tolerance is compared with a quantity of dimension L^{dimsfound} (a distance is L^1): the "
                       f"effective on-boundary tolerance is not the stated one", where=fn.where())
    return out


def r02_7(ctx):
    from rules import C18
    o = C18.r18_9(ctx)
    o.rule = "R02.7"
    o.text = ("the winding number that decides membership: for a curved boundary segment and a point off the origin it "
              "is the sum of the angles subtended by the consecutive chords, each folded into (-1/2, 1/2] (same "
              "analysis as R18.9)")
    return o


def r02_8(ctx):
    from rules import C17
    o = C17.r17_3(ctx)
    o.rule = "R02.8"
    o.text = ("the boxes used as quick rejects enclose what they stand for: the box of a segment / closed curve / shape contains every point of it, interior extrema of curved pieces included (same analysis as R17.3)")
    return o


RULES = [r02_1, r02_2, r02_3, r02_3b, r02_4, r02_5, r02_6, r02_7, r02_8]
