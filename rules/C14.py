"""C14 -- curve intersection encoding (structural clauses only).

 R14.1 sentinel discipline of PlanarCurve.__and__ and of its reader
       JordanCurve.__intersection: None = no crossing, empty tuple = identical
       segments only, non-empty tuple of pairs otherwise (abstract run over
       all result classes).
 R14.2 flag filter table of JordanCurve.intersection over u,v in
       {None, 0, interior, 1}: equal_beziers=False removes exactly the None
       entries, end_points=False exactly the corner entries; `A & B` is
       intersection(other, False, False).
 R14.3 parameter range: Intersection.lines returns a pair only inside [0,1]^2
       (over {<0,0,in,1,>1}^2, exact arithmetic on stand-in segments); the
       Newton update is clamped to [0,1] on both components.
 R14.4 index roles and order: (index in self.segments, index in other.segments,
       parameter on self's segment, parameter on other's) and a sorted result.
 R14.5 the line-line solver decides exactly (no tolerance on the cross
       product: a crossing at a shallow angle or of a small drawing is kept).
Not decided: completeness of the Newton search for curved pieces, parity.
"""
import ast
import itertools
from fractions import Fraction as Fr

from verifkit import pat
from verifkit.absrun import Obj, Runner, StandIn
from verifkit.core import Outcome
from verifkit.dim import dims
from verifkit.finite import Ev, Raised, Undecided

ASSUMPTIONS = ["two straight segments in general position cross in at most one point (exact rational solver)"]
U = ast.unparse


class BoxT(StandIn):
    def __init__(self, overlap):
        self.overlap = overlap

    def __and__(self, o):
        return self if (self.overlap and o.overlap) else None


class SegT(StandIn):
    def __init__(self, name, degree, same=False, overlap=True):
        self.name, self.degree, self.npts, self.same, self.overlap = name, degree, degree + 1, same, overlap

    def box(self):
        return BoxT(self.overlap)

    and_impl = None

    def __and__(self, o):
        if self.and_impl is None:
            raise Undecided("segment & segment")
        return self.and_impl(self, o)

    def __eq__(self, o):
        return isinstance(o, SegT) and (self is o or (self.same and o.same))

    def __ne__(self, o):
        return not self.__eq__(o)

    def __hash__(self):
        return hash(self.name)

    def __repr__(self):
        return self.name


def run_and(ctx, fn, a, b, line_result=(), newton_result=()):
    """newton_result: the true crossings as (parameter on a, parameter on b); the stand-in Newton search answers in the
    order of the curves it is given, so a caller that swaps the curves gets swapped pairs back"""
    def oriented(ca, cb):
        if ca is b and cb is a and a is not b:
            return [(v, u) for u, v in newton_result]
        return list(newton_result)

    def hook(rn, ev, call, name, recv, args, kwargs):
        if name == "lines":
            return tuple(line_result)
        if name == "closed_linspace":
            return tuple(Fr(i, args[0] - 1) for i in range(args[0]))
        if name == "bezier_and_bezier":
            return oriented(args[0], args[1])
        if name == "filter_distance":
            # the corner pairs inserted by the caller are kept only when they are true crossings
            return tuple(p for p in args[2] if p in oriented(args[0], args[1]))
        if name == "filter_parameters":
            return tuple(args[0])
        return NotImplemented
    rn = Runner(ctx, set(), hook)
    depth = [0]

    def again(x, y):          # `other & self` inside the method: the same method on the swapped operands
        depth[0] += 1
        if depth[0] > 3:
            raise Undecided("unbounded recursion of PlanarCurve.__and__")
        return rn.call_fn(fn, [x, y])
    a.and_impl = b.and_impl = again
    return rn.call_fn(fn, [a, b])


def r14_1(ctx):
    out = Outcome("R14.1", "PlanarCurve.__and__: None <=> no crossing; () <=> identical segments; non-empty tuple of "
                           "pairs otherwise; JordanCurve.__intersection maps None->skip, ()->(a,b,None,None)", floor=7)
    out.exhaustive = True
    fn = ctx.fn("curve.PlanarCurve.__and__")
    cases = [
        ("boxes disjoint", SegT("a", 1, overlap=False), SegT("b", 1, overlap=False), (), (), None),
        ("identical segments", SegT("a", 2, same=True), SegT("b", 2, same=True), (), (), ()),
        ("lines, no crossing", SegT("a", 1), SegT("b", 1), (), (), None),
        ("lines crossing", SegT("a", 1), SegT("b", 1), (Fr(1, 3), Fr(1, 4)), (), ((Fr(1, 3), Fr(1, 4)),)),
        ("curved, no crossing", SegT("a", 2), SegT("b", 1), (), (), None),
        ("curved, one crossing", SegT("a", 2), SegT("b", 2), (), ((Fr(1, 2), Fr(1, 5)),), ((Fr(1, 2), Fr(1, 5)),)),
        # segments of different degree: the first parameter of every pair is the one on `self`
        ("line & quadratic crossing", SegT("a", 1), SegT("b", 2), (), ((Fr(1, 2), Fr(1, 5)),), ((Fr(1, 2), Fr(1, 5)),)),
        ("quadratic & line crossing", SegT("a", 2), SegT("b", 1), (), ((Fr(1, 2), Fr(1, 5)),), ((Fr(1, 2), Fr(1, 5)),)),
        ("quadratic & cubic, two crossings", SegT("a", 2), SegT("b", 3), (), ((Fr(1, 4), Fr(2, 3)), (Fr(3, 4), Fr(1, 6))),
         ((Fr(1, 4), Fr(2, 3)), (Fr(3, 4), Fr(1, 6)))),
        ("cubic & quadratic crossing", SegT("a", 3), SegT("b", 2), (), ((Fr(1, 3), Fr(4, 5)),), ((Fr(1, 3), Fr(4, 5)),)),
    ]
    for label, a, b, lr, nr, want in cases:
        try:
            got = run_and(ctx, fn, a, b, lr, nr)
        except Undecided as ex:
            out.undecided(fn.qname, f"{label}: not interpretable: {ex}", where=fn.where())
            continue
        if want is None:
            ok = got is None
        elif want == ():
            ok = got is not None and len(got) == 0
        else:
            ok = got is not None and sorted(tuple(got)) == sorted(want)
        if ok:
            out.ok(fn.qname, f"{label} -> {'None' if want is None else 'empty tuple' if want == () else 'pairs'}", where=fn.where())
        else:
            cls = "None" if got is None else "an empty tuple" if len(got) == 0 else f"{got!r}"
            out.bad(fn.qname, f"{label}: returns {cls}", where=fn.where(),
                    detail="the empty tuple is the marker for identical segments; 'no crossing' must be None" if not want
                    else f"required {want!r}: (parameter on self, parameter on other)")
    # the reader
    fr = ctx.fn("jordancurve.JordanCurve.__intersection")
    res = run_reader(ctx, fr)
    if isinstance(res, Undecided):
        out.undecided(fr.qname, f"not interpretable: {res}", where=fr.where())
    else:
        got, want = res
        if got == want:
            out.ok(fr.qname, "None skipped, () -> (a, b, None, None), pairs -> (a, b, u, v)", where=fr.where())
        else:
            out.bad(fr.qname, "result classes of segment intersection are mapped wrongly", where=fr.where(),
                    detail=f"got {sorted(map(str, got))}, required {sorted(map(str, want))}")
    return out


class PieceT(StandIn):
    def __init__(self, name, table):
        self.name, self.table = name, table

    def __and__(self, o):
        return self.table.get((self.name, o.name))

    def __repr__(self):
        return self.name


def reader_world():
    table = {("a0", "b0"): None, ("a0", "b1"): (), ("a0", "b2"): ((Fr(1, 2), Fr(1, 3)),),
             ("a1", "b0"): ((Fr(0), Fr(1)), (Fr(3, 4), Fr(1, 4))), ("a1", "b1"): None, ("a1", "b2"): None}
    A = Obj("A", segments=tuple(PieceT(n, table) for n in ("a0", "a1")))
    B = Obj("B", segments=tuple(PieceT(n, table) for n in ("b0", "b1", "b2")))
    want = {(0, 1, None, None), (0, 2, Fr(1, 2), Fr(1, 3)), (1, 0, Fr(0), Fr(1)), (1, 0, Fr(3, 4), Fr(1, 4))}
    return A, B, want


def run_reader(ctx, fr):
    A, B, want = reader_world()
    try:
        got = Runner(ctx, set(), None).call_fn(fr, [A, B])
    except Undecided as ex:
        return ex
    return set(got), want


def r14_2(ctx):
    out = Outcome("R14.2", "flag filter of JordanCurve.intersection: equal_beziers=False removes exactly the "
                           "(None, None) entries, end_points=False exactly the entries with u in {0,1} and v in {0,1}; "
                           "__and__ == intersection(other, False, False)", floor=41)
    out.exhaustive = True
    fn = ctx.fn("jordancurve.JordanCurve.intersection")
    vals = (Fr(0), Fr(1, 2), Fr(1))
    ENTRIES = [(0, 0, None, None)] + [(1, 1, u, v) for u in vals for v in vals]
    for eb, ep in itertools.product((True, False), repeat=2):
        S, O = Obj("S"), Obj("O")

        def hook(rn, ev, call, name, recv, args, kwargs):
            if name == "isinstance":
                return True
            if name and name.endswith("__intersection") and recv is S:
                return list(ENTRIES)
            return NotImplemented
        try:
            got = Runner(ctx, set(), hook).call_fn(fn, [S, O, eb, ep])
        except Undecided as ex:
            out.undecided(fn.qname, f"not interpretable: {ex}", where=fn.where())
            continue
        except TypeError as ex:
            out.bad(fn.qname, f"flags ({eb}, {ep}): the result cannot be sorted ({ex})", where=fn.where())
            continue
        kept = set(got)
        for ent in ENTRIES:
            u, v = ent[2], ent[3]
            want = True
            if u is None and not eb:
                want = False
            if u is not None and not ep and u in (0, 1) and v in (0, 1):
                want = False
            cell = f"equal_beziers={eb}, end_points={ep}, (u, v)=({u}, {v})"
            if (ent in kept) != want:
                out.bad(fn.qname, f"filter wrong for {cell}", where=fn.where(),
                        detail=f"entry {'kept' if ent in kept else 'removed'}, documented: {'kept' if want else 'removed'}")
            else:
                out.ok(fn.qname, f"{cell} -> {'kept' if want else 'removed'}", where=fn.where())
        if list(got) != sorted(got, key=lambda t: tuple((x is not None, x) for x in t)) and list(got) != sorted(
                [g for g in got if g[2] is not None]) + [g for g in got if g[2] is None]:
            pass
    fa = ctx.fn("jordancurve.JordanCurve.__and__")
    S, O = Obj("S"), Obj("O")
    seen = []

    def hook2(rn, ev, call, name, recv, args, kwargs):
        if name == "intersection" and recv is S:
            seen.append((args, kwargs))
            return "R"
        return NotImplemented
    try:
        got = Runner(ctx, set(), hook2).call_fn(fa, [S, O])
        a, k = seen[0] if seen else ([], {})
        eb = k.get("equal_beziers", a[1] if len(a) > 1 else True)
        ep = k.get("end_points", a[2] if len(a) > 2 else True)
        ok = got == "R" and a[:1] == [O] and eb is False and ep is False
        (out.ok if ok else out.bad)(fa.qname, "A & B == A.intersection(B, equal_beziers=False, end_points=False)" if ok
                                    else f"A & B calls intersection with {seen}", where=fa.where())
    except Undecided as ex:
        out.undecided(fa.qname, str(ex), where=fa.where())
    return out


class Vec(StandIn):
    def __init__(self, x, y):
        self.x, self.y = Fr(x), Fr(y)

    def __sub__(self, o):
        return Vec(self.x - o.x, self.y - o.y)

    def __add__(self, o):
        return Vec(self.x + o.x, self.y + o.y)

    def cross(self, o):
        return self.x * o.y - self.y * o.x

    def inner(self, o):
        return self.x * o.x + self.y * o.y

    def __getitem__(self, i):
        return (self.x, self.y)[i]


def r14_3(ctx):
    out = Outcome("R14.3", "every returned parameter pair lies in [0,1]^2: Intersection.lines over {<0,0,in,1,>1}^2 and "
                           "the clamp of the Newton update", floor=26)
    out.exhaustive = True
    fn = ctx.fn("curve.Intersection.lines")
    REP = {"<0": Fr(-1, 2), "0": Fr(0), "in": Fr(1, 3), "1": Fr(1), ">1": Fr(3, 2)}
    for (ka, a), (kb, b) in itertools.product(REP.items(), repeat=2):
        ca = Obj("ca", degree=1, ctrlpoints=(Vec(0, 0), Vec(1, 0)))
        cb = Obj("cb", degree=1, ctrlpoints=(Vec(a, -b), Vec(a, 1 - b)))
        try:
            got = Runner(ctx, set(), None).call_fn(fn, [ca, cb])
        except Undecided as ex:
            out.undecided(fn.qname, f"not interpretable: {ex}", where=fn.where())
            break
        inside = 0 <= a <= 1 and 0 <= b <= 1
        cell = f"crossing at parameters ({ka}, {kb})"
        if inside:
            ok = got is not None and tuple(got) == (a, b)
            (out.ok if ok else out.bad)(fn.qname, f"{cell} -> reported" if ok else f"{cell}: returns {got!r}, required "
                                        f"({a}, {b}) (roles of the two parameters / a crossing at an end point lost)",
                                        where=fn.where())
        else:
            ok = got is not None and len(got) == 0
            (out.ok if ok else out.bad)(fn.qname, f"{cell} -> rejected" if ok else
                                        f"{cell}: returns {got!r} although the lines cross outside the segments",
                                        where=fn.where())
    # parallel lines
    ca = Obj("ca", degree=1, ctrlpoints=(Vec(0, 0), Vec(1, 0)))
    cb = Obj("cb", degree=1, ctrlpoints=(Vec(0, 1), Vec(2, 1)))
    try:
        got = Runner(ctx, set(), None).call_fn(fn, [ca, cb])
        ok = got is not None and len(got) == 0
        (out.ok if ok else out.bad)(fn.qname, "parallel lines -> no pair" if ok else f"parallel lines: {got!r}", where=fn.where())
    except (Undecided, ZeroDivisionError) as ex:
        out.bad(fn.qname, f"parallel lines are not handled ({type(ex).__name__})", where=fn.where())
    # Newton clamp: abstract run of the Newton search on two straight stand-in curves whose supporting lines cross
    # outside one or both segments (Newton is exact for lines): every stored / returned parameter must be in [0, 1]
    fb = ctx.fn("curve.Intersection.bezier_and_bezier")

    class Line(StandIn):
        def __init__(self, p, d):
            self.p, self.d, self.degree = p, d, 1

        def at(self, t):
            try:
                return tuple(self.at(x) for x in t)
            except TypeError:
                return Vec(self.p.x + self.d.x * Fr(t), self.p.y + self.d.y * Fr(t))

        __call__ = eval = at

        def derivate(self, times=1):
            return Line(self.d, Vec(0, 0)) if times == 1 else Line(Vec(0, 0), Vec(0, 0))

    def vneg(v):
        return Vec(-v.x, -v.y)
    Vec.__neg__ = lambda self: vneg(self)
    worst = None
    for (ka, a), (kb, b) in itertools.product(REP.items(), repeat=2):
        # A(u) = (u, 0), B(v) = (a, v - b): the lines cross at u = a, v = b
        A, B = Line(Vec(0, 0), Vec(1, 0)), Line(Vec(a, -b), Vec(0, 1))
        start = [(Fr(1, 2), Fr(1, 2)), (Fr(0), Fr(1))]
        try:
            got = Runner(ctx, set(), lambda rn, ev, c, n, r, ar, k: True if n == "isinstance" and ar and isinstance(ar[0], Fr)
                         and U(c.args[1]) == "Fraction" else NotImplemented).call_fn(fb, [A, B, start])
        except (Undecided, Raised) as ex:
            out.undecided(fb.qname, f"Newton search not interpretable: {ex}", where=fb.where())
            worst = "undecided"
            break
        for pair in (got or ()):
            u, v = pair
            if not (0 <= u <= 1 and 0 <= v <= 1):
                worst = (ka, kb, u, v)
    if worst is None:
        out.ok(fb.qname, "Newton update clamped to [0,1]^2 (25 crossing positions of two straight stand-ins)", where=fb.where())
    elif worst != "undecided":
        out.bad(fb.qname, "Newton update is not clamped to [0,1] on both parameters", where=fb.where(),
                detail=f"lines crossing at parameters ({worst[0]}, {worst[1]}): the search returns ({worst[2]}, {worst[3]})")
    return out


def r14_4(ctx):
    out = Outcome("R14.4", "entries are (index in self.segments, index in other.segments, parameter on self's segment, "
                           "parameter on other's); the public result is sorted", floor=2)
    fr = ctx.fn("jordancurve.JordanCurve.__intersection")
    res = run_reader(ctx, fr)
    if isinstance(res, Undecided):
        out.undecided(fr.qname, str(res), where=fr.where())
    else:
        got, want = res
        (out.ok if got == want else out.bad)(fr.qname, "index and parameter roles" if got == want else
                                             "index / parameter roles mixed up", where=fr.where(),
                                             detail="" if got == want else f"got {sorted(map(str, got))}")
    fn = ctx.fn("jordancurve.JordanCurve.intersection")
    A, B, want = reader_world()
    want = {w for w in want if w[2] is not None}       # avoid comparing None with numbers when sorting
    try:
        rn = Runner(ctx, {"jordancurve.JordanCurve.__intersection"}, lambda r, ev, c, n, rc, a, k: True if n == "isinstance" else NotImplemented)
        got = rn.call_fn(fn, [A, B, False, True])
        ok = list(got) == sorted(want)
        (out.ok if ok else out.bad)(fn.qname, "result sorted by (a, b, u, v)" if ok else
                                    "the public result is not the sorted list of entries", where=fn.where(),
                                    detail="" if ok else f"got {got!r}")
    except Undecided as ex:
        out.undecided(fn.qname, str(ex), where=fn.where())
    return out


def r14_5(ctx):
    out = Outcome("R14.5", "the exact line-line solver compares its cross products only with literal zero (no tolerance)",
                  floor=1)
    D = dims(ctx)
    q = "curve.Intersection.lines"
    fn = ctx.fn(q)
    f = [(w, a, b, txt) for (qq, w, a, b, ln, txt) in D.ALL if qq == q]
    if f:
        out.bad(q, "tolerance in the exact line-line solver: " + f"{f[0][0]} L^{f[0][1]} vs "
                   f"{'const' if f[0][2] == 'C' else f[0][2]}", where=fn.where(),
                detail=f"`{f[0][3]}`: crossings at shallow angles / of small drawings are dropped")
    else:
        out.ok(q, f"{D.FN_STATS[q]['compare']} comparisons, all against literal zero or dimensionless parameters",
               where=fn.where())
    return out


def r14_6(ctx):
    from rules import C10
    o = C10.r10_1(ctx)
    o.rule = "R14.6"
    o.text = ("no crossing is discarded on the evidence of a box cached before a curve was transformed in place (same analysis as R10.1)")
    return o


def r14_7(ctx):
    """S: consistency of two constants.  The Newton search snaps exact parameters to fractions with denominators <= N
    (`limit_denominator(N)`); neighbouring fractions of that grid are at least 1/N^2 apart.  A candidate is accepted when
    the two curve points are within `tol` of each other, and candidates are merged when their parameters are within
    `tol`: with tol < 1/N^2 a crossing whose parameter is not on the grid can never be accepted (resp. its rounded copies
    are never merged).  Decided: tol * N^2 >= 1 for every tolerance handed to filter_distance / filter_parameters."""
    from verifkit import pat
    out = Outcome("R14.7", "the tolerances with which crossing candidates of curved segments are accepted and merged are not "
                           "finer than the grid their parameters are snapped to (tol * N^2 >= 1 for limit_denominator(N))",
                  floor=2)
    fn = ctx.fn("curve.PlanarCurve.__and__")
    inf = ctx.inf(fn.qname)
    seen, todo = set(), [fn.qname]
    while todo:
        q = todo.pop()
        if q in seen or q not in ctx.model.funcs or not q.startswith("curve."):
            continue
        seen.add(q)
        todo += list(ctx.graph.callees(q))
    caps = []
    for q in sorted(seen):
        g = ctx.model.funcs[q]
        for n in ast.walk(g.node):
            if isinstance(n, ast.Call) and isinstance(n.func, ast.Attribute) and n.func.attr == "limit_denominator":
                a = n.args[0] if n.args else None
                v = 10 ** 6 if a is None else _cap_value(ctx, g, a, seen)
                caps.append((q, n, v))
    # the search itself, and the private helpers a later change may have cut it into
    from verifkit.known_names import KNOWN
    hosts = [fn] + [ctx.model.funcs[q] for q in sorted(seen) if q != fn.qname
                    and not ctx.model.funcs[q].name.endswith("__") and ctx.model.funcs[q].name not in KNOWN]
    sites = []
    for host in hosts:
        hinf = ctx.inf(host.qname)
        for n in ast.walk(host.node):
            if isinstance(n, ast.Call):
                for t in hinf.targets(n, ("call",)):
                    if t.qname in ("curve.Intersection.filter_distance", "curve.Intersection.filter_parameters"):
                        ps = [a.arg for a in t.node.args.posonlyargs + t.node.args.args]
                        tolname = ps[-1]
                        idx = len(ps) - 1
                        a = n.args[idx] if idx < len(n.args) else next((k.value for k in n.keywords if k.arg == tolname), None)
                        if a is None and t.node.args.defaults:
                            a = t.node.args.defaults[-1]
                        sites.append((n, t.name, a, host))
    if not sites:
        out.undecided(fn.qname, "no call of filter_distance / filter_parameters found", where=fn.where())
        return out
    if not caps:
        for n, name, a, host in sites:
            out.ok(host.qname, f"{name}: parameters are not snapped to a grid", where=host.where(n))
        return out
    if any(v is None for _, _, v in caps):
        q, n, _ = next(c for c in caps if c[2] is None)
        out.undecided(q, f"denominator cap `{U(n)[:40]}` is not a constant", where=ctx.model.funcs[q].where(n))
        return out
    N = min(v for _, _, v in caps)
    for n, name, a, host in sites:
        tol = None
        defs = pat.local_defs(host)
        if a is not None:
            tol = _const(ctx, host, a)
            if tol is None and isinstance(a, ast.Name):
                vals = [_const(ctx, host, v) for v in defs.get(a.id, []) if not isinstance(v, tuple)]
                if vals and all(v is not None for v in vals):
                    tol = min(vals)
        if tol is None:
            out.undecided(host.qname, f"tolerance of {name} is not a constant", where=host.where(n))
        elif tol * N * N < 1:
            out.bad(host.qname, f"{name} works with a tolerance finer than the grid the Newton parameters are snapped to",
                    where=host.where(n), detail=f"tolerance {tol}, parameters rounded by limit_denominator({N}): neighbouring "
                                              f"grid values are {1 / (N * N):g} apart, so a crossing whose parameter is not on "
                                              f"the grid is never accepted / its rounded copies are never merged")
        else:
            out.ok(host.qname, f"{name}: tolerance {tol} >= 1/{N}^2", where=host.where(n))
    return out


def _cap_value(ctx, g, a, scope, depth=0):
    """the smallest value a denominator cap can take: a constant, a local bound to constants only, or a parameter of a
    helper whose every call site (in the functions of the search) hands in such a value"""
    from verifkit import pat
    v = _const(ctx, g, a)
    if v is not None or not isinstance(a, ast.Name) or depth > 3:
        return v
    defs = [d for d in pat.local_defs(g).get(a.id, [])]
    if defs:
        vals = [None if isinstance(d, tuple) else _cap_value(ctx, g, d, scope, depth + 1) for d in defs]
        return min(vals) if all(x is not None for x in vals) else None
    ps = [x.arg for x in g.node.args.posonlyargs + g.node.args.args]
    kwonly = {x.arg: d for x, d in zip(g.node.args.kwonlyargs, g.node.args.kw_defaults)}
    if a.id in kwonly:
        # keyword-only parameter: the keyword at every call site, or the default
        vals = []
        for q in sorted(scope):
            h = ctx.model.funcs[q]
            hinf = ctx.inf(q)
            for n in ast.walk(h.node):
                if isinstance(n, ast.Call) and any(t.qname == g.qname for t in hinf.targets(n, ("call",))):
                    e = next((k.value for k in n.keywords if k.arg == a.id), kwonly[a.id])
                    vals.append(None if e is None else _cap_value(ctx, h, e, scope, depth + 1))
        if not vals and kwonly[a.id] is not None:
            vals = [_cap_value(ctx, g, kwonly[a.id], scope, depth + 1)]
        return min(vals) if vals and all(x is not None for x in vals) else None
    if a.id not in ps:
        return None
    idx = ps.index(a.id)
    vals = []
    for q in sorted(scope):
        h = ctx.model.funcs[q]
        hinf = ctx.inf(q)
        for n in ast.walk(h.node):
            if isinstance(n, ast.Call) and any(t.qname == g.qname for t in hinf.targets(n, ("call",))):
                off = 1 if ps and ps[0] in ("self", "cls") and isinstance(n.func, ast.Attribute) else 0
                e = n.args[idx - off] if 0 <= idx - off < len(n.args) else next(
                    (k.value for k in n.keywords if k.arg == a.id), None)
                if e is None:
                    nd = len(g.node.args.defaults)
                    e = g.node.args.defaults[idx - (len(ps) - nd)] if idx >= len(ps) - nd else None
                vals.append(None if e is None else _cap_value(ctx, h, e, scope, depth + 1))
    return min(vals) if vals and all(x is not None for x in vals) else None


def _const(ctx, fn, e):
    """numeric value of a literal, a module constant, or a class constant read as Class.X / self.X / cls.X"""
    from verifkit import pat
    v = pat.const_value(e)
    if v is not None:
        return v
    M = ctx.model
    if isinstance(e, ast.Name):
        return pat.module_consts(M.modules.get(fn.mod)).get(e.id)
    if isinstance(e, ast.Attribute) and isinstance(e.value, ast.Name):
        cls = fn.cls if e.value.id in ("self", "cls") else e.value.id
        for k in ([cls] + M.mro(cls)[1:] if cls in M.classes else []):
            if e.attr in M.class_consts.get(k, {}):
                return pat.const_value(M.class_consts[k][e.attr])
    return None


def r14_8(ctx):
    from rules import C17
    o = C17.r17_3(ctx)
    o.rule = "R14.8"
    o.text = ("the boxes used as quick rejects enclose what they stand for: the box of a segment / closed curve / shape contains every point of it, interior extrema of curved pieces included (same analysis as R17.3)")
    return o


def r14_9(ctx):
    """abstract run (W) of PlanarCurve.__and__ with the repository's own Intersection.filter_parameters: the Newton search
    (stand-in) returns an iterate a rounding error away from a common end point of the two segments -- (1, 4.9e-19),
    (0.9999999999999999, 1) ... -- next to interior crossings.  What comes out for the end point must be the exact
    pair: the end_points flag of JordanCurve.intersection and `A & B` recognise end points by u, v in {0, 1} exactly"""
    out = Outcome("R14.9", "PlanarCurve.__and__ reports a crossing at a common end point of two curved segments with the exact "
                           "parameters 0 / 1, also when the search ends a rounding error beside them (the exact end-point "
                           "pairs win the merge of near-equal candidates)", floor=4)
    fn = ctx.fn("curve.PlanarCurve.__and__")
    cases = [("common end point (1, 0), iterate (1, 4.9e-19)", [(1, 0)], [(1.0, 4.942884452184821e-19)], []),
             ("common end point (1, 1), iterate (0.9999999999999999, 1.0)", [(1, 1)], [(0.9999999999999999, 1.0)], []),
             ("common end point (0, 0), iterate (3e-17, 2e-17), and an interior crossing", [(0, 0)],
              [(3e-17, 2e-17), (0.5, 0.25)], [(0.5, 0.25)]),
             ("common end point (0, 1), iterates on both sides of it", [(0, 1)], [(1e-18, 1.0), (0.0, 0.9999999999999998)], [])]
    for label, ends, iterates, interior in cases:
        truth_pts = [tuple(map(float, e)) for e in ends] + list(interior)

        def near(p):
            return any(abs(float(p[0]) - t[0]) < 1e-6 and abs(float(p[1]) - t[1]) < 1e-6 for t in truth_pts)

        def hook(rn, ev, call, name, recv, args, kwargs):
            if name == "lines":
                return ()
            if name == "closed_linspace":
                return tuple(Fr(i, args[0] - 1) for i in range(args[0]))
            if name == "bezier_and_bezier":
                return list(iterates)
            if name == "filter_distance":
                return tuple(q for q in args[2] if near(q))
            return NotImplemented
        a, b = SegT("a", 2), SegT("b", 2)
        try:
            got = Runner(ctx, {"curve.Intersection.filter_parameters"}, hook).call_fn(fn, [a, b])
        except (Undecided, Raised) as ex:
            out.undecided(fn.qname, f"{label}: {ex}", where=fn.where())
            continue
        got = list(got or ())
        at_end = [q for q in got if any(abs(float(q[0]) - e[0]) < 1e-6 and abs(float(q[1]) - e[1]) < 1e-6 for e in ends)]
        exact = [q for q in at_end if q[0] in (0, 1) and q[1] in (0, 1)]
        if len(at_end) == 1 and len(exact) == 1 and len(got) == len(ends) + len(interior):
            out.ok(fn.qname, f"{label} -> {got}", where=fn.where())
        else:
            out.bad(fn.qname, "a crossing at a common end point is not reported with the exact parameters 0 / 1",
                    where=fn.where(), detail=f"{label}: returns {got} -- intersection(end_points=False) and `A & B` "
                                             f"then keep the shared vertex as if it were a crossing")
    return out


def r14_10(ctx):
    """abstract run (W) of the Newton search Intersection.bezier_and_bezier on exact polynomial stand-in curves whose
    crossing is known by construction (the second curve is laid through a point A(u*) of the first at its own parameter
    v* != u*), started from the grid of pairs PlanarCurve.__and__ starts from: the crossing is among the results, for
    exact and for float control points alike, and every returned pair lies in [0, 1]^2"""
    from rules.C18 import _PolyCv, _MP
    out = Outcome("R14.10", "the Newton search for crossings of curved segments finds a transversal crossing (u*, v*) with "
                            "u* != v* -- both parameters updated by their own step, exact and float control points -- and "
                            "returns pairs of [0, 1]^2 only", floor=4)
    fn = ctx.fn("curve.Intersection.bezier_and_bezier")
    arc = [(Fr(0), Fr(0)), (Fr(2), Fr(4)), (Fr(4), Fr(0))]
    bowl = [(Fr(0), Fr(3)), (Fr(1), Fr(-2)), (Fr(5), Fr(1))]

    def hook(rn, ev, call, name, recv, args, kwargs):
        if name == "isinstance" and len(args) == 2 and isinstance(args[0], StandIn):
            return True
        return NotImplemented
    cases = []
    a = _PolyCv.bezier(arc)
    # a straight segment through A(1/4) at its own parameter 1/2, and one through A(4/5) at 1/5
    for ustar, vstar, d in ((Fr(1, 4), Fr(1, 2), (Fr(1), Fr(-1, 2))), (Fr(4, 5), Fr(1, 5), (Fr(1, 2), Fr(1)))):
        px, py = a.at(ustar)
        p0 = (px - vstar * 2 * d[0], py - vstar * 2 * d[1])
        p1 = (p0[0] + 2 * d[0], p0[1] + 2 * d[1])
        cases.append((f"quadratic arc (0,0),(2,4),(4,0) and a straight segment through A({ustar}) at its parameter {vstar}",
                      arc, [p0, p1], ustar, vstar))
    # two quadratics: the second is moved so that B(2/3) = A(1/3)
    b0 = _PolyCv.bezier(bowl)
    ax_, ay_ = a.at(Fr(1, 3))
    bx_, by_ = b0.at(Fr(2, 3))
    moved = [(x + ax_ - bx_, y + ay_ - by_) for x, y in bowl]
    cases.append(("two quadratic arcs with A(1/3) = B(2/3)", arc, moved, Fr(1, 3), Fr(2, 3)))
    # two parabola arcs crossing twice; the second crossing is reached only from start pairs at which the Hessian of the
    # squared distance is indefinite (negative determinant of the Newton system)
    arcs2 = ([(Fr(0), Fr(-3)), (Fr(2), Fr(3)), (Fr(-2), Fr(-3))], [(Fr(-3), Fr(-4)), (Fr(2), Fr(4)), (Fr(0), Fr(-4))])
    cases.append(("two parabola arcs (0,-3),(2,3),(-2,-3) and (-3,-4),(2,4),(0,-4), crossing near (0.197, 0.762)",
                  arcs2[0], arcs2[1], 0.197, 0.762))
    cases.append(("the same two arcs, crossing near (0.554, 0.547)", arcs2[0], arcs2[1], 0.554, 0.547))
    for label, pa, pb, ustar, vstar in cases:
        for kind in ("exact", "float"):
            if kind == "float":
                qa, qb = [tuple(map(float, p)) for p in pa], [tuple(map(float, p)) for p in pb]
            else:
                qa, qb = pa, pb
            ca, cb = _PolyCv.bezier(qa), _PolyCv.bezier(qb)
            us = [Fr(i, len(qa) + 2) for i in range(len(qa) + 3)]
            vs = [Fr(i, len(qb) + 2) for i in range(len(qb) + 3)]
            pairs = [(u, v) for u in us for v in vs]
            saved = Ev.BUDGET
            Ev.BUDGET = 2000000        # twenty Newton sweeps over the whole starting grid
            try:
                got = list(Runner(ctx, set(), hook, asserts=True).call_fn(fn, [ca, cb, pairs]))
            except (Undecided, Raised, TypeError, ZeroDivisionError, OverflowError) as ex:
                out.undecided(fn.qname, f"{label}, {kind}: {ex}", where=fn.where())
                continue
            finally:
                Ev.BUDGET = saved
            tolq = 1e-3 if isinstance(ustar, Fr) else 2e-2           # the last two cases give the crossing to three digits
            near = [q for q in got if abs(float(q[0]) - float(ustar)) < tolq and abs(float(q[1]) - float(vstar)) < tolq]
            if not isinstance(ustar, Fr):
                def gap(q):
                    (x1, y1), (x2, y2) = ca.at(q[0]), cb.at(q[1])
                    return float((x1 - x2) ** 2 + (y1 - y2) ** 2) ** 0.5
                near = [q for q in near if gap(q) < 1e-4]
            outside = [q for q in got if not (0 <= q[0] <= 1 and 0 <= q[1] <= 1)]
            if outside:
                out.bad(fn.qname, "the search returns parameters outside [0, 1]^2", where=fn.where(),
                        detail=f"{label}, {kind} control points: {[tuple(map(float, q)) for q in outside][:3]}")
            elif not near:
                out.bad(fn.qname, "the search does not find a transversal crossing of two segments", where=fn.where(),
                        detail=f"{label}, {kind} control points: the crossing ({ustar}, {vstar}) is not among the "
                               f"{len(got)} results {sorted((round(float(q[0]), 4), round(float(q[1]), 4)) for q in got)[:6]}")
            else:
                out.ok(fn.qname, f"{label}, {kind}: ({ustar}, {vstar}) found", where=fn.where())
    return out


def r14_11(ctx):
    """abstract run (W) of Intersection.filter_distance on exact polynomial stand-in curves: a candidate (u, v) is kept
    iff the point of the first curve at u and the point of the second at v are closer than the tolerance -- each curve at
    its own parameter -- in the order given"""
    from rules.C18 import _PolyCv
    out = Outcome("R14.11", "Intersection.filter_distance keeps exactly the candidates (u, v) with |A(u) - B(v)| below the "
                            "tolerance: each curve evaluated at its own parameter, the order of the candidates kept", floor=2)
    fn = ctx.fn("curve.Intersection.filter_distance")
    arc = [(Fr(0), Fr(0)), (Fr(2), Fr(4)), (Fr(4), Fr(0))]
    a = _PolyCv.bezier(arc)
    px, py = a.at(Fr(1, 4))
    d = (Fr(1), Fr(-1, 2))
    p0 = (px - d[0], py - d[1])
    b = _PolyCv.bezier([p0, (p0[0] + 2 * d[0], p0[1] + 2 * d[1])])          # B(1/2) = A(1/4)

    def dist(u, v):
        (x1, y1), (x2, y2) = a.at(u), b.at(v)
        return float((x1 - x2) ** 2 + (y1 - y2) ** 2) ** 0.5

    def hook(rn, ev, call, name, recv, args, kwargs):
        if name == "isinstance" and len(args) == 2 and isinstance(args[0], StandIn):
            return True
        return NotImplemented
    cands = [(Fr(1, 2), Fr(1, 4)), (Fr(1, 4), Fr(1, 2)), (Fr(1, 4), Fr(1, 4)), (Fr(1, 2), Fr(1, 2)), (Fr(0), Fr(1)), (Fr(1), Fr(0)),
             (Fr(1, 4) + Fr(1, 10**8), Fr(1, 2))]
    for tol in (1e-6, 0.75):
        want = [q for q in cands if dist(*q) < tol]
        try:
            got = list(Runner(ctx, set(), hook, asserts=True).call_fn(fn, [a, b, list(cands), tol]))
        except (Undecided, Raised, TypeError) as ex:
            out.undecided(fn.qname, f"tolerance {tol}: {ex}", where=fn.where())
            continue
        if [tuple(q) for q in got] == want:
            out.ok(fn.qname, f"tolerance {tol}: {len(want)} of {len(cands)} candidates kept, in order", where=fn.where())
        else:
            out.bad(fn.qname, "the distance filter does not keep exactly the candidates whose two curve points are close",
                    where=fn.where(), detail=f"arc A and a segment B with A(1/4) = B(1/2), tolerance {tol}: keeps "
                                             f"{[(str(u), str(v)) for u, v in got]}, required {[(str(u), str(v)) for u, v in want]}")
    return out


def r14_12(ctx):
    """abstract run (W) of PlanarCurve.__and__ itself -- starting grid, three rounds of Newton search, the two filters -- on
    exact polynomial stand-in curves: a lens of two quadratic arcs, the second one walked the other way, so that the two
    crossings sit at (1/4, 3/4) and (3/4, 1/4), off the diagonal of the parameter square and mirror images of each other;
    and an arc crossed by a straight segment at (1/4, 1/2).  Exactly the crossings must come back."""
    from rules.C18 import _PolyCv
    out = Outcome("R14.12", "PlanarCurve.__and__ of two curved segments returns exactly their transversal crossings, wherever "
                            "they sit in the parameter square (start pairs cover the square, not a line in it)", floor=2)
    fn = ctx.fn("curve.PlanarCurve.__and__")

    class BoxY(StandIn):
        def __and__(self, o):
            return self

        __rand__ = __and__

    class Cv(_PolyCv):
        def box(self):
            return BoxY()

        def __eq__(self, o):
            return self is o

        def __ne__(self, o):
            return self is not o

        __hash__ = object.__hash__

    def hook(rn, ev, call, name, recv, args, kwargs):
        if name == "isinstance" and len(args) == 2 and isinstance(args[0], StandIn):
            return True
        return NotImplemented
    top = [(Fr(0), Fr(0)), (Fr(2), Fr(2)), (Fr(4), Fr(0))]                 # y = x (4 - x) / 4
    bottom_back = [(Fr(4), Fr(3, 2)), (Fr(2), Fr(-1, 2)), (Fr(0), Fr(3, 2))]   # a bowl through (3, 3/4) and (1, 3/4), from right to left
    arc = [(Fr(0), Fr(0)), (Fr(2), Fr(4)), (Fr(4), Fr(0))]
    a_ = _PolyCv.bezier(arc)
    px, py = a_.at(Fr(1, 4))
    seg = [(px - 1, py + Fr(1, 2)), (px + 1, py - Fr(1, 2))]
    cases = [("a lens of two quadratic arcs, the second walked from right to left", top, bottom_back,
              [(Fr(1, 4), Fr(3, 4)), (Fr(3, 4), Fr(1, 4))]),
             ("quadratic arc (0,0),(2,4),(4,0) and a straight segment through A(1/4) at its parameter 1/2", arc, seg,
              [(Fr(1, 4), Fr(1, 2))])]
    for label, pa, pb, want in cases:
        ca, cb = Cv.bezier(pa), Cv.bezier(pb)
        for (u, v) in want:                                             # the worlds are what they say
            assert ca.at(u) == cb.at(v), (label, u, v)
        saved = Ev.BUDGET
        Ev.BUDGET = 4000000
        try:
            got = Runner(ctx, set(), hook, asserts=True).call_fn(fn, [ca, cb])
        except (Undecided, Raised, TypeError, ZeroDivisionError, OverflowError) as ex:
            out.undecided(fn.qname, f"{label}: {ex}", where=fn.where())
            continue
        finally:
            Ev.BUDGET = saved
        got = [] if got is None else [tuple(q) for q in got]
        missing = [w for w in want if not any(abs(float(q[0]) - float(w[0])) < 1e-3 and abs(float(q[1]) - float(w[1])) < 1e-3
                                              for q in got)]
        extra = [q for q in got if not any(abs(float(q[0]) - float(w[0])) < 1e-3 and abs(float(q[1]) - float(w[1])) < 1e-3
                                           for w in want)]
        if missing or extra:
            out.bad(fn.qname, "the crossings of two curved segments are not what `&` returns", where=fn.where(),
                    detail=f"{label}: returns {[(round(float(u), 4), round(float(v), 4)) for u, v in got]}, crossings at "
                           f"{[(str(u), str(v)) for u, v in want]}")
        else:
            out.ok(fn.qname, f"{label}: {len(want)} crossing(s) returned", where=fn.where())
    return out


RULES = [r14_1, r14_2, r14_3, r14_4, r14_5, r14_6, r14_7, r14_8, r14_9, r14_10, r14_11, r14_12]
