"""C13 -- rational input gives exact rational output (engine X).

 R13.1 no Float source and no rounded rational reaches an exact sink (stored
       coordinates / control points, constructor arguments of the geometric
       classes, returned parameters and integrals) on the rational /
       straight-segment paths: the frozen entry table of verifkit/exact.py plus
       its callee closure.  Floats may flow into predicates and float-by-nature
       results (length, rotation, float()).
 R13.3 no intermediate point value passes through the capped constructor in the
       middle of an exact computation (verifkit/capflow.py): non-in-place Point2D
       operators copy their operand through Point2D.__init__, which rounds to the
       cap; on the exact paths their receiver is never a derived value.
 R13.2 the Fraction API receives ints: every argument of Fraction(...) and
       limit_denominator(...) is exact, and the documented cap of stored
       coordinates is an int >= 10**9 applied only in Point2D.__init__.
Trusted base: numpy on object arrays (dot / inner / prod) and pynurbs
(open_newton_cotes, Curve.split, knot operations) preserve Fractions.
"""
from verifkit.core import Outcome
from verifkit.exact import exactness, EXACT
from verifkit.model import AnalysisError

ASSUMPTIONS = [
    "numpy dot/inner/prod on object arrays and pynurbs (open_newton_cotes, Curve.split, knot operations) preserve "
    "Fractions (spot-checked, trusted base)",
    "int and Fraction arithmetic (+ - * and / on Fractions) is exact; Point2D normalises ints to Fractions",
]


def _collect(ctx):
    E = exactness(ctx)
    if E.missing:
        raise AnalysisError(f"exact-path anchors vanished: {E.missing}")
    return E


def r13_1(ctx):
    E = _collect(ctx)
    out = Outcome("R13.1", "no float and no limit_denominator-rounded value reaches a stored coordinate, a constructor "
                           "argument or a returned value on the rational / straight-segment paths", floor=50)
    bad = {}
    for (q, ln, fact, txt) in E.findings:
        if "Fraction API" in fact or "cap" in fact:
            continue
        bad.setdefault((q, fact), []).append((ln, txt))
    flagged = set()
    for (q, fact), occ in sorted(bad.items()):
        fn = ctx.model.funcs[q]
        flagged.add(q)
        out.bad(q, fact, where=f"{fn.path}:{occ[0][0]}", detail=f"`{occ[0][1]}`")
    for q in E.analysed:
        if q not in flagged:
            out.ok(q, "exact sinks receive exact values only", where=ctx.model.funcs[q].where(), nontrivial=q in EXACT)
    out.note(f"{len(E.analysed)} functions analysed ({len(EXACT)} frozen entries + callee closure), {E.sinks} sinks")
    return out


def r13_2(ctx):
    E = _collect(ctx)
    out = Outcome("R13.2", "Fraction constructors / limit_denominator receive exact arguments; the coordinate cap is an "
                           "int >= 10**9", floor=1)
    n = 0
    for (q, ln, fact, txt) in E.findings:
        if "Fraction API" in fact or "cap" in fact:
            fn = ctx.model.funcs[q]
            n += 1
            key = "limit_denominator receives the float 1e9" if "limit_denominator" in fact and "float" in fact else fact
            if (q, key) in {(i.construct, i.fact) for i in out.instances}:
                continue
            out.bad(q, key, where=f"{fn.path}:{ln}", detail=f"`{txt}`")
    fn = ctx.fn("polygon.Point2D.__init__")
    if not any(i.construct == fn.qname for i in out.instances):
        out.ok(fn.qname, "coordinate cap is an exact int >= 10**9", where=fn.where())
    return out


def r13_3(ctx):
    from verifkit.capflow import capflow
    E = _collect(ctx)
    C = capflow(ctx)
    out = Outcome("R13.3", "no intermediate point value is rounded to the coordinate cap before the computation is finished: "
                           "on the exact paths, arithmetic on a derived point is done in place (a non-in-place Point2D "
                           "operator copies its operand through the capped constructor)", floor=50)
    if not C.premise:
        out.note("premise gone: the non-in-place operators of Point2D no longer copy through a capping constructor")
    n = 0
    for q in sorted(E.analysed):
        fn = ctx.model.funcs[q]
        fs = C.findings(fn)
        n += 1
        if fs:
            node, txt = fs[0]
            out.bad(q, "an intermediate point value is rounded to the coordinate cap in the middle of an exact computation",
                    where=fn.where(node), detail=txt)
        else:
            pts = sorted(k for k, v in (C.envs.get(q) or {}).items() if v)
            out.ok(q, "no non-in-place operator on a derived point", where=fn.where(), nontrivial=bool(pts) and q in EXACT)
    horner = ctx.model.funcs.get("curve.Math.horner_method")
    if horner is not None and not C.pparams.get(horner.qname):
        out.undecided(horner.qname, "the evaluation helper is no longer seen to receive point-valued coefficients",
                      where=horner.where())
    return out


RULES = [r13_1, r13_2, r13_3]
