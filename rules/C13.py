"""C13 -- rational input gives exact rational output (engine X).

 R13.1 no Float source and no rounded rational reaches an exact sink (stored
       coordinates / control points, constructor arguments of the geometric
       classes, returned parameters and integrals) on the rational /
       straight-segment paths: the frozen entry table of verifkit/exact.py plus
       its callee closure.  Floats may flow into predicates and float-by-nature
       results (length, rotation, float()).
 R13.3 no intermediate point value passes through the capped constructor in the
       middle of an exact computation (verifkit/capflow.py): non-in-place Point2D
       operators copy their operand through Point2D.__init__, which rounds to the
       cap; on the exact paths their receiver is never a derived value.
 R13.2 the Fraction API receives ints: every argument of Fraction(...) and
       limit_denominator(...) is exact, and the documented cap of stored
       coordinates is an int >= 10**9 applied only in Point2D.__init__.
Trusted base: numpy on object arrays (dot / inner / prod) and pynurbs
(open_newton_cotes, Curve.split, knot operations) preserve Fractions.
"""
from verifkit.core import Outcome
from verifkit.exact import exactness, EXACT
from verifkit.model import AnalysisError

ASSUMPTIONS = [
    "numpy dot/inner/prod on object arrays and pynurbs (open_newton_cotes, Curve.split, knot operations) preserve "
    "Fractions (spot-checked, trusted base)",
    "int and Fraction arithmetic (+ - * and / on Fractions) is exact; Point2D normalises ints to Fractions",
]


def _collect(ctx):
    E = exactness(ctx)
    if E.missing:
        raise AnalysisError(f"exact-path anchors vanished: {E.missing}")
    return E


def r13_1(ctx):
    E = _collect(ctx)
    out = Outcome("R13.1", "no float and no limit_denominator-rounded value reaches a stored coordinate, a constructor "
                           "argument or a returned value on the rational / straight-segment paths", floor=50)
    bad = {}
    for (q, ln, fact, txt) in E.findings:
        if "Fraction API" in fact or "cap" in fact:
            continue
        bad.setdefault((q, fact), []).append((ln, txt))
    flagged = set()
    for (q, fact), occ in sorted(bad.items()):
        fn = ctx.model.funcs[q]
        flagged.add(q)
        out.bad(q, fact, where=f"{fn.path}:{occ[0][0]}", detail=f"`{occ[0][1]}`")
    for q in E.analysed:
        if q not in flagged:
            out.ok(q, "exact sinks receive exact values only", where=ctx.model.funcs[q].where(), nontrivial=q in EXACT)
    out.note(f"{len(E.analysed)} functions analysed ({len(EXACT)} frozen entries + callee closure), {E.sinks} sinks")
    return out


def r13_2(ctx):
    E = _collect(ctx)
    out = Outcome("R13.2", "Fraction constructors / limit_denominator receive exact arguments; the coordinate cap is an "
                           "int >= 10**9", floor=1)
    n = 0
    for (q, ln, fact, txt) in E.findings:
        if "Fraction API" in fact or "cap" in fact:
            fn = ctx.model.funcs[q]
            n += 1
            key = "limit_denominator receives the float 1e9" if "limit_denominator" in fact and "float" in fact else fact
            if (q, key) in {(i.construct, i.fact) for i in out.instances}:
                continue
            out.bad(q, key, where=f"{fn.path}:{ln}", detail=f"`{txt}`")
    fn = ctx.fn("polygon.Point2D.__init__")
    if not any(i.construct == fn.qname for i in out.instances):
        out.ok(fn.qname, "coordinate cap is an exact int >= 10**9", where=fn.where())
    return out


def r13_3(ctx):
    from verifkit.capflow import capflow
    E = _collect(ctx)
    C = capflow(ctx)
    out = Outcome("R13.3", "no intermediate point value is rounded to the coordinate cap before the computation is finished: "
                           "on the exact paths, arithmetic on a derived point is done in place (a non-in-place Point2D "
                           "operator copies its operand through the capped constructor)", floor=50)
    if not C.premise:
        out.note("premise gone: the non-in-place operators of Point2D no longer copy through a capping constructor")
    n = 0
    for q in sorted(E.analysed):
        fn = ctx.model.funcs[q]
        fs = C.findings(fn)
        n += 1
        if fs:
            node, txt = fs[0]
            out.bad(q, "an intermediate point value is rounded to the coordinate cap in the middle of an exact computation",
                    where=fn.where(node), detail=txt)
        else:
            pts = sorted(k for k, v in (C.envs.get(q) or {}).items() if v)
            out.ok(q, "no non-in-place operator on a derived point", where=fn.where(), nontrivial=bool(pts) and q in EXACT)
    horner = ctx.model.funcs.get("curve.Math.horner_method")
    if horner is not None and not C.pparams.get(horner.qname):
        out.undecided(horner.qname, "the evaluation helper is no longer seen to receive point-valued coefficients",
                      where=horner.where())
    return out


def r13_4(ctx):
    """abstract run (W) of Point2D's own arithmetic, on points whose operators re-enter the repository's methods
    (rules/pointworld.py): componentwise and exact, results are new objects, in-place operators return the same object,
    inner / cross are the two products with the right sign, indexing and iteration give (x, y), == is symmetric and
    tolerant to 1e-9 only"""
    from fractions import Fraction as Fr
    from rules.pointworld import World
    from verifkit.finite import Undecided, Raised
    out = Outcome("R13.4", "Point2D arithmetic is what every other rule assumes of a point: + - * / and unary minus are "
                           "componentwise, exact and return new points leaving the operands alone; += -= *= /= update the "
                           "same object; inner = x1 x2 + y1 y2, cross = x1 y2 - y1 x2 (| and ^ alike); p[0], p[1], "
                           "tuple(p); == compares values within 1e-9, symmetrically", floor=20)
    q = "polygon.Point2D"
    ax, ay, bx, by, k = Fr(3, 2), Fr(-2), Fr(5), Fr(1, 3), Fr(2, 3)
    AX, AY, BX, BY = ax, ay, bx, by

    def case(label, run, want, fresh=None, same=None, untouched=True, coords=None):
        W = World(ctx)
        ax, ay, bx, by = coords or (AX, AY, BX, BY)
        a, b = W.point(ax, ay), W.point(bx, by)
        try:
            got = run(W, a, b)
        except (Undecided,) as ex:
            out.undecided(f"{q}.{label.split()[0]}", f"{label}: {ex}", where=ctx.fn(f"{q}.__init__").where())
            return
        except (Raised, TypeError, ValueError, AttributeError, ZeroDivisionError, AssertionError) as ex:
            out.bad(f"{q}.{label.split()[0]}", f"{label} raises {type(ex).__name__}", where=ctx.fn(f"{q}.__init__").where())
            return
        val = W.xy(got) if isinstance(got, W.Pt) else got
        problems = []
        if val != want:
            problems.append(f"gives {val}, required {want}")
        if fresh and (got is a or got is b):
            problems.append("returns one of its operands instead of a new point")
        if same is not None and got is not (a if same == "a" else b):
            problems.append("an in-place operator does not return the object it updated")
        if untouched and same is None and (W.xy(a) != (ax, ay) or W.xy(b) != (bx, by)):
            problems.append(f"changes an operand: a = {W.xy(a)}, b = {W.xy(b)}")
        if same == "a" and W.xy(b) != (bx, by):
            problems.append(f"changes the right operand: b = {W.xy(b)}")
        fnq = f"{q}.{label.split()[0]}"
        where = ctx.model.funcs[fnq].where() if fnq in ctx.model.funcs else ctx.fn(f"{q}.__init__").where()
        if problems:
            out.bad(fnq, f"point arithmetic wrong: {label}", where=where, detail="; ".join(problems))
        else:
            out.ok(fnq, f"{label} = {want}", where=where)
    case("__add__ a + b", lambda W, a, b: a + b, (ax + bx, ay + by), fresh=True)
    case("__sub__ a - b", lambda W, a, b: a - b, (ax - bx, ay - by), fresh=True)
    case("__sub__ b - a", lambda W, a, b: b - a, (bx - ax, by - ay), fresh=True)
    # coordinates within the cap of 10^9 whose sum / difference is not (coprime denominators 31627 and 31643): the result
    # of + and - is exact, it is not pushed through the cap again
    big = (Fr(1, 31627), Fr(5, 31643), Fr(2, 31643), Fr(-3, 31627))
    case("__sub__ a - b (denominators 31627, 31643)", lambda W, a, b: a - b, (big[0] - big[2], big[1] - big[3]), fresh=True, coords=big)
    case("__add__ a + b (denominators 31627, 31643)", lambda W, a, b: a + b, (big[0] + big[2], big[1] + big[3]), fresh=True, coords=big)
    case("__mul__ a * k", lambda W, a, b: a * k, (ax * k, ay * k), fresh=True)
    case("__rmul__ k * a", lambda W, a, b: k * a, (ax * k, ay * k), fresh=True)
    case("__truediv__ a / k", lambda W, a, b: a / k, (ax / k, ay / k), fresh=True)
    case("__neg__ -a", lambda W, a, b: -a, (-ax, -ay), fresh=True)
    case("__iadd__ a += b", lambda W, a, b: a.__iadd__(b), (ax + bx, ay + by), same="a")
    case("__isub__ a -= b", lambda W, a, b: a.__isub__(b), (ax - bx, ay - by), same="a")
    case("__imul__ a *= k", lambda W, a, b: a.__imul__(k), (ax * k, ay * k), same="a")
    case("__itruediv__ a /= k", lambda W, a, b: a.__itruediv__(k), (ax / k, ay / k), same="a")
    case("inner a.inner(b)", lambda W, a, b: W.call("inner", a, b), ax * bx + ay * by)
    case("cross a.cross(b)", lambda W, a, b: W.call("cross", a, b), ax * by - ay * bx)
    case("cross b.cross(a)", lambda W, a, b: W.call("cross", b, a), bx * ay - by * ax)
    case("__or__ a | b", lambda W, a, b: a | b, ax * bx + ay * by)
    case("__xor__ a ^ b", lambda W, a, b: a ^ b, ax * by - ay * bx)
    case("norm2 a.norm2()", lambda W, a, b: W.call("norm2", a), ax * ax + ay * ay)
    case("__getitem__ (a[0], a[1])", lambda W, a, b: (a[0], a[1]), (ax, ay))
    case("__iter__ tuple(a)", lambda W, a, b: tuple(a), (ax, ay))
    case("move a.move(b)", lambda W, a, b: W.call("move", a, b), (ax + bx, ay + by), same="a")
    case("scale a.scale(2, 3)", lambda W, a, b: W.call("scale", a, 2, 3), (ax * 2, ay * 3), same="a", untouched=False)
    # equality: by value, tolerant to 1e-9, symmetric, a bool
    eqs = [((ax, ay), True), ((ax + Fr(1, 10**10), ay), True), ((ax, ay - Fr(1, 10**10)), True), ((ax + Fr(1, 10**8), ay), False),
           ((ax, ay + Fr(1, 10**8)), False), ((bx, by), False), ((ay, ax), False)]
    for (cx, cy), want in eqs:
        W = World(ctx)
        a, c = W.point(ax, ay), W.point(cx, cy)
        try:
            g1, g2 = a == c, c == a
        except (Undecided,) as ex:
            out.undecided(f"{q}.__eq__", str(ex), where=ctx.fn(f"{q}.__eq__").where())
            continue
        except (Raised, TypeError, ValueError, AttributeError, AssertionError) as ex:
            out.bad(f"{q}.__eq__", f"== of two points raises {type(ex).__name__}", where=ctx.fn(f"{q}.__eq__").where())
            continue
        if g1 is want and g2 is want:
            out.ok(f"{q}.__eq__", f"({ax}, {ay}) == ({cx}, {cy}) -> {want}, both ways", where=ctx.fn(f"{q}.__eq__").where())
        else:
            out.bad(f"{q}.__eq__", "== of two points is not the symmetric comparison of values within 1e-9",
                    where=ctx.fn(f"{q}.__eq__").where(), detail=f"({ax}, {ay}) == ({cx}, {cy}): {g1!r} / reversed {g2!r}, required {want}")
    return out


RULES = [r13_1, r13_2, r13_3, r13_4]
