"""C06 -- results are canonical, well-formed shapes; Empty / Whole are the singletons.

 R06.1 kind inference of every operator against the documented tables of
       docs/source/rst/shape.rst (frozen here: a specification must not move
       with the code): every cell involving E or W and ~S, ~C must be *equal*
       to the inferred set; {C,D} cells and generic cells are checked for the
       decidable clause only (inferred set within the documented one / `|`
       never yields E, `&` never W).
 R06.2 singleton discipline: SingletonShape.__new__ hands out one cached
       instance per class, copies return self, nothing below defines
       __init__/__new__ or writes an instance field.
 R06.3 closed-chain discipline (abstract runs of the segments setter and of
       from_segments on stand-in chains): a chain with a broken junction or a
       non-curve element raises, an accepted chain is glued at all n cyclic
       junctions to one shared point object; the other from_* constructors
       return through from_segments.
 R06.4 grouping of result curves (abstract run of DivideConnecteds /
       ShapeFromJordans on a 4-level nested world): components are formed by
       mutual containment taking the largest |area| first; a ConnectedShape has
       >= 2 subshapes, a single curve stays a SimpleShape.
 R06.5 the no-boundary exits return the right singleton (= R01.1).
Not decided: absence of zero-length pieces / self-crossings, geometric
disjointness of components, the laws S|~S is Whole etc. (numeric path).
"""
import ast
import itertools

from verifkit import pat
from verifkit.absrun import Obj, Runner, StandIn
from verifkit.core import Outcome
from verifkit.finite import Undecided, Raised
from rules import C01

ASSUMPTIONS = ["copy preserves the kind of a shape",
               "curves are nested or disjoint in the abstract world used for the grouping rule (generic position)"]
U = ast.unparse
CLS = {"E": "EmptyShape", "W": "WholeShape", "S": "SimpleShape", "C": "ConnectedShape", "D": "DisjointShape"}
OPS = {ast.BitOr: "__or__", ast.BitAnd: "__and__", ast.Sub: "__sub__", ast.BitXor: "__xor__", ast.Add: "__add__",
       ast.Mult: "__mul__"}

# documented cells (docs/source/rst/shape.rst, tables at l.231, 247, 290, 332, 376 of the pinned docs)
DOC_INVERT = {"E": "W", "W": "E", "S": "S", "C": "D", "D": "CD"}
DOC = {
    "__or__": {"E": ["E", "W", "S", "C", "D"], "W": ["W", "W", "W", "W", "W"], "S": ["S", "W", "CDSW", "CDSW", "CDSW"],
               "C": ["C", "W", "CDSW", "CDSW", "CDSW"], "D": ["D", "W", "CDSW", "CDSW", "CDSW"]},
    "__and__": {"E": ["E", "E", "E", "E", "E"], "W": ["E", "W", "S", "C", "D"], "S": ["E", "S", "CDES", "CDES", "CDES"],
                "C": ["E", "C", "CDES", "CDES", "CDES"], "D": ["E", "D", "CDES", "CDES", "CDES"]},
    "__sub__": {"E": ["E", "E", "E", "E", "E"], "W": ["W", "E", "S", "D", "CD"], "S": ["S", "E", "CDES", "CDES", "CDES"],
                "C": ["C", "E", "CDES", "CDES", "CDES"], "D": ["D", "E", "CDES", "CDES", "CDES"]},
    "__xor__": {"E": ["E", "W", "S", "C", "D"], "W": ["W", "E", "S", "D", "CD"], "S": ["S", "S", "", "", ""],
                "C": ["C", "D", "", "", ""], "D": ["D", "CD", "", "", ""]},
}
KINDS = "EWSCD"


NONEV = ("none",)
OPNAMES = ("__or__", "__and__", "__sub__", "__xor__", "__invert__", "__neg__", "__add__", "__mul__")


class KindInfer:
    def __init__(self, ctx):
        self.ctx = ctx
        self.memo = {}
        self.stack = set()

    def op(self, name, ks, ko=None):
        key = (name, ks, ko)
        if key in self.memo:
            return self.memo[key]
        if key in self.stack:
            return frozenset()
        self.stack.add(key)
        fns = self.ctx.model.lookup(CLS[ks], name, virtual=False)
        if not fns:
            raise Undecided(f"{CLS[ks]}.{name} not found")
        fn = fns[0]
        ps = fn.params
        env = {ps[0]: frozenset(ks)}
        if len(ps) > 1:
            env[ps[1]] = frozenset(ko)
        res = self.run(fn, fn.node.body, env, ks)
        self.stack.discard(key)
        self.memo[key] = res
        return res

    def truth(self, test, env):
        t, f = self.split(None, test, env, None)
        return True if t and not f else False if f and not t else None

    # -- path splitting: a guard gives the environments in which it holds / does not hold (kinds refined)
    def split(self, fn, test, env, selfkind):
        test, neg = pat._strip_not(test)
        t, f = self._split(fn, test, env, selfkind)
        return (f, t) if neg else (t, f)

    def _split(self, fn, test, env, selfkind):
        if isinstance(test, ast.BoolOp):
            if isinstance(test.op, ast.Or):
                true, rest = [], [env]
                for v in test.values:
                    nrest = []
                    for r in rest:
                        t, f = self.split(fn, v, r, selfkind)
                        true += t
                        nrest += f
                    rest = nrest
                return true, rest
            false, rest = [], [env]
            for v in test.values:
                nrest = []
                for r in rest:
                    t, f = self.split(fn, v, r, selfkind)
                    false += f
                    nrest += t
                rest = nrest
            return rest, false
        if isinstance(test, ast.Call) and isinstance(test.func, ast.Name) and test.func.id == "isinstance" \
                and isinstance(test.args[0], ast.Name) and isinstance(env.get(test.args[0].id), frozenset):
            name = test.args[0].id
            ks = env[name]
            c = test.args[1]
            names = [c.id] if isinstance(c, ast.Name) else [x.id for x in c.elts if isinstance(x, ast.Name)]
            if all(k in CLS for k in ks):
                hit = frozenset(k for k in ks if any(n in self.ctx.model.mro(CLS[k]) for n in names))
                t = [dict(env, **{name: hit})] if hit else []
                f = [dict(env, **{name: ks - hit})] if ks - hit else []
                return t, f
        probe = None
        if isinstance(test, ast.Compare) and len(test.ops) == 1 and isinstance(test.ops[0], (ast.Is, ast.IsNot, ast.Eq, ast.NotEq)) \
                and isinstance(test.comparators[0], ast.Constant) and test.comparators[0].value is None \
                and isinstance(test.left, ast.Name) and test.left.id in env:
            v = env[test.left.id]
            if v == NONEV or (isinstance(v, tuple) and v and v[0] in ("tuple", "bool")) or \
                    (isinstance(v, frozenset) and v and v <= frozenset(KINDS)):
                holds = (v == NONEV) == isinstance(test.ops[0], (ast.Is, ast.Eq))
                return ([env], []) if holds else ([], [env])
        if isinstance(test, ast.Name) and test.id in env:
            probe = env[test.id]
            if isinstance(probe, tuple) and probe and probe[0] == "bool":
                return ([env], []) if probe[1] else ([], [env])
        if isinstance(test, ast.Constant) and isinstance(test.value, bool):
            return ([env], []) if test.value else ([], [env])
        if probe is not None and (probe == NONEV or (isinstance(probe, tuple) and probe and probe[0] == "tuple")):
            truthy = probe != NONEV and len(probe[1]) > 0
            return ([env], []) if truthy else ([], [env])
        return [env], [env]          # geometric tests (containment, emptiness of the core ...): both outcomes

    def run(self, fn, body, env, selfkind):
        falls, rets = self.exec_block(fn, body, [dict(env)], selfkind, 0)
        out = frozenset()
        for _, val in rets:
            if not isinstance(val, frozenset):
                raise Undecided("an operator path returns a value that is not a shape")
            out |= val
        return out

    def exec_block(self, fn, body, envs, selfkind, depth):
        rets = []
        for st in body:
            if not envs:
                break
            nxt = []
            for env in envs:
                out, r = self.exec_stmt(fn, st, env, selfkind, depth)
                nxt += out
                rets += r
            envs = nxt
        return envs, rets

    def exec_stmt(self, fn, st, env, selfkind, depth):
        if isinstance(st, (ast.Assert, ast.Pass)) or (isinstance(st, ast.Expr) and isinstance(st.value, ast.Constant)):
            return [env], []
        if isinstance(st, ast.Return) and isinstance(st.value, ast.IfExp):
            st = ast.If(test=st.value.test, body=[ast.Return(value=st.value.body)], orelse=[ast.Return(value=st.value.orelse)])
        if isinstance(st, ast.If):
            t, f = self.split(fn, st.test, env, selfkind)
            ft, r1 = self.exec_block(fn, st.body, [dict(e) for e in t], selfkind, depth)
            ff, r2 = self.exec_block(fn, st.orelse, [dict(e) for e in f], selfkind, depth)
            return ft + ff, r1 + r2
        if isinstance(st, ast.Assign) and len(st.targets) == 1:
            out = []
            for env2, val in self.eval_multi(fn, st.value, env, selfkind, depth):
                env3 = dict(env2)
                self.bind(st.targets[0], val, env3)
                out.append(env3)
            return out, []
        if isinstance(st, ast.AugAssign) and isinstance(st.target, ast.Name):
            env3 = dict(env)
            env3[st.target.id] = self.ev(fn, ast.BinOp(left=ast.Name(id=st.target.id, ctx=ast.Load()), op=st.op,
                                                       right=st.value), env, selfkind)
            return [env3], []
        if isinstance(st, ast.Return):
            if st.value is None:
                return [], [(env, NONEV)]
            return [], list(self.eval_multi(fn, st.value, env, selfkind, depth))
        if isinstance(st, ast.Raise):
            return [], []
        if isinstance(st, ast.For) and not st.orelse and isinstance(st.target, ast.Name):
            # a list filled with one element per member of a collection: `for s in X.subshapes: out.append(f(s))`
            it = st.iter
            while isinstance(it, ast.Call) and isinstance(it.func, ast.Name) and it.func.id in ("tuple", "list", "reversed", "iter") \
                    and len(it.args) == 1:
                it = it.args[0]
            over_sub = isinstance(it, ast.Attribute) and it.attr == "subshapes"
            env3 = dict(env)
            env3[st.target.id] = frozenset("?")
            for b in st.body:
                if isinstance(b, (ast.Assert, ast.Pass)):
                    continue
                if isinstance(b, ast.Expr) and isinstance(b.value, ast.Call) and isinstance(b.value.func, ast.Attribute) \
                        and b.value.func.attr == "append" and isinstance(b.value.func.value, ast.Name) and len(b.value.args) == 1:
                    name = b.value.func.value.id
                    fresh = env.get(name) == ("tuple", ()) and sum(
                        1 for x in ast.walk(st) if isinstance(x, ast.Name) and x.id == name) == 1
                    env3[name] = frozenset("?sub") if (over_sub and fresh) else frozenset("?")
                    continue
                raise Undecided("statement " + U(st)[:50])
            return [env3], []
        if isinstance(st, ast.Expr):
            return [e for e, _ in self.eval_multi(fn, st.value, env, selfkind, depth)], []
        raise Undecided("statement " + U(st)[:50])

    def bind(self, target, val, env):
        if isinstance(target, ast.Name):
            env[target.id] = val
        elif isinstance(target, (ast.Tuple, ast.List)) and isinstance(val, tuple) and val and val[0] == "tuple" \
                and len(val[1]) == len(target.elts):
            for t, v in zip(target.elts, val[1]):
                self.bind(t, v, env)
        elif isinstance(target, (ast.Tuple, ast.List)):
            for t in target.elts:
                self.bind(t, frozenset("?"), env)
        else:
            raise Undecided("assignment to " + U(target)[:40])

    def eval_multi(self, fn, e, env, selfkind, depth):
        """[(environment, value)]; a private helper of the shape module is evaluated by inlining its body"""
        if isinstance(e, ast.Call) and fn is not None:
            inf = self.ctx.typer.of(fn)
            tgs = inf.targets(e, ("call",))
            t = tgs[0] if len(tgs) == 1 else None
            if t is not None and t.mod == "shape" and t.cls not in ("FollowPath", "IntegrateShape") \
                    and t.name.startswith("_") and not t.name.endswith("__") and t.name not in OPNAMES:
                if depth >= 4:
                    raise Undecided("helper nesting too deep at " + U(e)[:40])
                names = [a.arg for a in t.node.args.posonlyargs + t.node.args.args]
                args = [self.ev(fn, a, env, selfkind) for a in e.args]
                if t.kind in ("method", "getter") and isinstance(e.func, ast.Attribute):
                    args = [self.ev(fn, e.func.value, env, selfkind)] + args
                cenv = dict(zip(names, args))
                for k in e.keywords:
                    if k.arg in names:
                        cenv[k.arg] = self.ev(fn, k.value, env, selfkind)
                if set(names) - set(cenv):
                    raise Undecided("helper call with unbound parameters: " + U(e)[:40])
                falls, rets = self.exec_block(t, t.node.body, [cenv], selfkind, depth + 1)
                return [(env, val) for _, val in rets] + [(env, NONEV) for _ in falls]
        return [(env, self.ev(fn, e, env, selfkind))]

    def ev(self, fn, e, env, selfkind):
        inf = self.ctx.typer.of(fn)
        if isinstance(e, ast.Constant) and e.value is None:
            return NONEV
        if isinstance(e, ast.Constant) and isinstance(e.value, bool):
            return ("bool", e.value)
        if isinstance(e, ast.Name):
            if e.id in env:
                return env[e.id]
            if e.id in CLS.values():
                return ("class", e.id)
            raise Undecided("name " + e.id)
        if isinstance(e, (ast.Tuple, ast.List)):
            return ("tuple", tuple(self.ev(fn, x, env, selfkind) for x in e.elts))
        if isinstance(e, ast.Subscript) and isinstance(e.slice, ast.Constant) and isinstance(e.slice.value, int):
            v = self.ev(fn, e.value, env, selfkind)
            if isinstance(v, tuple) and v and v[0] == "tuple":
                return v[1][e.slice.value]
            return frozenset("?")
        if isinstance(e, ast.Call):
            f = e.func
            tg = pat.call_targets(inf, e)
            t = inf.typeof(e)
            if isinstance(f, ast.Name) and isinstance(env.get(f.id), tuple) and env[f.id] and env[f.id][0] == "class":
                inv = {v: k for k, v in CLS.items()}
                if env[f.id][1] in inv and inv[env[f.id][1]] in "EW":
                    return frozenset(inv[env[f.id][1]])
                raise Undecided("class value called: " + U(e)[:40])
            if isinstance(f, ast.Name) and f.id == "WholeShape":
                return frozenset("W")
            if isinstance(f, ast.Name) and f.id == "EmptyShape":
                return frozenset("E")
            if isinstance(f, ast.Name) and f.id in ("copy", "deepcopy"):
                return self.ev(fn, e.args[0], env, selfkind)
            if isinstance(f, ast.Attribute) and f.attr in ("__copy__", "__deepcopy__"):
                return self.ev(fn, f.value, env, selfkind)
            if isinstance(f, ast.Name) and f.id in ("tuple", "list") and len(e.args) == 1:
                return self.ev(fn, e.args[0], env, selfkind) if isinstance(e.args[0], (ast.ListComp, ast.GeneratorExp, ast.Name)) \
                    else frozenset("?")
            if isinstance(f, ast.Name) and f.id == "map":
                return frozenset("?")
            if "shape.ShapeFromJordans" in tg:
                return frozenset("SCD")
            if isinstance(f, ast.Attribute) and f.attr == "__class__":
                return frozenset(selfkind)
            if t == "DisjointShape":
                # DisjointShape.__new__ may collapse to E / S / C; called with the complements of >= 2 subshapes
                # (R06.4) of a ConnectedShape it is a genuine DisjointShape
                a = e.args[0] if e.args else None
                try:
                    av = self.ev(fn, a, env, selfkind) if a is not None else None
                except Undecided:
                    av = None
                if selfkind == "C" and av == frozenset("?sub"):
                    return frozenset("D")
                return frozenset("ESCD")
            if t == "ConnectedShape":
                return frozenset("C")
            if t == "SimpleShape":
                return frozenset("S")
            if any(q.startswith("shape.FollowPath.") for q in tg):
                return frozenset("?")
            if isinstance(f, ast.Attribute) and f.attr in ("__invert__", "__neg__") and not e.args:
                r = frozenset()
                for k in self.ev(fn, f.value, env, selfkind):
                    r |= self.op(f.attr, k)
                return r
            raise Undecided("call " + U(e)[:40])
        if isinstance(e, (ast.ListComp, ast.GeneratorExp)):
            g = e.generators[0]
            if isinstance(g.iter, ast.Attribute) and g.iter.attr == "subshapes":
                return frozenset("?sub")
            return frozenset("?")
        if isinstance(e, (ast.Subscript, ast.Attribute)):
            return frozenset("?")           # a curve / collection taken out of a shape: not a shape value
        if isinstance(e, ast.IfExp):
            t = self.truth(e.test, env)
            r = frozenset()
            if t is not False:
                r |= self.ev(fn, e.body, env, selfkind)
            if t is not True:
                r |= self.ev(fn, e.orelse, env, selfkind)
            return r
        if isinstance(e, ast.UnaryOp) and isinstance(e.op, (ast.Invert, ast.USub)):
            r = frozenset()
            ks = self.ev(fn, e.operand, env, selfkind)
            if not ks <= frozenset(KINDS):
                return frozenset("?")       # operator applied to a curve, not to a shape
            for k in ks:
                r |= self.op("__invert__" if isinstance(e.op, ast.Invert) else "__neg__", k)
            return r
        if isinstance(e, ast.BinOp) and type(e.op) in OPS:
            r = frozenset()
            for kl in self.ev(fn, e.left, env, selfkind):
                for kr in self.ev(fn, e.right, env, selfkind):
                    r |= self.op(OPS[type(e.op)], kl, kr)
            return r
        raise Undecided(U(e)[:40])


def r06_1(ctx):
    out = Outcome("R06.1", "the kind of every operator result agrees with the documented tables (cells with Empty/Whole "
                           "and ~S, ~C exactly; {C,D} and generic cells within the documented set)", floor=100)
    out.exhaustive = True
    K = KindInfer(ctx)

    def cell(label, construct, got, want, exact_required):
        got_s = "".join(sorted(got))
        if not want:
            out.ok(construct, f"{label}: inferred {{{got_s}}} (no documented constraint)", nontrivial=False)
            return
        w = frozenset(want)
        if got == w:
            out.ok(construct, f"{label}: {{{got_s}}} as documented")
        elif not exact_required and got <= w | frozenset("S" if want in ("CD",) else ""):
            out.ok(construct, f"{label}: inferred {{{got_s}}} within documented {{{want}}} (coarse cell)")
        elif not exact_required and got <= w:
            out.ok(construct, f"{label}: inferred {{{got_s}}} within documented {{{want}}}")
        else:
            out.bad(construct, f"kind of {label} is {{{got_s}}}, documented {{{''.join(sorted(want))}}}")

    try:
        for k in KINDS:
            got = K.op("__invert__", k)
            cell(f"~{k}", f"shape.{CLS[k]}.__invert__", got, DOC_INVERT[k], exact_required=(k != "D"))
        for name, table in DOC.items():
            sym = {"__or__": "|", "__and__": "&", "__sub__": "-", "__xor__": "^"}[name]
            for ka in KINDS:
                for kb, want in zip(KINDS, table[ka]):
                    got = K.op(name, ka, kb)
                    generic = ka in "SCD" and kb in "SCD"
                    exact = (not generic) and want not in ("CD",)
                    fns = ctx.model.lookup(CLS[ka], name, virtual=False)
                    cell(f"{ka} {sym} {kb}", fns[0].qname, got, want, exact_required=exact)
    except Undecided as ex:
        out.undecided("shape operators", f"kind inference outside the recognised fragment: {ex}")
    return out


# ---------------------------------------------------------------------------
def r06_2(ctx):
    out = Outcome("R06.2", "Empty / Whole are singletons: one cached instance per class, copies return self, no "
                           "constructor or instance state below SingletonShape", floor=5)
    fn = ctx.fn("shape.SingletonShape.__new__")
    # abstract run (W): two constructions of one class give the same object, created once; another class another one
    made = []

    def hook(rn, ev, call, name, recv, args, kwargs):
        if name == "super":
            return Obj("super")
        if name == "__new__":
            made.append(args[0] if args else None)
            return Obj(f"instance#{len(made)}")
        return NotImplemented
    consts = {k: None for k, v in ctx.model.class_consts.get("SingletonShape", {}).items()
              if isinstance(v, ast.Constant) and v.value is None}
    consts.update({k[len("_SingletonShape"):]: None for k in list(consts) if k.startswith("_SingletonShape__")})
    E, W = Obj("cls:EmptyShape", **consts), Obj("cls:WholeShape", **consts)
    try:
        run = Runner(ctx, set(), hook)
        e1, e2, w1, e3 = (run.call_fn(fn, [c]) for c in (E, E, W, E))
        ok = e1 is e2 and e1 is e3 and w1 is not e1 and isinstance(e1, Obj) and isinstance(w1, Obj) and made == [E, W]
        (out.ok if ok else out.bad)(fn.qname, "returns the per-class cached instance" if ok else
                                    "does not hand out one cached instance per class", where=fn.where(),
                                    detail="" if ok else f"Empty, Empty, Whole, Empty -> {[e1, e2, w1, e3]}; created for {made}")
    except (Undecided, Raised) as ex:
        out.undecided(fn.qname, f"not interpretable: {ex}", where=fn.where())
    for name in ("__copy__", "__deepcopy__"):
        f2 = ctx.fn(f"shape.SingletonShape.{name}")
        r = [n for n in ast.walk(f2.node) if isinstance(n, ast.Return)]
        def same(v):
            if pat.is_name(v, f2.params[0]):
                return True
            # constructing the class again yields the cached instance
            return isinstance(v, ast.Call) and not v.args and (
                (isinstance(v.func, ast.Attribute) and v.func.attr == "__class__" and pat.is_name(v.func.value, f2.params[0]))
                or (isinstance(v.func, ast.Call) and isinstance(v.func.func, ast.Name) and v.func.func.id == "type"))
        ok = bool(r) and all(same(x.value) for x in r)
        (out.ok if ok else out.bad)(f2.qname, "returns self" if ok else "a copy of a singleton is not the singleton",
                                    where=f2.where())
    for cls in ["SingletonShape"] + ctx.model.subclasses("SingletonShape"):
        mod, node, bases = ctx.model.classes[cls]
        bad = []
        for name, f3 in ctx.model.methods[cls].items():
            if name in ("__init__",) or (name == "__new__" and cls != "SingletonShape"):
                bad.append(f"defines {name}")
            for n in ast.walk(f3.node):
                if isinstance(n, (ast.Assign, ast.AugAssign)):
                    for t in (n.targets if isinstance(n, ast.Assign) else [n.target]):
                        if isinstance(t, ast.Attribute) and pat.is_name(t.value, "self"):
                            bad.append(f"writes instance field {t.attr} in {name}")
        if bad:
            out.bad(f"shape.{cls}", "singleton class with per-instance construction/state: " + "; ".join(bad[:3]))
        else:
            out.ok(f"shape.{cls}", "no __init__/__new__/instance field")
    # no object.__new__-style construction of the singletons elsewhere
    for q, f4 in ctx.model.funcs.items():
        for n in ast.walk(f4.node):
            if isinstance(n, ast.Call) and isinstance(n.func, ast.Attribute) and n.func.attr == "__new__" and n.args:
                a0 = n.args[0]
                if isinstance(a0, ast.Name) and a0.id in ("EmptyShape", "WholeShape"):
                    out.bad(q, f"constructs {a0.id} bypassing the singleton cache", where=f4.where(n))
    return out


# ---------------------------------------------------------------------------
class Pt(StandIn):
    def __init__(self, x, y):
        self.x, self.y = x, y

    def __eq__(self, o):
        return isinstance(o, Pt) and (self.x, self.y) == (o.x, o.y)

    def __ne__(self, o):
        return not self.__eq__(o)

    def __hash__(self):
        return id(self)

    def __repr__(self):
        return f"P({self.x},{self.y})"


class Seg(StandIn):
    def __init__(self, pts, is_curve=True):
        self.ctrlpoints = tuple(pts)
        self.is_curve = is_curve

    def clean(self, *a):
        return self


def chain(kind):
    """three segments of a triangle; kind selects the defect"""
    a, b, c = Pt(0, 0), Pt(4, 0), Pt(0, 3)
    if kind == "closed-shared":
        return [Seg([a, b]), Seg([b, c]), Seg([c, a])]
    if kind == "equal-not-shared":
        return [Seg([a, b]), Seg([Pt(4, 0), c]), Seg([c, a])]
    if kind == "gap-middle":
        return [Seg([a, b]), Seg([Pt(4, 1), c]), Seg([c, a])]
    if kind == "gap-last-internal":
        return [Seg([a, b]), Seg([b, c]), Seg([Pt(1, 3), a])]
    if kind == "gap-wrap":
        return [Seg([a, b]), Seg([b, c]), Seg([c, Pt(1, 1)])]
    if kind == "non-curve":
        return [Seg([a, b]), Seg([b, c], is_curve=False), Seg([c, a])]
    if kind == "teardrop":                      # one closed cubic segment is a closed chain
        return [Seg([a, Pt(3, 0), Pt(0, 4), a])]
    if kind == "teardrop-and-lobe":             # a closed lobe attached at a vertex of a two-segment curve
        return [Seg([a, Pt(2, -2), b]), Seg([b, Pt(6, 1), Pt(6, -1), b]), Seg([b, Pt(2, 2), a])]
    raise ValueError(kind)


def setter_hook(rn, ev, call, name, recv, args, kwargs):
    if name == "isinstance":
        x = args[0] if args else None
        return bool(getattr(x, "is_curve", False)) if isinstance(x, Seg) else True
    if name == "Point2D" and len(args) == 1:
        return args[0]
    if name == "PlanarCurve" and len(args) == 1:
        return Seg(list(args[0]))
    return NotImplemented


def r06_3(ctx):
    out = Outcome("R06.3", "a JordanCurve is only ever assembled from a closed chain: the setter rejects broken "
                           "junctions and non-curves, from_segments glues all n cyclic junctions to shared points, the "
                           "other constructors funnel through it; single writer of the segment list", floor=9)
    fs = ctx.fn("jordancurve.JordanCurve.segments:set")
    for kind, must_raise in (("closed-shared", False), ("equal-not-shared", True), ("gap-middle", True),
                             ("gap-last-internal", True), ("non-curve", True)):
        S = Obj("J")
        given = chain(kind)
        try:
            Runner(ctx, set(), setter_hook, asserts=True).call_fn(fs, [S, given])
            raised = False
        except Raised:
            raised = True
        except Undecided as ex:
            out.undecided(fs.qname, f"{kind}: not interpretable: {ex}", where=fs.where())
            continue
        if raised != must_raise:
            out.bad(fs.qname, f"segments setter {'rejects a valid closed chain' if raised else 'accepts'} ({kind})",
                    where=fs.where(), detail="consecutive segments must share their junction point object")
        else:
            stored = [v for k, v in S.__dict__.items() if k.endswith("segments")]
            if not must_raise and (not stored or len(stored[0]) != 3):
                out.bad(fs.qname, "an accepted chain is not stored completely", where=fs.where())
            elif not must_raise and any(st is g for st in stored[0] for g in given):
                out.bad(fs.qname, "the curve keeps the caller's segment objects: two curves built from one list of segments "
                                  "share them, and an in-place change of one curve reaches the other", where=fs.where())
            elif not must_raise and ([[(p.x, p.y) for p in st.ctrlpoints] for st in stored[0]] !=
                                     [[(p.x, p.y) for p in g.ctrlpoints] for g in given]
                                     or not all(stored[0][i].ctrlpoints[-1] is stored[0][(i + 1) % 3].ctrlpoints[0] for i in range(3))):
                out.bad(fs.qname, "the stored segments do not run through the given control points in the given order with shared junction points",
                        where=fs.where())
            else:
                out.ok(fs.qname, f"{kind}: {'rejected' if must_raise else 'accepted and stored'}", where=fs.where())
    ff = ctx.fn("jordancurve.JordanCurve.from_segments")
    for kind, must_raise in (("closed-shared", False), ("equal-not-shared", False), ("gap-middle", True),
                             ("gap-last-internal", True), ("gap-wrap", True), ("teardrop", False), ("teardrop-and-lobe", False)):
        segs = chain(kind)
        made = []

        def hook(rn, ev, call, name, recv, args, kwargs):
            if (name == "cls" or (isinstance(recv, Obj) and str(recv).startswith("cls:"))) and isinstance(call.func, ast.Name):
                made.append(args[0])                 # cls(segments): the constructor (cls.helper(..) is a helper)
                return "CURVE"
            return NotImplemented
        try:
            got = Runner(ctx, set(), hook, asserts=True).call_fn(ff, [segs])
            raised = False
        except Raised:
            raised = True
        except Undecided as ex:
            out.undecided(ff.qname, f"{kind}: not interpretable: {ex}", where=ff.where())
            continue
        if raised != must_raise:
            out.bad(ff.qname, f"from_segments {'rejects a closed chain' if raised else 'accepts an open chain'} ({kind})",
                    where=ff.where())
            continue
        if not must_raise:
            n = len(segs)
            glued = all(segs[i].ctrlpoints[-1] is segs[(i + 1) % n].ctrlpoints[0] for i in range(n))
            if got != "CURVE" or not made or list(made[0]) != segs:
                out.bad(ff.qname, "does not build the curve from the given segments", where=ff.where())
            elif not glued:
                out.bad(ff.qname, f"{kind}: not every cyclic junction is glued to one shared point object", where=ff.where())
            else:
                out.ok(ff.qname, f"{kind}: all {n} cyclic junctions share one point object", where=ff.where())
        else:
            out.ok(ff.qname, f"{kind}: rejected", where=ff.where())
    # from_ctrlpoints on lists of control points, through the repository's from_segments: a chain with a gap is rejected
    # like the same chain given as segments, a closed one comes out as a curve
    fc = ctx.fn("jordancurve.JordanCurve.from_ctrlpoints")
    for kind, must_raise in (("closed-shared", False), ("equal-not-shared", False), ("gap-middle", True), ("gap-wrap", True)):
        lists = [list(sg.ctrlpoints) for sg in chain(kind)]

        def hook2(rn, ev, call, name, recv, args, kwargs):
            if name == "from_segments" and len(args) == 1:
                return rn.call_fn(ff, [args[0]])
            if name == "isinstance" and len(args) == 2 and isinstance(args[0], (list, tuple, str)) and isinstance(args[1], type):
                return isinstance(args[0], args[1])
            if (name == "cls" or (isinstance(recv, Obj) and str(recv).startswith("cls:"))) and isinstance(call.func, ast.Name):
                return "CURVE"
            return setter_hook(rn, ev, call, name, recv, args, kwargs)
        try:
            got = Runner(ctx, set(), hook2, asserts=True).call_fn(fc, [lists])
            raised = False
        except Raised:
            raised = True
        except Undecided as ex:
            out.undecided(fc.qname, f"{kind}: not interpretable: {ex}", where=fc.where())
            continue
        if raised != must_raise:
            out.bad(fc.qname, f"from_ctrlpoints {'rejects a closed chain' if raised else 'accepts an open chain'} ({kind})",
                    where=fc.where(), detail="control-point lists of three segments; from_segments rejects the same chain")
        elif not must_raise and got != "CURVE":
            out.bad(fc.qname, f"{kind}: does not return the curve built by from_segments", where=fc.where())
        else:
            out.ok(fc.qname, f"control-point lists, {kind}: {'rejected' if must_raise else 'a curve'}", where=fc.where())
    for name in ("from_vertices", "from_ctrlpoints", "from_full_curve"):
        f2 = ctx.fn(f"jordancurve.JordanCurve.{name}")
        inf = ctx.typer.of(f2)
        rets = [r for r in ast.walk(f2.node) if isinstance(r, ast.Return)]
        tgs = [pat.call_targets(inf, r.value) for r in rets if isinstance(r.value, ast.Call)]
        ok = bool(rets) and len(tgs) == len(rets) and all(
            any(t.endswith(".from_segments") or t.endswith(".from_ctrlpoints") or t.endswith(".from_vertices") for t in tg)
            for tg in tgs)
        (out.ok if ok else out.bad)(f2.qname, "returns through from_segments" if ok else
                                    "builds a curve without the closing / sharing step of from_segments", where=f2.where())
    # single writer
    writers = []
    for q, f3 in ctx.model.funcs.items():
        if f3.cls == "JordanCurve":
            for n in ast.walk(f3.node):
                if isinstance(n, (ast.Assign, ast.AugAssign)):
                    for t in (n.targets if isinstance(n, ast.Assign) else [n.target]):
                        if isinstance(t, ast.Attribute) and t.attr == "__segments":
                            writers.append(q)
    extra = sorted(set(writers) - {fs.qname})
    if extra:
        for q in extra:
            out.bad(q, "stores the segment list without the closed-chain checks of the segments setter",
                    where=ctx.model.funcs[q].where())
    else:
        out.ok(fs.qname, "only writer of the segment list")
    return out


# ---------------------------------------------------------------------------
class Curve(StandIn):
    def __init__(self, name, radius, sign):
        self.name, self.radius, self.sign = name, radius, sign

    def __repr__(self):
        return self.name


class Simple(StandIn):
    """abstract simple shape: concentric circle of given radius and orientation"""

    def __init__(self, name, radius, sign):
        self.name, self.radius, self.sign = name, radius, sign
        self.jordans = (Curve("j" + name, radius, sign),)

    def __contains__(self, curve):
        if curve.radius == self.radius:
            return True
        return curve.radius < self.radius if self.sign > 0 else curve.radius > self.radius

    def area(self):
        return self.sign * self.radius ** 2

    def __float__(self):
        return float(self.area())

    def __repr__(self):
        return self.name


def grouping_hook(made):
    def hook(rn, ev, call, name, recv, args, kwargs):
        if name == "float" and args and isinstance(args[0], Simple):
            return float(args[0].area())
        if name == "SimpleShape" and len(args) == 1 and isinstance(args[0], Simple):
            return args[0]                  # the stand-in curves already are stand-in simple shapes
        if name == "ConnectedShape" and len(args) == 1:
            made.append(("C", tuple(args[0])))
            return ("C", tuple(sorted(a.name for a in args[0])))
        if name == "DisjointShape" and len(args) == 1:
            made.append(("D", tuple(args[0])))
            return ("D", tuple(args[0]))
        return NotImplemented
    return hook


def r06_4(ctx):
    out = Outcome("R06.4", "result curves are grouped by mutual containment, largest |area| first: on a 4-level nested "
                           "world the components are exactly the two rings; a ConnectedShape has >= 2 subshapes; one "
                           "curve stays a SimpleShape", floor=4)
    fd = ctx.fn("shape.DivideConnecteds")
    worlds = {
        "ring inside the hole of a ring": ([("a", 10, 1), ("b", 6, -1), ("c", 4, 1), ("d", 2, -1)],
                                           {("C", ("a", "b")), ("C", ("c", "d"))}),
        "disk with two levels listed inner first": ([("d", 2, -1), ("c", 4, 1), ("b", 6, -1), ("a", 10, 1)],
                                                    {("C", ("a", "b")), ("C", ("c", "d"))}),
        "unbounded region with an island": ([("h", 8, -1), ("i", 3, 1)], {"h", "i"}),
        "single curve": ([("a", 5, 1)], {"a"}),
        "hollow disk": ([("a", 5, 1), ("b", 2, -1)], {("C", ("a", "b"))}),
    }
    for label, (spec, want) in worlds.items():
        simples = tuple(Simple(n, r, s) for n, r, s in spec)
        made = []
        try:
            got = Runner(ctx, {fd.qname}, grouping_hook(made)).call_fn(fd, [simples])
        except Undecided as ex:
            out.undecided(fd.qname, f"{label}: not interpretable: {ex}", where=fd.where())
            continue
        norm = set()
        for g in got:
            norm.add(g if isinstance(g, tuple) else g.name)
        small = [m for m in made if m[0] == "C" and len(m[1]) < 2]
        if small:
            out.bad(fd.qname, "builds a ConnectedShape with fewer than two subshapes", where=fd.where())
        elif norm != want:
            out.bad(fd.qname, f"wrong grouping of result curves ({label})", where=fd.where(),
                    detail=f"components {sorted(map(str, norm))}, required {sorted(map(str, want))} (the curve of largest "
                           f"|area| must seed each component)")
        else:
            out.ok(fd.qname, f"{label}: components {sorted(map(str, norm))}", where=fd.where())
    # ShapeFromJordans: 1 curve -> the SimpleShape itself; 1 component -> that component; else DisjointShape
    fsj = ctx.fn("shape.ShapeFromJordans")
    for spec, want_kind in (([("a", 5, 1)], "S"), ([("a", 5, 1), ("b", 2, -1)], "C"), ([("h", 8, -1), ("i", 3, 1)], "D")):
        curves = tuple(Simple(n, r, s) for n, r, s in spec)
        made = []
        try:
            got = Runner(ctx, {fd.qname, fsj.qname}, grouping_hook(made)).call_fn(fsj, [curves])
        except (Undecided, Raised) as ex:
            out.undecided(fsj.qname, f"not interpretable: {ex}", where=fsj.where())
            continue
        kind = "S" if isinstance(got, Simple) else got[0] if isinstance(got, tuple) else "?"
        (out.ok if kind == want_kind else out.bad)(
            fsj.qname, f"{len(spec)} curve(s) -> {want_kind}" if kind == want_kind else
            f"{len(spec)} curve(s) give kind {kind}, required {want_kind}", where=fsj.where())
    return out


def r06_5(ctx):
    o = C01.r01_1(ctx)
    o.rule = "R06.5"
    o.text = ("a result without any boundary is returned as the right singleton, and the Empty/Whole short-cuts return "
              "singletons or copies (same analysis as R01.1)")
    return o


def r06_6(ctx):
    from rules import C15
    o = C15.r15_1(ctx)
    o.rule = "R06.6"
    o.text = ("no zero-length piece from splitting: parameters equal to 0 or 1 within the tolerance are ignored, "
              "symmetrically (same analysis as R15.1)")
    return o


def r06_7(ctx):
    from rules import C01
    o = C01.r01_3(ctx)
    o.rule = "R06.7"
    o.text = ("every boundary curve of one operand is cut against every boundary curve of the other (all pairs, not "
              "index-wise, not only the first) before any piece is selected (same analysis as R01.3)")
    return o


def r06_8(ctx):
    from rules import C10
    o = C10.r10_1(ctx)
    o.rule = "R06.8"
    o.text = ("the containment short-cuts that decide the kind of a result never read a box or an orientation cached before the shape was transformed in place (same analysis as R10.1)")
    return o


def r06_9(ctx):
    from rules import C01
    o = C01.r01_2(ctx)
    o.rule = "R06.9"
    o.text = ("the pieces from which a result is assembled are the right ones and are addressed consistently: every selected (curve, segment) index refers to the curve list handed to follow_path, also when a curve of an operand contributes no piece (same analysis as R01.2)")
    return o


RULES = [r06_1, r06_2, r06_3, r06_4, r06_5, r06_6, r06_7, r06_8, r06_9]
