"""C12 -- results do not depend on position, orientation or unit of length.

 R12.1 scale homogeneity of decisions (engine D): in every comparison, +/-,
       min/max, round() and limit_denominator() of curve.py, jordancurve.py,
       shape.py and polygon.py both sides carry the same power of the unit of
       length, or one side is the literal 0 / inf.  A length compared with a
       dimensionless literal is a decision that changes with the unit.
 R12.2 translation invariance of predicates (affine weights): the arguments of
       inner / cross / abs / arctan2 and both sides of coordinate comparisons
       are displacements (differences of positions), never bare positions.
The decisions that are scale dependent on today's tree are genuine violations
with no small repair (a relative-tolerance design is needed); they are listed
in known_findings.json, one entry per (function, abstract fact).  Any new one
is a VIOLATION.
Not decided: whether a particular input crosses one of the thresholds; rotation
invariance (no static handle beyond R09.1).
"""
from verifkit.core import Outcome
from verifkit.dim import dims, FILES
from verifkit.weight import weights

ASSUMPTIONS = [
    "seed dimensions: Point2D coordinates L^1, curve parameters L^0, float(shape) L^2, float(jordan) L^1; nonzero "
    "numeric literals and class constants are dimensionless; 0 and inf are polymorphic",
    "numpy dot/inner multiply the dimensions of their operands",
]


def fmt_dim(d):
    return {"C": "const", "Z": "0"}.get(d, f"L^{d}")


def _owner(ctx, q, depth=0):
    """the function a finding is attributed to: a private helper that a later change cut out of exactly one function (it
    is not a name of the baseline, and one function calls it) counts as part of that function -- so that a known finding
    whose statement moved into such a helper is still the known finding, and a new one is reported under the function
    a reader knows"""
    from verifkit.known_names import KNOWN
    fn = ctx.model.funcs.get(q)
    if fn is None or depth > 3 or fn.name in KNOWN or (fn.name.startswith("__") and fn.name.endswith("__")):
        return q
    callers = sorted(c for c in ctx.model.funcs if c != q and q in ctx.graph.callees(c))
    if len(callers) != 1:
        return q
    return _owner(ctx, callers[0], depth + 1)


def r12_1(ctx):
    D = dims(ctx)
    out = Outcome("R12.1", "every comparison / additive expression / round / limit_denominator is homogeneous in the "
                           "unit of length (or compares with literal 0 / inf)", floor=40)
    bad_by_key = {}
    for (q, what, a, b, ln, txt) in D.ALL:
        bad_by_key.setdefault((_owner(ctx, q), q, what, a, b), []).append((ln, txt))
    flagged = set()
    for (owner, q, what, a, b), occ in sorted(bad_by_key.items()):
        fn = ctx.model.funcs[q]
        flagged.add(q)
        moved = f" (in `{q}`, a private helper cut out of it)" if owner != q else ""
        out.bad(owner, f"{what}: {fmt_dim(a)} vs {fmt_dim(b)}", where=f"{fn.path}:{occ[0][0]}",
                detail=f"{len(occ)} statement(s), e.g. `{occ[0][1]}`{moved} -- the decision changes with the unit of length")
    for q, st in sorted(D.FN_STATS.items()):
        n = st["compare"] + st["addsub"]
        if n and q not in flagged:
            out.ok(q, f"{st['compare']} comparisons and {st['addsub']} additive expressions homogeneous",
                   where=ctx.model.funcs[q].where())
    out.note(f"analysed {D.STATS['compare']} comparisons ({D.STATS['compare_undetermined']} with an undetermined side, "
             f"counted but not reported) and {D.STATS['addsub']} additive expressions in {FILES}")
    return out


def r12_2(ctx):
    W = weights(ctx)
    out = Outcome("R12.2", "predicates are translation invariant: inner / cross / abs / arctan2 and coordinate "
                           "comparisons are applied to differences of positions", floor=1)
    seen = set()
    for (q, ln, what, txt) in W.findings:
        fn = ctx.model.funcs[q]
        if (q, what) in seen:
            continue
        seen.add((q, what))
        out.bad(q, what, where=f"{fn.path}:{ln}", detail=f"`{txt}` depends on the choice of origin")
    out.ok("curve+jordancurve+shape", f"{W.sites} predicate sites fed with displacements only", nontrivial=True)
    if W.sites < 40:
        out.undecided("curve+jordancurve+shape", f"only {W.sites} predicate sites recognised (confirmed by hand: 67)")
    return out


def r12_3(ctx):
    from rules import C17
    o = C17.r17_3(ctx)
    o.rule = "R12.3"
    o.text = ("the boxes used as quick rejects enclose what they stand for: the box of a segment / closed curve / shape contains every point of it, interior extrema of curved pieces included (same analysis as R17.3); a box that misses an arc bulge makes operators depend on the rotation of the drawing")
    return o


RULES = [r12_1, r12_2, r12_3]
