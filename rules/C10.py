"""C10 -- answers depend only on the current geometry, not on earlier calls.

 R10.1 cache coherence of every lazily computed field (today JordanCurve.__lenght):
       path-sensitive abstract interpretation of every method of the class
       (verifkit/cache.py) + a who-may-write rule for functions outside it.
 R10.2 module-level memo tables: key completeness and immutability of the
       stored value (by construction or by read-only use in every caller).
 R10.3 no nondeterminism source reaches a result (random/time/environ/hash(),
       id() outside identity bookkeeping, iteration over hash-unstable sets).
 R10.4 a query writes nothing but the cache and subdivisions (= R08.4).
"""
import ast
import math

from verifkit import affine, cache, pat
from verifkit.core import Outcome
from verifkit.model import EXT, NUM, NONE, BOOL, UNK, AnalysisError
from verifkit.own import ownership
from rules import C08

ASSUMPTIONS = C08.ASSUMPTIONS + [
    "hash() of int / float / Fraction / tuples of those does not depend on PYTHONHASHSEED (only str/bytes hashing is "
    "randomised)",
    "an orientation-preserving isometry of all control points changes neither length nor orientation of a curve",
]

U = ast.unparse
LOWER = ("polygon.Point2D", "curve.BezierCurve", "curve.PlanarCurve")


def signed_length_law(ctx, cls, fsrc, filler):
    """Transformation law of a cache whose value is +-(length) with the sign of the enclosed area, and its check on the
    in-place transformations of `cls` by abstract runs (W): after move / rotate / scale the cached value must be reset
    (None) or equal the transformed value -- unchanged under isometries, multiplied by sign(xs*ys)*|xs| when
    |xs| == |ys|, and not expressible from the old value otherwise.
    Returns {method qname: None (verified) | text of the counterexample}; {} when the cache is not of this kind."""
    from fractions import Fraction as Fr
    from verifkit.absrun import Obj, Runner, StandIn
    from verifkit.finite import Raised, Undecided
    called = {t.qname for n in ast.walk(filler.node) for t in ctx.typer.of(filler).targets(n)}
    if not ({"jordancurve.IntegrateJordan.lenght", "jordancurve.IntegrateJordan.area"} <= called):
        return {}

    class V(StandIn):
        def move(self, *a, **k):
            return self

        scale = rotate = move

    def hook(rn, ev, call, cname, recv, args, kwargs):
        if cname in ("Point2D", "isinstance"):
            return True if cname == "isinstance" else tuple(args)
        return NotImplemented
    res = {}
    for name in ("move", "rotate", "scale"):
        fns = ctx.model.lookup(cls, name)
        if not fns:
            continue
        fn = fns[0]
        if name == "move":
            cases = [((Fr(3), Fr(-4)), lambda c: c)]
        elif name == "rotate":
            cases = [((0.75,), lambda c: c), ((30.0, True), lambda c: c)]
        else:
            cases = []
            for xs in (Fr(-3), Fr(-1), Fr(1), Fr(2)):
                for ys in (Fr(-2), Fr(-1), Fr(1), Fr(2), Fr(3)):
                    if abs(xs) == abs(ys):
                        cases.append(((xs, ys), (lambda c, xs=xs, ys=ys: (1 if xs * ys > 0 else -1) * abs(xs) * c)))
                    else:
                        cases.append(((xs, ys), None))
        verdict = None
        for args, law in cases:
            for c0 in (Fr(10), Fr(-7)):
                vs = tuple(V() for _ in range(3))
                S = Obj("J", vertices=vs, segments=tuple(Obj(f"s{i}", ctrlpoints=(vs[i], vs[(i + 1) % 3])) for i in range(3)),
                        **{fsrc: c0})
                try:
                    Runner(ctx, set(), hook, ext={"np.asarray": float, "math.radians": math.radians}).call_fn(fn, [S] + list(args))
                except (Undecided, Raised, TypeError, ValueError, AttributeError, ArithmeticError) as ex:
                    verdict = verdict or f"not interpretable: {ex}"
                    continue
                got = S.__dict__.get(fsrc)
                if got is None:
                    continue
                if law is None:
                    verdict = f"{name}{tuple(map(str, args))} keeps the cached value {got} although a non-uniform scaling " \
                              f"changes the length by a factor that depends on the shape"
                elif got != law(c0):
                    verdict = f"{name}{tuple(map(str, args))} turns the cached {c0} into {got}; the transformed curve has " \
                              f"{law(c0)} (a reflection reverses the orientation, i.e. the sign)"
        res[fn.qname] = verdict
    return res


def r10_1(ctx):
    out = Outcome("R10.1", "every lazily cached field is reset after each write to the state it is derived from, on "
                           "every normal path of every method (isometries of the points excepted, derived by R09.1)",
                  floor=20)
    caches = cache.find_lazy_caches(ctx)
    caches = caches + cache.find_eager_snapshots(ctx, caches)
    if not caches:
        raise AnalysisError("no lazily computed field found (expected at least JordanCurve.__lenght)")
    O = ownership(ctx)
    kinds = affine.point_kinds(ctx)
    seen = set()
    for cls, mangled, fsrc, filler in caches:
        if (cls, mangled) in seen:
            continue
        seen.add((cls, mangled))
        # incremental updates of the cache (self.F *= k) are accepted only where the transformation law verifies them
        laws = signed_length_law(ctx, cls, fsrc, filler)
        cc = cache.coherence(ctx, cls, mangled, fsrc, filler, trusted_updates=[q for q, v in laws.items() if v is None])
        out.note(f"cache {cls}.{fsrc}: filled in {filler.qname}; isometries exempt: {cc.exempt_isometries}; "
                 f"composite sharing: {cc.composite}")
        for q, v in sorted(laws.items()):
            if q in cc.updates or v is not None:
                fnq = ctx.model.funcs[q]
                if v is None:
                    out.ok(q, f"incremental update of the cached {fsrc.strip('_')} agrees with the transformation law",
                           where=fnq.where())
                elif v.startswith("not interpretable"):
                    if q in cc.updates:
                        out.undecided(q, f"cached {fsrc.strip('_')} across the transformation: {v}", where=fnq.where())
                else:
                    out.bad(q, f"the cached {fsrc.strip('_')} kept across the transformation is not the value of the "
                               f"transformed curve", where=fnq.where(), detail=v)
        inherited, own_bad = [], 0
        for q, fn in sorted(cc.kmethods.items()):
            if fn.name.startswith("_") and not (fn.name.startswith("__") and fn.name.endswith("__")) \
                    and any(q in cc.ctx.graph.callees(c) for c in cc.kmethods if c != q):
                continue          # a private helper called by other methods is judged through them (they may reset after it)
            exits = cc.tables[q][(cache.Mb, False)] | cc.tables[q][(cache.N, False)]
            stale = [s for s in exits if s[1]]
            writes = cc.wlog.get(q, [])
            if stale:
                txt = sorted({w for _, ws in writes for w in ws})
                if not txt:
                    inherited.append((q, fn))     # stale only through a callee that is reported itself
                    continue
                own_bad += 1
                out.bad(q, f"writes the state the cached {fsrc.strip('_')} is derived from without resetting the cache",
                        where=fn.where(), detail=f"non-isometric writes on some path not followed by a reset: {txt[:4]}")
            elif writes and cc.composite and not _resets_children(ctx, fn, fsrc):
                out.bad(q, f"writes state shared with sub-objects (field {cc.composite}) that cache {fsrc.strip('_')} "
                           f"themselves, without resetting their caches", where=fn.where(),
                        detail="instances of this class hold other instances of it; a reset of the own cache leaves "
                               "the sub-objects' caches stale")
            elif writes and cc.composite:
                out.undecided(q, f"hierarchical cache {fsrc}: cannot verify that every sub-object's cache is reset",
                              where=fn.where())
            else:
                out.ok(q, f"cache {mangled} coherent at every normal exit", where=fn.where(), nontrivial=bool(writes))
        for q, fn in inherited:
            if own_bad:
                out.ok(q, f"cache {mangled}: stale only through a callee that is reported itself", where=fn.where())
            else:
                out.bad(q, f"may return with the cached {fsrc.strip('_')} stale (through its callees)", where=fn.where())
        reported = set()
        # who may write: functions that are not methods of the class (or act on another instance)
        for q, fn in sorted(ctx.model.funcs.items()):
            inf = ctx.typer.of(fn)
            for e in O.events.get(q, []):
                if not cc.is_derived_field(e["field"]):
                    continue
                if q in cc.kmethods and e["param"] == fn.params[0]:
                    continue
                if q.startswith(LOWER):
                    continue      # the lower layers own their fields
                pt = inf.env.get(e["param"], UNK)
                if not _involves(ctx, pt, cls):
                    continue
                via = e["via"]
                if via is None or via[0] is None:
                    direct = True
                    root = q
                else:
                    callee = via[0]
                    if not callee.startswith(LOWER):
                        continue      # delegated: that function is checked itself
                    direct = False
                    root = cc.root_writer(*via)
                    if kinds.get(root, (None,))[0] in affine.ISOMETRY and cc.exempt_isometries:
                        continue
                fact = (f"writes state of a {cls} (parameter `{e['param']}`) behind the cached {fsrc.strip('_')}: "
                        f"{'direct write of ' + e['field'] if direct else e['field'] + ' via ' + root}")
                if (q, fact) not in reported:
                    reported.add((q, fact))
                    out.bad(q, fact, where=fn.where(e["node"]))
    # dead caches (assigned None, never filled): reported as a note only
    for cls, (mod, node, bases) in ctx.model.classes.items():
        for n in ast.walk(node):
            if isinstance(n, ast.Assign) and isinstance(n.value, ast.Constant) and n.value.value is None:
                for t in n.targets:
                    if isinstance(t, ast.Attribute) and U(t.value) == "self":
                        name = t.attr
                        reads = [x for x in ast.walk(node) if isinstance(x, ast.Attribute) and x.attr == name
                                 and isinstance(x.ctx, ast.Load)]
                        if not reads:
                            out.note(f"{cls}.{name} is initialised to None and never read (dead cache field)")
    return out


def _resets_children(ctx, fn, fsrc):
    """some store of the cache field on a receiver other than self, or a call of a method of the class on an element
    of self (recognised loosely; the caller then reports 'undecided', never 'ok')"""
    selfn = fn.params[0]
    for n in ast.walk(fn.node):
        if isinstance(n, ast.Assign):
            for t in n.targets:
                if isinstance(t, ast.Attribute) and t.attr == fsrc and not (isinstance(t.value, ast.Name)
                                                                            and t.value.id == selfn):
                    return True
    return False


def _holders(ctx, cls):
    """classes from which an instance of cls is reachable through the field-type table (upward closure)"""
    from verifkit.model import FIELD_TYPES
    fam = set([cls] + ctx.model.subclasses(cls))
    changed = True
    while changed:
        changed = False
        for (c, f), t in FIELD_TYPES.items():
            if c in fam:
                continue
            stack, inside = [t], set()
            while stack:
                x = stack.pop()
                if isinstance(x, str):
                    inside.add(x)
                elif isinstance(x, tuple) and x:
                    stack += list(x[1]) if x[0] in ("tup", "union") else [x[1]]
            if inside & fam or any(set(ctx.model.subclasses(k)) & fam for k in inside if k in ctx.model.classes):
                fam |= set([c] + ctx.model.subclasses(c))
                changed = True
    return fam | {c for c in ctx.model.classes if "Shape" in c and "JordanCurve" in fam}


def _involves(ctx, t, cls):
    holders = _holders(ctx, cls)
    if isinstance(t, str):
        return t in holders
    if isinstance(t, tuple) and t:
        if t[0] == "seq":
            return _involves(ctx, t[1], cls)
        if t[0] in ("tup", "union"):
            return any(_involves(ctx, x, cls) for x in t[1])
    return False


# ---------------------------------------------------------------------------
def find_memo_tables(ctx):
    """class-level dicts used as `if key not in Cls.__t: ... Cls.__t[key] = v`"""
    out = []
    for cls, consts in ctx.model.class_consts.items():
        for name, val in consts.items():
            if isinstance(val, ast.Dict) and not val.keys:
                out.append((cls, name))
    return out


def names_in(e):
    return {n.id for n in ast.walk(e) if isinstance(n, ast.Name)}


def _name_deps(fn):
    """local name -> names its definitions mention (flow-insensitive)"""
    defs = {}
    for n in ast.walk(fn.node):
        if isinstance(n, ast.Assign):
            for t in n.targets:
                for nm in ([t] if isinstance(t, ast.Name) else list(t.elts) if isinstance(t, ast.Tuple) else []):
                    if isinstance(nm, ast.Name):
                        defs.setdefault(nm.id, set()).update(names_in(n.value))
        elif isinstance(n, (ast.For, ast.comprehension)):
            for nm in ast.walk(n.target):
                if isinstance(nm, ast.Name):
                    defs.setdefault(nm.id, set()).update(names_in(n.iter))
    return defs


def _key_vars(fn, keyexpr, defs):
    """the variables a memo key is made of: a local name used as key stands for what it was built from"""
    out, work = set(), list(names_in(keyexpr))
    while work:
        x = work.pop()
        if x in out:
            continue
        out.add(x)
        if x not in fn.params:
            work += list(defs.get(x, ()))
    return out


def r10_2(ctx):
    out = Outcome("R10.2", "memo tables: the stored value depends on the key variables and constants only, and is "
                           "immutable by construction or only read by every caller", floor=3)
    tables = find_memo_tables(ctx)
    for cls, name in tables:
        users = []
        for fn in ctx.model.methods[cls].values():
            for n in ast.walk(fn.node):
                if isinstance(n, ast.Assign) and any(isinstance(t, ast.Subscript) and U(t.value) == f"{cls}.{name}"
                                                     for t in n.targets):
                    users.append((fn, n))
        handled = False
        if True:
            # table filled / read through setdefault(key, default) or get: the memoised object is handed out and must
            # never change
            for fn in ctx.model.methods[cls].values():
                for n in ast.walk(fn.node):
                    if isinstance(n, ast.Assign) and isinstance(n.value, ast.Call) and isinstance(n.value.func, ast.Attribute) \
                            and n.value.func.attr in ("setdefault", "get") and U(n.value.func.value) == f"{cls}.{name}":
                        handled = True
                        names = {x.id for t in n.targets for x in ast.walk(t) if isinstance(x, ast.Name)}
                        muts = _mutations_of(fn, names)
                        keyvars = _key_vars(fn, n.value.args[0], _name_deps(fn)) if n.value.args else set()
                        if muts:
                            for q, where, what in muts:
                                out.bad(q, f"mutates a memoised value of {cls}.{name}: {what}", where=where,
                                        detail="the cached object grows / changes with the arguments of earlier calls: "
                                               "answers depend on the call history")
                        else:
                            out.ok(fn.qname, f"memo {cls}.{name} filled through setdefault and never mutated", where=fn.where(n))
                        # the value returned must not depend on parameters outside the key
                        rets = [r for r in ast.walk(fn.node) if isinstance(r, ast.Return) and r.value is not None
                                and names & names_in(r.value)]
                        extra = set()
                        for r in rets:
                            extra |= (names_in(r.value) & set(fn.params)) - keyvars
                        if rets and not muts and extra:
                            out.bad(fn.qname, f"memo key incomplete: the returned entry depends on parameter(s) {sorted(extra)} "
                                              f"not in the key", where=fn.where(n))
        if not users:
            if not handled:
                out.undecided(f"{cls}.{name}", "memo table without a recognised store `Cls.table[key] = value`")
            continue
        for fn, store in users:
            tgt = [t for t in store.targets if isinstance(t, ast.Subscript)][0]
            keyvars = _key_vars(fn, tgt.slice, _name_deps(fn))
            # every access of the table in this function must use the same key
            keys = {ast.dump(tgt.slice)}
            for n in ast.walk(fn.node):
                if isinstance(n, ast.Subscript) and U(n.value) == f"{cls}.{name}":
                    keys.add(ast.dump(n.slice))
                if isinstance(n, ast.Compare) and any(isinstance(o, (ast.In, ast.NotIn)) for o in n.ops) \
                        and U(n.comparators[0]) == f"{cls}.{name}":
                    keys.add(ast.dump(n.left))
            if len(keys) > 1:
                out.bad(fn.qname, "memo table is tested / read / written under different keys", where=fn.where(store))
            params = set(fn.params)
            # data dependence of the stored value inside the function (flow-insensitive closure over local defs)
            defs = {}
            for n in ast.walk(fn.node):
                if isinstance(n, ast.Assign):
                    for t in n.targets:
                        for nm in ([t] if isinstance(t, ast.Name) else list(t.elts) if isinstance(t, ast.Tuple) else []):
                            if isinstance(nm, ast.Name):
                                defs.setdefault(nm.id, set()).update(names_in(n.value))
                elif isinstance(n, (ast.For, ast.comprehension)):
                    for nm in ast.walk(n.target):
                        if isinstance(nm, ast.Name):
                            defs.setdefault(nm.id, set()).update(names_in(n.iter))
            dep, work = set(), list(names_in(store.value))
            while work:
                x = work.pop()
                if x in dep:
                    continue
                dep.add(x)
                work += list(defs.get(x, ()))
            # keys must be discrete: 0.5 and Fraction(1, 2) are the same dict key, so a table keyed by numeric *values*
            # hands the first caller's numeric type (float / exact) to every later caller with an equal value
            numeric = []
            for pn in sorted(keyvars & params):
                arg = next((a for a in fn.node.args.posonlyargs + fn.node.args.args + fn.node.args.kwonlyargs if a.arg == pn), None)
                ann = U(arg.annotation) if arg is not None and arg.annotation is not None else ""
                asserted = any(isinstance(x, ast.Call) and isinstance(x.func, ast.Name) and x.func.id == "isinstance"
                               and len(x.args) == 2 and pat.is_name(x.args[0], pn)
                               and U(x.args[1]) in ("int", "str", "bool", "(int,)", "type")
                               for st in fn.node.body if isinstance(st, ast.Assert) for x in ast.walk(st.test))
                if ann in ("int", "str", "bool", "type") or asserted:
                    continue
                numeric.append(pn)
            if numeric:
                out.bad(fn.qname, f"memo key holds numeric values of parameter(s) {numeric}: equal values of different "
                                  f"numeric types (0.5 == Fraction(1, 2)) share one entry, so the stored result keeps the "
                                  f"type of whoever called first", where=fn.where(store))
            missing = sorted((dep & params) - keyvars)
            if missing:
                out.bad(fn.qname, f"memo key incomplete: value depends on parameter(s) {missing} not in the key",
                        where=fn.where(store))
            else:
                out.ok(fn.qname, f"memo key {sorted(keyvars)} covers every parameter the value depends on",
                       where=fn.where(store))
            # immutability
            imm = _immutable_by_construction(fn, store.value, defs_nodes(fn))
            if imm:
                out.ok(fn.qname, "stored value is nested tuples (immutable by construction)", where=fn.where(store))
            else:
                bad = _mutating_uses_of_result(ctx, fn) + _memo_value_handed_to_mutator(ctx, fn, cls, name, store)
                if bad:
                    for q, where, what in bad:
                        out.bad(q, f"mutates a memoised value of {cls}.{name}: {what}", where=where)
                else:
                    out.ok(fn.qname, "stored value is not immutable by construction but every caller only reads it",
                           where=fn.where(store))
    return out


def _memo_value_handed_to_mutator(ctx, fn, cls, name, store):
    """inside the memoising function itself: the stored object (or what is read back from the table) is changed in
    place, or passed to a function whose effect summary (engine O) writes that parameter"""
    O = ownership(ctx)
    inf = ctx.typer.of(fn)
    table = f"{cls}.{name}"
    names = {x.id for x in ast.walk(store.value) if isinstance(x, ast.Name)}
    for n in ast.walk(fn.node):
        if isinstance(n, ast.Assign) and isinstance(n.value, ast.Subscript) and U(n.value.value) == table:
            names |= {x.id for t in n.targets for x in ast.walk(t) if isinstance(x, ast.Name)}
    names -= set(fn.params)
    bad = list(_mutations_of(fn, names))
    for n in ast.walk(fn.node):
        if not isinstance(n, ast.Call):
            continue
        for t in inf.targets(n, ("call",)):
            ps = [a.arg for a in t.node.args.posonlyargs + t.node.args.args]
            if t.kind in ("method", "getter", "setter", "class") and isinstance(n.func, ast.Attribute) and ps:
                ps = ps[1:]
            for pn, a in list(zip(ps, n.args)) + [(k.arg, k.value) for k in n.keywords if k.arg in ps]:
                if isinstance(a, ast.Name) and a.id in names and O.S[t.qname].mut.get(pn):
                    fields = sorted({f for (f, d, g) in O.S[t.qname].mut[pn]})
                    bad.append((fn.qname, fn.where(n), f"`{a.id}` is handed to {t.qname}, which modifies it in place "
                                                       f"({', '.join(fields)[:40]})"))
    return bad


def defs_nodes(fn):
    d = {}
    for n in ast.walk(fn.node):
        if isinstance(n, ast.Assign):
            for t in n.targets:
                if isinstance(t, ast.Name):
                    d.setdefault(t.id, []).append(n.value)
                elif isinstance(t, ast.Tuple) and isinstance(n.value, ast.Tuple) and len(t.elts) == len(n.value.elts):
                    for a, b in zip(t.elts, n.value.elts):
                        if isinstance(a, ast.Name):
                            d.setdefault(a.id, []).append(b)
    return d


def _is_tuple_of_tuples(e):
    """tuple(tuple(x) for x in ...) or tuple((tuple(..) ...))"""
    if isinstance(e, ast.Call) and U(e.func) == "tuple" and len(e.args) == 1:
        a = e.args[0]
        if isinstance(a, (ast.GeneratorExp, ast.ListComp)):
            el = a.elt
            return isinstance(el, ast.Call) and U(el.func) == "tuple"
    return False


def _immutable_by_construction(fn, value, defs):
    parts = value.elts if isinstance(value, ast.Tuple) else [value]
    for p in parts:
        if isinstance(p, ast.Name):
            cands = defs.get(p.id, [])
            # the last definition must be a tuple-of-tuples construction
            if not cands or not _is_tuple_of_tuples(cands[-1]):
                return False
        elif not _is_tuple_of_tuples(p):
            return False
    return True


MUTATING_METHODS = {"append", "extend", "insert", "pop", "remove", "sort", "reverse", "clear", "fill", "resize", "put",
                    "itemset", "__setitem__", "update", "add"}


def _mutating_uses_of_result(ctx, memo_fn):
    """callers of memo_fn: uses of the bound result that could mutate it"""
    bad = []
    for q, fn in ctx.model.funcs.items():
        inf = ctx.typer.of(fn)
        for node, kind, tg in inf.calls:
            if kind == "call" and isinstance(tg, list) and memo_fn in tg:
                # find the variable(s) bound to this call
                for st in ast.walk(fn.node):
                    if isinstance(st, ast.Assign) and st.value is node:
                        names = {n.id for t in st.targets for n in ast.walk(t) if isinstance(n, ast.Name)}
                        bad += _mutations_of(fn, names)
    return bad


def _mutations_of(fn, names):
    bad = []
    for n in ast.walk(fn.node):
        if isinstance(n, (ast.Assign, ast.AugAssign)):
            tgts = n.targets if isinstance(n, ast.Assign) else [n.target]
            for t in tgts:
                base = t
                while isinstance(base, ast.Subscript):
                    base = base.value
                if isinstance(t, ast.Subscript) and isinstance(base, ast.Name) and base.id in names:
                    bad.append((fn.qname, fn.where(n), U(n)[:60]))
                if isinstance(n, ast.AugAssign) and isinstance(t, ast.Name) and t.id in names:
                    bad.append((fn.qname, fn.where(n), U(n)[:60]))
        if isinstance(n, ast.Call) and isinstance(n.func, ast.Attribute) and isinstance(n.func.value, ast.Name) \
                and n.func.value.id in names and n.func.attr in MUTATING_METHODS:
            bad.append((fn.qname, fn.where(n), U(n)[:60]))
    return bad


# ---------------------------------------------------------------------------
NONDET_MODULES = {"random", "time", "secrets", "uuid", "datetime", "threading", "multiprocessing"}


def hash_stable(t):
    if t in (NUM, BOOL, NONE):
        return True
    if isinstance(t, tuple) and t and t[0] == "tup":
        return all(hash_stable(x) for x in t[1])
    if isinstance(t, tuple) and len(t) == 2 and t[0] == "seq":
        return hash_stable(t[1])          # an element of a set is hashable: a homogeneous tuple
    return False


def r10_3(ctx):
    out = Outcome("R10.3", "no nondeterminism source reaches a result: no random/time/environ/hash(); id() only in "
                           "identity bookkeeping; every set that is iterated holds hash-stable elements or is sorted",
                  floor=5)
    for mod, tree in ctx.model.modules.items():
        for n in ast.walk(tree):
            if isinstance(n, ast.Import):
                for a in n.names:
                    if a.name.split(".")[0] in NONDET_MODULES:
                        out.bad(f"{mod}", f"imports nondeterminism source `{a.name}`", where=f"{ctx.model.paths[mod]}:{n.lineno}")
            if isinstance(n, ast.ImportFrom) and (n.module or "").split(".")[0] in NONDET_MODULES:
                out.bad(f"{mod}", f"imports nondeterminism source `{n.module}`", where=f"{ctx.model.paths[mod]}:{n.lineno}")
    from verifkit import setorder
    for q, fn in sorted(ctx.model.funcs.items()):
        inf = ctx.typer.of(fn)
        for node, site in setorder.analyse(fn, inf).items():
            types = [t for t in site.types if t != UNK] or [UNK]
            if not site.sensitive:
                out.ok(q, "set: its iteration order never reaches a sequence (only sorted / membership / set algebra)",
                       where=fn.where(node))
            elif all(hash_stable(t) for t in types):
                out.ok(q, f"set: elements hash-stable ({types[0]})", where=fn.where(node))
            elif types == [UNK]:
                out.undecided(q, "a set whose element type is not inferred is turned into a sequence", where=fn.where(node),
                              detail=f"order-sensitive use `{U(site.sensitive[0])[:60]}`")
            else:
                use = site.sensitive[0]
                out.bad(q, "iteration order of a set with hash-unstable elements can reach a result: "
                           f"element types {types} in {fn.qname}", where=fn.where(node),
                        detail=f"order-sensitive use `{U(use)[:60]}` at line {getattr(use, 'lineno', '?')}")
        parents = {}
        for p in ast.walk(fn.node):
            for c in ast.iter_child_nodes(p):
                parents[id(c)] = p
        for n in ast.walk(fn.node):
            if isinstance(n, ast.Call) and isinstance(n.func, ast.Name) and n.func.id == "hash":
                out.bad(q, "hash() value used", where=fn.where(n))
            if isinstance(n, ast.Attribute) and U(n) in ("os.environ", "os.getenv", "os.getpid", "os.urandom"):
                out.bad(q, f"reads {U(n)}", where=fn.where(n))
            if isinstance(n, ast.Call) and isinstance(n.func, ast.Name) and n.func.id == "id":
                ok = _id_use_is_bookkeeping(fn, n, parents)
                (out.ok if ok else out.bad)(q, "id() used only for identity membership / equality" if ok
                                            else "id() value flows into something other than an identity test",
                                            where=fn.where(n))
    return out


def _is_set_creation(n):
    if isinstance(n, (ast.Set, ast.SetComp)):
        return True
    return isinstance(n, ast.Call) and isinstance(n.func, ast.Name) and n.func.id in ("set", "frozenset")


def _holder_membership_only(fn, holder, parents):
    for x in ast.walk(fn.node):
        if isinstance(x, ast.Name) and x.id == holder and isinstance(x.ctx, ast.Load):
            px = parents.get(id(x))
            if isinstance(px, ast.Attribute) and px.attr in ("append", "add"):
                continue
            if isinstance(px, ast.Compare) and x in px.comparators and all(isinstance(op, (ast.In, ast.NotIn)) for op in px.ops):
                continue
            return False
    return True


def _id_use_is_bookkeeping(fn, n, parents):
    p = parents.get(id(n))
    named = None
    if isinstance(p, ast.NamedExpr) and p.value is n and isinstance(p.target, ast.Name):
        # (ident := id(x)): the walrus itself sits in a membership / equality test, and every later use of the name is
        # a membership test, an equality test or an append to a list that is only used for membership
        gp = parents.get(id(p))
        if not (isinstance(gp, ast.Compare) and all(isinstance(op, (ast.In, ast.NotIn, ast.Eq, ast.NotEq, ast.Is, ast.IsNot))
                                                    for op in gp.ops)):
            return False
        named = p.target.id
    elif isinstance(p, ast.Assign) and p.value is n and len(p.targets) == 1 and isinstance(p.targets[0], ast.Name):
        # ident = id(x): a local that holds nothing else, used like the walrus form
        named = p.targets[0].id
        def targets_of(a):
            return a.targets if isinstance(a, ast.Assign) else [a.target]
        others = [a for a in ast.walk(fn.node) if isinstance(a, (ast.Assign, ast.AugAssign, ast.AnnAssign, ast.For, ast.NamedExpr))
                  and a is not p and any(isinstance(t, ast.Name) and t.id == named for tt in targets_of(a) for t in ast.walk(tt))
                  and not (isinstance(a, ast.Assign) and isinstance(a.value, ast.Call) and isinstance(a.value.func, ast.Name)
                           and a.value.func.id == "id")]
        if others:
            return False
    if named is not None:
        for x in ast.walk(fn.node):
            if isinstance(x, ast.Name) and x.id == named and isinstance(x.ctx, ast.Load):
                px = parents.get(id(x))
                if isinstance(px, ast.Compare) and all(isinstance(op, (ast.In, ast.NotIn, ast.Eq, ast.NotEq, ast.Is, ast.IsNot))
                                                       for op in px.ops):
                    continue
                if isinstance(px, ast.Call) and isinstance(px.func, ast.Attribute) and px.func.attr in ("append", "add") \
                        and isinstance(px.func.value, ast.Name) and _holder_membership_only(fn, px.func.value.id, parents):
                    continue
                return False
        return True
    # id(x) in ids / id(x) not in ids / id(a) == id(b) / ids.append(id(x)) where ids only used for membership
    if isinstance(p, ast.Compare):
        return all(isinstance(op, (ast.In, ast.NotIn, ast.Eq, ast.NotEq, ast.Is, ast.IsNot)) for op in p.ops)
    if isinstance(p, ast.Call) and isinstance(p.func, ast.Attribute) and p.func.attr in ("append", "add") \
            and isinstance(p.func.value, ast.Name):
        holder = p.func.value.id
        for x in ast.walk(fn.node):
            if isinstance(x, ast.Name) and x.id == holder and isinstance(x.ctx, ast.Load):
                px = parents.get(id(x))
                if isinstance(px, ast.Attribute) and px.attr in ("append", "add"):
                    continue
                if isinstance(px, ast.Compare) and x in px.comparators and all(
                        isinstance(op, (ast.In, ast.NotIn)) for op in px.ops):
                    continue
                return False
        return True
    # id(x) as the key of a dict (comprehension, display, d[id(x)] = .., setdefault) whose keys never leave it: the dict is
    # only read through .values() / membership / subscripts / len -- insertion order, not the id values, decides
    holder = None
    if isinstance(p, (ast.DictComp, ast.Dict)) and (p.key is n if isinstance(p, ast.DictComp) else any(k is n for k in p.keys)):
        a = parents.get(id(p))
        if isinstance(a, ast.Assign) and len(a.targets) == 1 and isinstance(a.targets[0], ast.Name):
            holder = a.targets[0].id
        elif isinstance(a, ast.Call) and isinstance(a.func, ast.Attribute) and a.func.attr == "values":
            return True
        elif isinstance(a, ast.Attribute) and a.attr == "values":
            return True
    elif isinstance(p, ast.Subscript) and p.slice is n and isinstance(p.value, ast.Name):
        holder = p.value.id
    elif isinstance(p, ast.Call) and isinstance(p.func, ast.Attribute) and p.func.attr in ("setdefault", "get", "pop") \
            and p.args and p.args[0] is n and isinstance(p.func.value, ast.Name):
        holder = p.func.value.id
    if holder is not None:
        for x in ast.walk(fn.node):
            if isinstance(x, ast.Name) and x.id == holder and isinstance(x.ctx, ast.Load):
                px = parents.get(id(x))
                if isinstance(px, ast.Attribute) and px.attr in ("values", "setdefault", "get", "pop", "clear", "__contains__", "__len__"):
                    continue
                if isinstance(px, ast.Subscript) and px.value is x:
                    continue
                if isinstance(px, ast.Compare) and x in px.comparators and all(isinstance(op, (ast.In, ast.NotIn)) for op in px.ops):
                    continue
                if isinstance(px, ast.Call) and isinstance(px.func, ast.Name) and px.func.id == "len":
                    continue
                return False
        return True
    return False


def _set_use(fn, inf, n, parents):
    """(ok, reason): how the set created at n is used"""
    # element type
    et = UNK
    if isinstance(n, ast.Call) and n.args:
        t = inf.typeof(n.args[0])
        et = t[1] if isinstance(t, tuple) and t and t[0] == "seq" else (UNK if not (isinstance(t, tuple) and t and t[0] == "tup") else (t[1][0] if t[1] else UNK))
    elif isinstance(n, ast.SetComp):
        et = inf.typeof(n.elt)
    elif isinstance(n, ast.Set):
        ts = [inf.typeof(e) for e in n.elts]
        et = ts[0] if ts else UNK
    # find the name it is bound to (directly or as element of a tuple/dict entry)
    p = parents.get(id(n))
    holder = None
    hop = n
    while p is not None and not isinstance(p, (ast.Assign, ast.Expr, ast.Return, ast.For)):
        hop, p = p, parents.get(id(p))
    if isinstance(p, ast.Assign):
        for t in p.targets:
            if isinstance(t, ast.Name):
                holder = t.id
            elif isinstance(t, ast.Subscript) and isinstance(t.value, ast.Name):
                holder = t.value.id
    # immediately wrapped: sorted(set(..)) / list(set(..))
    pp = parents.get(id(n))
    if isinstance(pp, ast.Call) and isinstance(pp.func, ast.Name) and pp.func.id == "sorted":
        return True, "sorted immediately"
    added = []
    if holder:
        for x in ast.walk(fn.node):
            if isinstance(x, ast.Call) and isinstance(x.func, ast.Attribute) and x.func.attr == "add":
                base = x.func.value
                while isinstance(base, ast.Subscript):
                    base = base.value
                if isinstance(base, ast.Name) and base.id == holder and x.args:
                    added.append(inf.typeof(x.args[0]))
    types = [t for t in ([et] + added) if t != UNK] or [UNK]
    if all(hash_stable(t) for t in types):
        return True, f"elements hash-stable ({types[0]})"
    # otherwise every iteration must go through sorted()
    if holder and _only_sorted_iteration(fn, holder, parents):
        return True, "only iterated through sorted()"
    return False, f"element types {types} in {fn.qname}"


def _only_sorted_iteration(fn, holder, parents):
    for x in ast.walk(fn.node):
        if isinstance(x, ast.Name) and x.id == holder and isinstance(x.ctx, ast.Load):
            p = parents.get(id(x))
            while isinstance(p, ast.Subscript):
                p = parents.get(id(p))
            if isinstance(p, ast.Attribute) and p.attr in ("add", "discard", "remove", "update"):
                continue
            if isinstance(p, ast.Compare):
                continue
            if isinstance(p, ast.Call) and isinstance(p.func, ast.Name) and p.func.id in ("sorted", "len", "min", "max", "sum"):
                continue
            if isinstance(p, ast.comprehension):
                # [tuple(sorted(nodes)) for nodes in holder] : element-wise sorted
                continue
            return False
    return True


def r10_4(ctx):
    o = C08.r08_4(ctx)
    o.rule = "R10.4"
    o.text = "a query writes nothing of its operands but the length cache and subdivisions (same analysis as R08.4)"
    return o


def r10_5(ctx):
    from rules import C15
    o = C15.r15_4(ctx)
    o.rule = "R10.5"
    o.text = ("subdivisions left in an operand by earlier operations do not disturb later ones: split addresses the "
              "right segment also when some requested parameters fall on existing vertices and insert nothing (same "
              "analysis as R15.4)")
    return o


RULES = [r10_1, r10_2, r10_3, r10_4, r10_5]
