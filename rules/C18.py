"""C18 -- segment calculus (partial: the Bernstein / Horner algebra, derivative
matrices of pynurbs, split re-parametrisation and projection accuracy are
arithmetic identities outside this family and are NOT decided).

 R18.1 Derivate.non_rational_bezier composes `times` single-step matrices of
       degrees degree, degree-1, ... in that order (symbolic product) and
       returns the zero row when times > degree.
 R18.2 BaseCurve.__call__ dispatches an iterable of nodes to eval(nodes) and a
       scalar to eval((node,))[0].
 R18.3 the degree-keyed memo tables are keyed completely and never mutated
       (= R10.2); no per-object cache of derivatives / evaluations can go stale
       (= R10.1, generic over any lazily filled field).
 R18.4 box() = componentwise min / max over all control points (= R17.3).
 R18.5 decision structure of `point in segment`: outside the box -> False;
       otherwise True iff some projected distance is below the tolerance.
 R18.6 winding_number_linear returns the subtended angle / tau wrapped into
       [-1/2, 1/2] (decision table over the raw angle difference).
"""
import ast
from fractions import Fraction as Fr

from verifkit.absrun import Obj, Runner, StandIn
from verifkit.core import Outcome
from verifkit.finite import Undecided, Raised
from rules import C10, C17

ASSUMPTIONS = ["pynurbs derivate_nonrational_bezier returns the exact single-step derivative matrix (trusted base)",
               "np.dot is the matrix product"] + C17.ASSUMPTIONS
U = ast.unparse


def r18_1(ctx):
    out = Outcome("R18.1", "k-th derivative matrix = D(p-k+1) ... D(p-1) D(p) (single-step matrices applied in order of "
                           "decreasing degree); zero when k > p", floor=4)
    fn = ctx.fn("curve.Derivate.non_rational_bezier")
    for degree, times in ((3, 1), (3, 2), (5, 3), (2, 2)):
        def hook(rn, ev, call, name, recv, args, kwargs):
            if name == "isinstance":
                return True
            if name == "non_rational_bezier_once":
                return ("D", args[0])
            if name == "eye":
                return ("I", args[0])
            if name == "dot":
                return ("dot", args[0], args[1])
            if name == "tuple" and args and isinstance(args[0], tuple) and args[0] and args[0][0] in ("dot", "I"):
                return args[0]
            return NotImplemented
        try:
            got = Runner(ctx, set(), hook, asserts=True).call_fn(fn, [degree, times])
        except (Undecided, Raised, TypeError) as ex:
            # the final `tuple(tuple(line) for line in matrix)` iterates the symbolic product: unwrap by hand
            got = ("ERR", str(ex))
        want = ("I", degree + 1)
        for i in range(times):
            want = ("dot", ("D", degree - i), want)
        # the function post-processes the product into nested tuples; compare the product captured by the hook
        prod = _last_product(ctx, fn, degree, times)
        if prod != want:
            out.bad(fn.qname, "derivative matrices are not composed in order of decreasing degree", where=fn.where(),
                    detail=f"degree {degree}, times {times}: product {prod}, required {want}")
        else:
            out.ok(fn.qname, f"degree {degree}, {times} time(s): D({degree - times + 1})..D({degree})", where=fn.where())
    # times > degree: zero matrix, one row of degree + 1 zeros
    try:
        got = Runner(ctx, set(), lambda rn, ev, c, n, r, a, k: True if n == "isinstance" else NotImplemented,
                     asserts=True).call_fn(fn, [2, 3])
        ok = tuple(got) == ((0, 0, 0),)
        (out.ok if ok else out.bad)(fn.qname, "times > degree -> zero row" if ok else f"times > degree gives {got!r}", where=fn.where())
    except (Undecided, Raised) as ex:
        out.undecided(fn.qname, f"times > degree: {ex}", where=fn.where())
    return out


def _last_product(ctx, fn, degree, times):
    last = {}

    class Mat(StandIn):
        def __init__(self, sym):
            self.sym = sym

        def __iter__(self):
            return iter(())

    def hook(rn, ev, call, name, recv, args, kwargs):
        if name == "isinstance":
            return True
        if name == "non_rational_bezier_once":
            return Mat(("D", args[0]))
        if name == "eye":
            return Mat(("I", args[0]))
        if name == "dot":
            m = Mat(("dot", args[0].sym, args[1].sym))
            last["m"] = m.sym
            return m
        return NotImplemented
    try:
        Runner(ctx, set(), hook, asserts=True).call_fn(fn, [degree, times])
    except (Undecided, Raised, AttributeError) as ex:
        return ("ERR", str(ex))
    return last.get("m")


def r18_2(ctx):
    out = Outcome("R18.2", "curve(nodes) == curve.eval(nodes) for an iterable, curve(t) == curve.eval((t,))[0] for a scalar",
                  floor=2)
    fn = ctx.fn("curve.BaseCurve.__call__")

    class C(StandIn):
        def __init__(self):
            self.asked = []

        def eval(self, nodes):
            self.asked.append(nodes)
            return tuple(("pt", n) for n in nodes)
    for arg, want_nodes, want in (((Fr(1, 3), Fr(1, 2)), (Fr(1, 3), Fr(1, 2)), (("pt", Fr(1, 3)), ("pt", Fr(1, 2)))),
                                  (Fr(1, 4), (Fr(1, 4),), ("pt", Fr(1, 4)))):
        c = C()
        try:
            got = Runner(ctx, set(), None).call_fn(fn, [c, arg])
        except (Undecided, Raised) as ex:
            out.undecided(fn.qname, str(ex), where=fn.where())
            continue
        ok = got == want and [tuple(a) for a in c.asked] == [tuple(want_nodes)]
        kind = "iterable" if isinstance(arg, tuple) else "scalar"
        (out.ok if ok else out.bad)(fn.qname, f"{kind} argument dispatched correctly" if ok else
                                    f"{kind} argument: eval called with {c.asked}, returns {got!r}", where=fn.where())
    return out


def r18_3(ctx):
    a = C10.r10_2(ctx)
    a.rule = "R18.3a"
    b = C10.r10_1(ctx)
    b.rule = "R18.3b"
    b.text = "no lazily filled per-object field (derivative / evaluation cache) can go stale (same analysis as R10.1)"
    return [a, b]


def r18_4(ctx):
    o = C17.r17_3(ctx)
    o.rule = "R18.4"
    return o


class Dist(StandIn):
    def __init__(self, d):
        self.d = d

    def __sub__(self, o):
        return self

    def __abs__(self):
        return self.d

    def norm2(self):
        return self.d * self.d


def r18_5(ctx):
    out = Outcome("R18.5", "`point in segment`: False outside the bounding box; otherwise True iff one of the projected "
                           "points is closer than the tolerance", floor=4)
    out.exhaustive = True
    fn = ctx.fn("curve.PlanarCurve.__contains__")
    tol = Fr(1, 10**6)
    cases = [("outside the box", False, [Fr(0)], False), ("in the box, on the curve", True, [Fr(3), Fr(0)], True),
             ("in the box, within tolerance", True, [tol / 2], True), ("in the box, farther than the tolerance", True, [tol * 3, Fr(1)], False),
             ("in the box, no projection", True, [], False)]
    for label, inbox, dists, want in cases:
        class Bx(StandIn):
            def __contains__(self, p):
                return inbox

        class Cv(StandIn):
            def box(self):
                return Bx()

            def eval(self, params):
                return tuple(Dist(d) for d in dists)

            def __call__(self, params):
                return self.eval(params)

        def hook(rn, ev, call, name, recv, args, kwargs):
            if name == "Point2D":
                return args[0]
            if name == "point_on_curve":
                return tuple(range(len(dists)))
            return NotImplemented
        try:
            got = Runner(ctx, set(), hook).call_fn(fn, [Cv(), "P"])
        except (Undecided, Raised) as ex:
            out.undecided(fn.qname, f"{label}: {ex}", where=fn.where())
            continue
        (out.ok if got is want else out.bad)(fn.qname, f"{label} -> {want}" if got is want else
                                             f"{label}: returns {got!r}, required {want}", where=fn.where())
    return out


def r18_6(ctx):
    out = Outcome("R18.6", "winding_number_linear = (angle_b - angle_a)/tau wrapped into [-1/2, 1/2]", floor=7)
    out.exhaustive = True
    import math
    fn = ctx.fn("curve.IntegratePlanar.winding_number_linear")
    for wraw in (-0.75, -0.5, -0.25, 0.0, 0.25, 0.5, 0.75):
        angles = iter([0.0, wraw * math.tau])

        def hook(rn, ev, call, name, recv, args, kwargs):
            if name == "arctan2":
                return next(angles)
            return NotImplemented
        P = (0.0, 0.0)
        try:
            got = Runner(ctx, set(), hook).call_fn(fn, [P, P, P])
        except (Undecided, Raised, StopIteration) as ex:
            out.undecided(fn.qname, f"raw {wraw}: {ex}", where=fn.where())
            continue
        ok = abs(got) <= 0.5 + 1e-12 and abs(((got - wraw) + 0.5) % 1.0 - 0.5) < 1e-12
        (out.ok if ok else out.bad)(fn.qname, f"raw difference {wraw} turn -> {got:.2f}" if ok else
                                    f"raw difference {wraw} turn gives {got!r} (not the subtended angle in [-1/2, 1/2])",
                                    where=fn.where())
    return out


RULES = [r18_1, r18_2, r18_3, r18_4, r18_5, r18_6]
