"""C18 -- segment calculus (partial: the Bernstein / Horner algebra, derivative
matrices of pynurbs, split re-parametrisation and projection accuracy are
arithmetic identities outside this family and are NOT decided).

 R18.1 Derivate.non_rational_bezier composes `times` single-step matrices of
       degrees degree, degree-1, ... in that order (symbolic product) and
       returns the zero row when times > degree.
 R18.2 BaseCurve.__call__ dispatches an iterable of nodes to eval(nodes) and a
       scalar to eval((node,))[0].
 R18.3 the degree-keyed memo tables are keyed completely and never mutated
       (= R10.2); no per-object cache of derivatives / evaluations can go stale
       (= R10.1, generic over any lazily filled field).
 R18.4 box() = componentwise min / max over all control points (= R17.3).
 R18.5 decision structure of `point in segment`: outside the box -> False;
       otherwise True iff some projected distance is below the tolerance.
 R18.6 winding_number_linear returns the subtended angle / tau wrapped into
       [-1/2, 1/2] (decision table over the raw angle difference).
"""
import ast
from fractions import Fraction as Fr

from verifkit.absrun import Obj, Runner, StandIn
from verifkit.core import Outcome
from verifkit.known_names import is_new_helper
from verifkit.finite import Ev, Undecided, Raised
from rules import C10, C17

ASSUMPTIONS = ["pynurbs derivate_nonrational_bezier returns the exact single-step derivative matrix (trusted base)",
               "np.dot is the matrix product"] + C17.ASSUMPTIONS
U = ast.unparse


def r18_1(ctx):
    out = Outcome("R18.1", "k-th derivative matrix = D(p-k+1) ... D(p-1) D(p) (single-step matrices applied in order of "
                           "decreasing degree); zero when k > p", floor=4)
    fn = ctx.fn("curve.Derivate.non_rational_bezier")
    for degree, times in ((3, 1), (3, 2), (5, 3), (2, 2)):
        def hook(rn, ev, call, name, recv, args, kwargs):
            if name == "isinstance":
                return True
            if name == "non_rational_bezier_once":
                return ("D", args[0])
            if name == "eye":
                return ("I", args[0])
            if name == "dot":
                return ("dot", args[0], args[1])
            if name == "tuple" and args and isinstance(args[0], tuple) and args[0] and args[0][0] in ("dot", "I"):
                return args[0]
            return NotImplemented
        try:
            got = Runner(ctx, set(), hook, asserts=True).call_fn(fn, [degree, times])
        except (Undecided, Raised, TypeError) as ex:
            # the final `tuple(tuple(line) for line in matrix)` iterates the symbolic product: unwrap by hand
            got = ("ERR", str(ex))
        want = ("I", degree + 1)
        for i in range(times):
            want = ("dot", ("D", degree - i), want)
        # the function post-processes the product into nested tuples; compare the product captured by the hook
        prod = _last_product(ctx, fn, degree, times)
        if isinstance(prod, tuple) and prod and prod[0] == "ERR":
            # not a product of one-step matrices: compare the matrix itself with the k-th derivative matrix of the
            # Bernstein basis, row i = p!/(p-k)! * sum_j (-1)^(k-j) C(k, j) e_{i+j}
            val = _derivative_matrix_by_value(ctx, fn, degree, times)
            import math as _m
            fac = _m.factorial(degree) // _m.factorial(degree - times)
            wantm = [[Fr(0)] * (degree + 1) for _ in range(degree - times + 1)]
            for i in range(degree - times + 1):
                for j in range(times + 1):
                    wantm[i][i + j] = Fr(fac * _m.comb(times, j) * (-1) ** (times - j))
            if val is None:
                out.undecided(fn.qname, f"degree {degree}, times {times}: not interpretable: {prod[1]}", where=fn.where())
            elif val != wantm:
                out.bad(fn.qname, "the matrix is not the k-th derivative matrix of the Bernstein basis", where=fn.where(),
                        detail=f"degree {degree}, times {times}: first row {[str(x) for x in val[0]]}, required "
                               f"{[str(x) for x in wantm[0]]}")
            else:
                out.ok(fn.qname, f"degree {degree}, {times} time(s): the k-th derivative matrix (by value)", where=fn.where())
        elif prod != want:
            out.bad(fn.qname, "derivative matrices are not composed in order of decreasing degree", where=fn.where(),
                    detail=f"degree {degree}, times {times}: product {prod}, required {want}")
        else:
            out.ok(fn.qname, f"degree {degree}, {times} time(s): D({degree - times + 1})..D({degree})", where=fn.where())
    # times > degree: zero matrix, one row of degree + 1 zeros
    try:
        got = Runner(ctx, set(), lambda rn, ev, c, n, r, a, k: True if n == "isinstance" else NotImplemented,
                     asserts=True).call_fn(fn, [2, 3])
        ok = tuple(got) == ((0, 0, 0),)
        (out.ok if ok else out.bad)(fn.qname, "times > degree -> zero row" if ok else f"times > degree gives {got!r}", where=fn.where())
    except (Undecided, Raised) as ex:
        out.undecided(fn.qname, f"times > degree: {ex}", where=fn.where())
    return out


def _derivative_matrix_by_value(ctx, fn, degree, times):
    """the matrix the function returns, as rows of Fractions (numpy's zeros answered by a small matrix stand-in)"""
    class Arr(StandIn):
        def __init__(self, n, m):
            self.rows = [[Fr(0)] * m for _ in range(n)]

        def __setitem__(self, ij, v):
            self.rows[ij[0]][ij[1]] = v

        def __getitem__(self, ij):
            return self.rows[ij[0]][ij[1]] if isinstance(ij, tuple) else self.rows[ij]

        def __iter__(self):
            return iter(self.rows)

        def __len__(self):
            return len(self.rows)
    ext = {"np.zeros": lambda shape, dtype=None: (Arr(shape[0], shape[1]) if isinstance(shape, tuple) else [Fr(0)] * shape),
           "math.comb": __import__("math").comb, "math.factorial": __import__("math").factorial}
    try:
        got = Runner(ctx, {"curve.Math.comb"}, lambda rn, ev, c, n, r, a, k: True if n == "isinstance" else NotImplemented,
                     ext=ext, asserts=True).call_fn(fn, [degree, times])
        return [[Fr(x) for x in row] for row in got]
    except Exception:      # noqa: BLE001 -- the value-level fallback is best effort
        return None


def _last_product(ctx, fn, degree, times):
    last = {}

    class Mat(StandIn):
        def __init__(self, sym):
            self.sym = sym

        def __iter__(self):
            return iter(())

    def hook(rn, ev, call, name, recv, args, kwargs):
        if name == "isinstance":
            return True
        if name == "non_rational_bezier_once":
            return Mat(("D", args[0]))
        if name == "eye":
            return Mat(("I", args[0]))
        if name == "dot":
            m = Mat(("dot", args[0].sym, args[1].sym))
            last["m"] = m.sym
            return m
        return NotImplemented
    try:
        Runner(ctx, set(), hook, asserts=True).call_fn(fn, [degree, times])
    except (Undecided, Raised, AttributeError) as ex:
        return ("ERR", str(ex))
    return last.get("m")


def r18_2(ctx):
    out = Outcome("R18.2", "curve(nodes) == curve.eval(nodes) for an iterable, curve(t) == curve.eval((t,))[0] for a scalar",
                  floor=2)
    fn = ctx.fn("curve.BaseCurve.__call__")

    class C(StandIn):
        def __init__(self):
            self.asked = []

        def eval(self, nodes):
            self.asked.append(nodes)
            return tuple(("pt", n) for n in nodes)
    for arg, want_nodes, want in (((Fr(1, 3), Fr(1, 2)), (Fr(1, 3), Fr(1, 2)), (("pt", Fr(1, 3)), ("pt", Fr(1, 2)))),
                                  (Fr(1, 4), (Fr(1, 4),), ("pt", Fr(1, 4)))):
        c = C()
        try:
            got = Runner(ctx, set(), None).call_fn(fn, [c, arg])
        except (Undecided, Raised) as ex:
            out.undecided(fn.qname, str(ex), where=fn.where())
            continue
        ok = got == want and [tuple(a) for a in c.asked] == [tuple(want_nodes)]
        kind = "iterable" if isinstance(arg, tuple) else "scalar"
        (out.ok if ok else out.bad)(fn.qname, f"{kind} argument dispatched correctly" if ok else
                                    f"{kind} argument: eval called with {c.asked}, returns {got!r}", where=fn.where())
    return out


def r18_3(ctx):
    a = C10.r10_2(ctx)
    a.rule = "R18.3a"
    b = C10.r10_1(ctx)
    b.rule = "R18.3b"
    b.text = "no lazily filled per-object field (derivative / evaluation cache) can go stale (same analysis as R10.1)"
    return [a, b]


def r18_4(ctx):
    o = C17.r17_3(ctx)
    o.rule = "R18.4"
    return o


class Dist(StandIn):
    def __init__(self, d):
        self.d = d

    def __sub__(self, o):
        return self

    def __abs__(self):
        return self.d

    def norm2(self):
        return self.d * self.d

    # the stand-in is the vector (d, 0): every way of measuring it gives the same distance d
    def inner(self, o):
        return self.d * o.d

    __or__ = __matmul__ = inner

    def __mul__(self, o):
        return self.inner(o) if isinstance(o, Dist) else Dist(self.d * o)

    __rmul__ = __mul__

    def __getitem__(self, i):
        return (self.d, Fr(0))[i]

    def __iter__(self):
        return iter((self.d, Fr(0)))

    @property
    def x(self):
        return self.d

    @property
    def y(self):
        return Fr(0)


def r18_5(ctx):
    out = Outcome("R18.5", "`point in segment`: False outside the bounding box; otherwise True iff one of the projected "
                           "points is closer than the tolerance", floor=5)
    out.exhaustive = True
    fn = ctx.fn("curve.PlanarCurve.__contains__")
    tol = Fr(1, 10**6)
    cases = [("outside the box", False, [Fr(0)], False), ("in the box, on the curve", True, [Fr(3), Fr(0)], True),
             ("in the box, within tolerance", True, [tol / 2], True), ("in the box, farther than the tolerance", True, [tol * 3, Fr(1)], False),
             ("in the box, a hundred tolerances away", True, [tol * 100], False),
             ("in the box, no projection", True, [], False),
             # a control point between the ends of a curved segment is in the box and off the curve
             ("the query is the middle control point of a curved segment, a hundred tolerances away", True, [tol * 100], False)]
    for label, inbox, dists, want in cases:
        middle = "P" if label.startswith("the query is the middle") else "M"
        class Bx(StandIn):
            def __contains__(self, p):
                return inbox

        class Cv(StandIn):
            ctrlpoints = ("A", middle, "B")
            degree, npts = 2, 3

            def box(self):
                return Bx()

            def eval(self, params):
                return tuple(Dist(d) for d in dists)

            def __call__(self, params):
                return self.eval(params)

        def hook(rn, ev, call, name, recv, args, kwargs):
            if name == "Point2D":
                return args[0]
            if name == "point_on_curve":
                return tuple(range(len(dists)))
            return NotImplemented
        try:
            got = Runner(ctx, set(), hook).call_fn(fn, [Cv(), "P"])
        except (Undecided, Raised) as ex:
            out.undecided(fn.qname, f"{label}: {ex}", where=fn.where())
            continue
        (out.ok if got is want else out.bad)(fn.qname, f"{label} -> {want}" if got is want else
                                             f"{label}: returns {got!r}, required {want}", where=fn.where())
    return out


def r18_6(ctx):
    out = Outcome("R18.6", "winding_number_linear = (angle_b - angle_a)/tau wrapped into [-1/2, 1/2]", floor=7)
    out.exhaustive = True
    import math
    fn = ctx.fn("curve.IntegratePlanar.winding_number_linear")
    for wraw in (-0.75, -0.5, -0.25, 0.0, 0.25, 0.5, 0.75):
        angles = iter([0.0, wraw * math.tau])

        def hook(rn, ev, call, name, recv, args, kwargs):
            if name == "arctan2":
                return next(angles)
            return NotImplemented
        P = (0.0, 0.0)
        try:
            got = Runner(ctx, set(), hook).call_fn(fn, [P, P, P])
        except (Undecided, Raised, StopIteration) as ex:
            out.undecided(fn.qname, f"raw {wraw}: {ex}", where=fn.where())
            continue
        ok = abs(got) <= 0.5 + 1e-12 and abs(((got - wraw) + 0.5) % 1.0 - 0.5) < 1e-12
        (out.ok if ok else out.bad)(fn.qname, f"raw difference {wraw} turn -> {got:.2f}" if ok else
                                    f"raw difference {wraw} turn gives {got!r} (not the subtended angle in [-1/2, 1/2])",
                                    where=fn.where())
    return out


class Sym(StandIn):
    """symbolic number: polynomial with rational coefficients in named atoms (exact arithmetic for the interpreter)"""

    def __init__(self, p):
        self.p = p

    @staticmethod
    def lift(x):
        from verifkit import poly
        return x if isinstance(x, Sym) else Sym(poly.const(x))

    def __add__(self, o):
        from verifkit import poly
        return Sym(poly.add(self.p, Sym.lift(o).p))

    __radd__ = __add__

    def __sub__(self, o):
        from verifkit import poly
        return Sym(poly.sub(self.p, Sym.lift(o).p))

    def __rsub__(self, o):
        from verifkit import poly
        return Sym(poly.sub(Sym.lift(o).p, self.p))

    def __mul__(self, o):
        from verifkit import poly
        return Sym(poly.mul(self.p, Sym.lift(o).p))

    __rmul__ = __mul__

    def __neg__(self):
        from verifkit import poly
        return Sym(poly.neg(self.p))

    def __float__(self):
        return 0.0

    def __eq__(self, o):
        return isinstance(o, (Sym, int, Fr)) and self.p == Sym.lift(o).p

    def __hash__(self):
        return hash(tuple(sorted(self.p.items())))


def binom(n, k):
    from math import comb
    return comb(n, k)


def r18_7(ctx):
    """finite identity checks over the degrees 0..6 the property names (the interpreter evaluates the closed integer /
    rational helper functions on every value of that finite domain; symbolic for Horner)"""
    from verifkit import poly
    out = Outcome("R18.7", "basis helpers for every degree 0..6: comb = binomial coefficient; bezier_caract_matrix = "
                           "monomial coefficients of the Bernstein basis; horner_method = sum a_k x^k; linspace nodes",
                  floor=5)
    out.exhaustive = True
    hook = (lambda rn, ev, c, n, r, a, k: True if n == "isinstance" else NotImplemented)
    fc = ctx.fn("curve.Math.comb")
    bad = []
    try:
        for n in range(0, 8):
            for i in range(0, n + 1):
                got = Runner(ctx, set(), hook, asserts=True).call_fn(fc, [n, i])
                if got != binom(n, i):
                    bad.append((n, i, got))
        (out.bad if bad else out.ok)(fc.qname, f"comb differs from the binomial coefficient, e.g. comb{bad[0][:2]} = {bad[0][2]}"
                                     if bad else "comb(n, i) = C(n, i) for 0 <= i <= n <= 7", where=fc.where())
    except (Undecided, Raised) as ex:
        out.undecided(fc.qname, str(ex), where=fc.where())
    fm = ctx.fn("curve.Math.bezier_caract_matrix")

    class Arr(StandIn):
        def __init__(self, n, m):
            self.rows = [[0] * m for _ in range(n)]

        def __setitem__(self, ij, v):
            self.rows[ij[0]][ij[1]] = v

        def __getitem__(self, ij):
            return self.rows[ij[0]][ij[1]] if isinstance(ij, tuple) else self.rows[ij]

        def __iter__(self):
            return iter(self.rows)

    def hook_m(rn, ev, c, n, r, a, k):
        if n == "isinstance":
            return True
        if n == "zeros":
            return Arr(a[0][0], a[0][1])
        return NotImplemented
    try:
        bad = []
        for p_ in range(0, 7):
            import verifkit.absrun as AR
            mathcls = Obj("class:Math")
            mathcls.__dict__["__caract_matrix"] = {}
            AR.EXTRA_GLOBALS["Math"] = mathcls
            try:
                got = Runner(ctx, {fc.qname}, hook_m, asserts=True).call_fn(fm, [p_])
            finally:
                AR.EXTRA_GLOBALS.pop("Math", None)
            # expected: B_{i,p}(u) = C(p,i) u^i (1-u)^(p-i); row i, column j = coefficient of u^(p-j)
            for i in range(p_ + 1):
                pol = poly.const(binom(p_, i))
                for _ in range(i):
                    pol = poly.mul(pol, poly.atom("u"))
                for _ in range(p_ - i):
                    pol = poly.mul(pol, poly.sub(poly.const(1), poly.atom("u")))
                for j in range(p_ + 1):
                    want = pol.get(("u",) * (p_ - j), 0)
                    if got[i][j] != want:
                        bad.append((p_, i, j, got[i][j], want))
        (out.bad if bad else out.ok)(fm.qname, f"matrix entry [{bad[0][1]}][{bad[0][2]}] of degree {bad[0][0]} is {bad[0][3]}, "
                                     f"the Bernstein basis gives {bad[0][4]}" if bad else
                                     "rows = monomial coefficients of B_{i,p} for p = 0..6", where=fm.where())
    except (Undecided, Raised, IndexError, TypeError) as ex:
        out.undecided(fm.qname, str(ex), where=fm.where())
    fh = ctx.fn("curve.Math.horner_method")
    try:
        x = Sym(poly.atom("x"))
        coefs = [Sym(poly.atom(f"a{k}")) for k in (3, 2, 1, 0)]
        got = Runner(ctx, set(), None).call_fn(fh, [x, tuple(coefs)])
        want = poly.const(0)
        for k in range(4):
            term = poly.atom(f"a{k}")
            for _ in range(k):
                term = poly.mul(term, poly.atom("x"))
            want = poly.add(want, term)
        ok = isinstance(got, Sym) and got.p == want
        (out.ok if ok else out.bad)(fh.qname, "a0 + a1 x + a2 x^2 + a3 x^3 (symbolic)" if ok else
                                    f"horner_method([a3..a0]) = {poly.show(getattr(got, 'p', {}))}", where=fh.where())
    except (Undecided, Raised) as ex:
        out.undecided(fh.qname, str(ex), where=fh.where())
    for name, want in (("closed_linspace", lambda n: tuple(Fr(k, n - 1) for k in range(n))),
                       ("open_linspace", lambda n: tuple(Fr(2 * k + 1, 2 * n) for k in range(n)))):
        fl = ctx.fn(f"curve.Math.{name}")
        Ev.INT_DIV_IS_FLOAT = True           # the node count is an int: `k / n` is a float, `Fraction(k, n)` is not
        try:
            bad = [n for n in range(2, 9) if tuple(Runner(ctx, set(), hook, asserts=True).call_fn(fl, [n])) != want(n)
                   or not all(isinstance(x, (int, Fr)) for x in Runner(ctx, set(), hook, asserts=True).call_fn(fl, [n]))]
            (out.bad if bad else out.ok)(fl.qname, f"nodes wrong for npts = {bad[:3]}" if bad else
                                         "exact rational nodes for npts = 2..8", where=fl.where())
        except (Undecided, Raised) as ex:
            out.undecided(fl.qname, str(ex), where=fl.where())
        finally:
            Ev.INT_DIV_IS_FLOAT = False
    return out


def r18_8(ctx):
    out = Outcome("R18.8", "IntegratePlanar.winding_number = sum of the chord contributions of consecutive sample points "
                           "(npts samples by default) about the given centre; derivate = derivative matrix times the "
                           "control points", floor=3)
    fn = ctx.fn("curve.IntegratePlanar.winding_number")

    class Cv(StandIn):
        def __init__(self, npts):
            self.npts, self.degree = npts, npts - 1

        def eval(self, nodes):
            return tuple(("pt", n) for n in nodes)
    for nnodes, npts in ((None, 3), (None, 4), (6, 3)):
        calls = []

        def hook(rn, ev, call, name, recv, args, kwargs):
            if name == "isinstance":
                return True
            if name == "closed_linspace":
                return tuple(Fr(k, args[0] - 1) for k in range(args[0]))
            if name == "winding_number_linear":
                calls.append(tuple(args))
                return Fr(1, 10)
            return NotImplemented
        try:
            got = Runner(ctx, set(), hook, asserts=True).call_fn(fn, [Cv(npts), "C", nnodes])
        except (Undecided, Raised) as ex:
            out.undecided(fn.qname, str(ex), where=fn.where())
            continue
        n = nnodes or npts
        want = [(("pt", Fr(k, n - 1)), ("pt", Fr(k + 1, n - 1)), "C") for k in range(n - 1)]
        if calls != want:
            out.bad(fn.qname, "chords are not the consecutive sample pairs covering [0, 1] about the given centre",
                    where=fn.where(), detail=f"nnodes={nnodes}, npts={npts}: {len(calls)} chords {calls[:2]}")
        elif got != Fr(n - 1, 10):
            out.bad(fn.qname, "chord contributions are not simply added", where=fn.where())
        else:
            out.ok(fn.qname, f"nnodes={nnodes}, npts={npts}: {n - 1} consecutive chords summed", where=fn.where())
    for q in ("curve.PlanarCurve.derivate", "curve.BezierCurve.derivate"):
        fd = ctx.fn(q)
        C = Obj("C", degree=3, ctrlpoints=("P",))
        seen = {}

        class Inner(StandIn):
            """the Bezier curve a planar curve wraps: its own derivate(k) is decided by this rule on BezierCurve"""
            degree, ctrlpoints = 3, ("P",)

            def derivate(self, *a, **k):
                seen["delegated"] = (a, tuple(sorted(k.items())))
                t = a[0] if a else k.get("times", 1)
                return Obj("D", ctrlpoints=("DPTS", t), degree=3 - t)
        if q.startswith("curve.PlanarCurve"):
            C.__dict__["__planar"] = C.__dict__["_PlanarCurve__planar"] = Inner()

        def hook2(rn, ev, call, name, recv, args, kwargs):
            if name == "isinstance":
                return True
            if name == "non_rational_bezier":
                seen["m"] = tuple(args)
                return "MATRIX"
            if name == "dot":
                seen["dot"] = tuple(args)
                return "NEWPTS"
            if name == "__class__" or (isinstance(call.func, ast.Attribute) and call.func.attr == "__class__"):
                seen["ctor"] = tuple(args)
                return "CURVE"
            return NotImplemented
        try:
            got = Runner(ctx, set(), hook2, asserts=True).call_fn(fd, [C, 2])
            ok = got == "CURVE" and seen.get("m") == (3, 2) and seen.get("dot") == ("MATRIX", ("P",)) and seen.get("ctor") == ("NEWPTS",)
            # or: handed on to the wrapped Bezier curve, with the number of times
            ok2 = got == "CURVE" and "m" not in seen and seen.get("ctor") == (("DPTS", 2),)
            (out.ok if ok or ok2 else out.bad)(q, "derivate(k) = class(D(degree, k) . ctrlpoints)" if ok else
                                               "derivate(k) handed on to the wrapped curve with k" if ok2 else
                                               f"derivate(2) is not the second derivative: neither matrix(degree, 2) . ctrlpoints "
                                               f"nor the wrapped curve's derivate(2): {seen}", where=fd.where())
        except (Undecided, Raised) as ex:
            out.undecided(q, str(ex), where=fd.where())
    return out


class _MP(StandIn):
    """mutable numeric point: supports the in-place operators, so that aliasing of sample points is observable"""

    def __init__(self, x, y):
        self.x, self.y = x, y

    def __getitem__(self, i):
        return (self.x, self.y)[i]

    def __iter__(self):
        return iter((self.x, self.y))

    def __sub__(self, o):
        return _MP(self.x - o[0], self.y - o[1])

    def __add__(self, o):
        return _MP(self.x + o[0], self.y + o[1])

    def __isub__(self, o):
        self.x, self.y = self.x - o[0], self.y - o[1]
        return self

    def __iadd__(self, o):
        self.x, self.y = self.x + o[0], self.y + o[1]
        return self

    def __neg__(self):
        return _MP(-self.x, -self.y)

    def inner(self, o):
        return self.x * o[0] + self.y * o[1]

    def cross(self, o):
        return self.x * o[1] - self.y * o[0]

    def norm2(self):
        return self.x * self.x + self.y * self.y

    def __abs__(self):
        return float(self.x * self.x + self.y * self.y) ** 0.5

    def __copy__(self):
        return _MP(self.x, self.y)

    def __repr__(self):
        return f"({self.x}, {self.y})"


def r18_9(ctx):
    """abstract run (W) of IntegratePlanar.winding_number *through* winding_number_linear on a quadratic stand-in whose
    sample points are mutable objects and with Point2D(p) being p itself: the result must be the sum of the angles the
    consecutive chords subtend at the centre, computed here from the untouched coordinates"""
    import math
    out = Outcome("R18.9", "winding_number of a curved segment about a point off the origin = sum of the subtended chord "
                           "angles / tau (sample points shared by consecutive chords are not disturbed by the evaluation)",
                  floor=2)
    fn = ctx.fn("curve.IntegratePlanar.winding_number")
    P = [(0.0, 0.0), (1.0, 0.0), (1.0, 1.0)]

    def bez(t):
        t = float(t)
        return tuple((1 - t) ** 2 * a + 2 * t * (1 - t) * b + t * t * c for a, b, c in zip(*P))

    class Cv(StandIn):
        npts, degree = 3, 2

        @property
        def ctrlpoints(self):
            return tuple(_MP(*p) for p in P)

        def eval(self, nodes):
            try:
                return tuple(_MP(*bez(n)) for n in nodes)
            except TypeError:
                return _MP(*bez(nodes))

        __call__ = eval

    def hook(rn, ev, call, name, recv, args, kwargs):
        if name == "isinstance":
            return True
        if name == "Point2D":
            if len(args) == 1 and isinstance(args[0], _MP):
                return args[0]                  # Point2D(p) is p
            return _MP(*(args[0] if len(args) == 1 else args))
        return NotImplemented
    ext = {"np.arctan2": math.atan2, "math.atan2": math.atan2, "np.float64": float}
    # the last two centres lie between the sampled polyline and the chord joining the ends of the segment: there the
    # sum of the folded chord angles and the fold of the end-to-end angle differ by a full turn
    for centre, nn in (((3.0, -2.0), None), ((0.25, 0.5), 5), ((-1.0, 4.0), 4), ((0.58, 0.42), None), ((0.7, 0.45), 5),
                       # between the curve and its interior control point: the control polygon passes on the other side
                       ((0.9, 0.1), None), ((0.95, 0.2), 4)):
        n = nn or 3
        pts = [bez(k / (n - 1)) for k in range(n)]
        want = 0.0
        for a, b in zip(pts[:-1], pts[1:]):
            d = (math.atan2(b[1] - centre[1], b[0] - centre[0]) - math.atan2(a[1] - centre[1], a[0] - centre[0])) / math.tau
            d = d - 1 if d > 0.5 else d + 1 if d < -0.5 else d
            want += d
        C = _MP(*centre)
        try:
            got = Runner(ctx, set(), hook, asserts=True, ext=ext).call_fn(fn, [Cv(), C, nn])
        except (Undecided, Raised) as ex:
            out.undecided(fn.qname, f"centre {centre}: {ex}", where=fn.where())
            continue
        if (C.x, C.y) != centre:
            out.bad(fn.qname, "the query point is modified by the evaluation", where=fn.where(), detail=f"{centre} -> {C}")
        elif abs(float(got) - want) > 1e-9:
            out.bad(fn.qname, "the winding contribution is not the sum of the angles subtended by the chords", where=fn.where(),
                    detail=f"quadratic (0,0),(1,0),(1,1) about {centre} with {n} samples: returns {float(got):.6f}, the chords "
                           f"subtend {want:.6f} turns")
        else:
            out.ok(fn.qname, f"about {centre}, {n} samples: {want:.6f} turns", where=fn.where())
    return out


def r18_10(ctx):
    """abstract run (W) of BezierCurve.split on an exact cubic with one, two and three interior nodes: piece j must be
    the restriction of the curve to [t_j, t_j+1] (reference: de Casteljau with the later nodes rescaled to the remaining
    piece).  pynurbs' own splitter is the trusted base: it is answered by the same reference."""
    out = Outcome("R18.10", "split(nodes): piece j is the curve restricted to [t_j, t_j+1], for several nodes on one "
                            "segment as well", floor=3)
    fn = ctx.fn("curve.BezierCurve.split")
    P = [Fr(0), Fr(1), Fr(3), Fr(-2)]

    def casteljau(pts, t):
        left, right, cur = [], [], list(pts)
        while cur:
            left.append(cur[0])
            right.insert(0, cur[-1])
            cur = [a * (1 - t) + b * t for a, b in zip(cur[:-1], cur[1:])]
        return left, right

    def reference(pts, nodes):
        pieces, rest, prev = [], list(pts), Fr(0)
        for t in sorted(set(nodes)):
            left, rest = casteljau(rest, (Fr(t) - prev) / (1 - prev))
            pieces.append(tuple(left))
            prev = Fr(t)
        pieces.append(tuple(rest))
        return pieces

    class RefCurve(StandIn):
        def __init__(self, kv, pts):
            self.pts = list(pts)

        def split(self, nodes):
            return [Obj(f"piece{i}", ctrlpoints=p) for i, p in enumerate(reference(self.pts, nodes))]

    def hook(rn, ev, call, name, recv, args, kwargs):
        if name == "isinstance":
            return True
        if name in ("copy", "deepcopy") and args:
            return args[0]
        if name == "BezierCurve" or (isinstance(call.func, ast.Attribute) and call.func.attr == "__class__"):
            return ("BZ", tuple(args[0]))
        return NotImplemented
    ext = {"pynurbs.GeneratorKnotVector.bezier": lambda degree, *a: ("KV", degree), "pynurbs.Curve": RefCurve}
    for nodes in ((Fr(1, 2),), (Fr(1, 4), Fr(3, 4)), (Fr(1, 3), Fr(1, 2), Fr(5, 6))):
        C = Obj("C", degree=3, npts=4, ctrlpoints=tuple(P))
        try:
            got = Runner(ctx, set(), hook, ext=ext).call_fn(fn, [C, nodes])
        except (Undecided, Raised) as ex:
            out.undecided(fn.qname, f"nodes {tuple(map(str, nodes))}: {ex}", where=fn.where())
            continue
        pieces = [tuple(g[1]) if isinstance(g, tuple) and g and g[0] == "BZ" else tuple(getattr(g, "ctrlpoints", ())) for g in got]
        want = reference(P, nodes)
        if pieces == want:
            out.ok(fn.qname, f"nodes {tuple(map(str, nodes))}: {len(want)} pieces, each the restriction to its interval",
                   where=fn.where())
        else:
            k = next((i for i, (a, b) in enumerate(zip(pieces, want)) if a != b), min(len(pieces), len(want)))
            out.bad(fn.qname, "a piece of the split is not the curve restricted to its parameter interval", where=fn.where(),
                    detail=f"cubic {tuple(map(str, P))} split at {tuple(map(str, nodes))}: piece {k} is "
                           f"{tuple(map(str, pieces[k])) if k < len(pieces) else 'missing'}, required {tuple(map(str, want[k])) if k < len(want) else 'none'}")
    # one level up: PlanarCurve.split hands the nodes to its Bezier curve (here an exact stand-in that splits by the same
    # reference) -- all at once or one after the other, the pieces are the restrictions to the intervals of the
    # *original* parameters
    fp = ctx.fn("curve.PlanarCurve.split")

    class BezRef(StandIn):
        def __init__(self, pts):
            self.ctrlpoints = tuple(pts)
            self.degree, self.npts = len(self.ctrlpoints) - 1, len(self.ctrlpoints)

        def split(self, nodes):
            return tuple(BezRef(p) for p in reference(self.ctrlpoints, list(nodes)))

    def hook2(rn, ev, call, name, recv, args, kwargs):
        if name == "isinstance":
            return True
        if name in ("PlanarCurve", "__class__") or (isinstance(call.func, ast.Attribute) and call.func.attr == "__class__"):
            return ("PC", tuple(args[0]))
        return NotImplemented
    for nodes in ((Fr(1, 2),), (Fr(1, 4), Fr(3, 4)), (Fr(3, 4), Fr(1, 4)), (Fr(1, 3), Fr(1, 2), Fr(5, 6))):
        inner = BezRef(P)
        C = Obj("C", degree=3, npts=4, ctrlpoints=tuple(P))
        C.__dict__["__planar"] = inner
        C.__dict__["_PlanarCurve__planar"] = inner
        try:
            got = Runner(ctx, set(), hook2).call_fn(fp, [C, nodes])
        except (Undecided, Raised, TypeError, ValueError) as ex:
            out.undecided(fp.qname, f"nodes {tuple(map(str, nodes))}: {ex}", where=fp.where())
            continue
        pieces = [tuple(g[1]) if isinstance(g, tuple) and g and g[0] == "PC" else tuple(getattr(g, "ctrlpoints", ())) for g in got]
        want = reference(P, nodes)
        if pieces == want:
            out.ok(fp.qname, f"nodes {tuple(map(str, nodes))}: {len(want)} pieces, each the restriction to its interval", where=fp.where())
        else:
            k = next((i for i, (a, b) in enumerate(zip(pieces, want)) if a != b), min(len(pieces), len(want)))
            out.bad(fp.qname, "a piece of the split is not the curve restricted to its parameter interval", where=fp.where(),
                    detail=f"cubic {tuple(map(str, P))} split at {tuple(map(str, nodes))}: piece {k} is "
                           f"{tuple(map(str, pieces[k])) if k < len(pieces) else 'missing'}, required {tuple(map(str, want[k])) if k < len(want) else 'none'} "
                           f"(nodes handed on one after the other must be rescaled to the remaining piece)")
    return out


def r18_11(ctx):
    """S: nothing in the on-curve test (PlanarCurve.__contains__ and everything it calls) snaps a parameter or a distance
    to a grid coarser than 1e-9: the test accepts a point within 1e-6 of the curve, and a Newton parameter rounded to a
    denominator of at most n moves the foot point by up to |C'| / n."""
    from verifkit import pat
    out = Outcome("R18.11", "the projection behind `point in segment` never quantises its parameter or distance (no "
                            "limit_denominator / round coarser than 1e-9 in the callee closure of PlanarCurve.__contains__)",
                  floor=5)
    root = ctx.fn("curve.PlanarCurve.__contains__")
    seen, todo = set(), [root.qname]
    while todo:
        q = todo.pop()
        if q in seen or q not in ctx.model.funcs:
            continue
        seen.add(q)
        todo += list(ctx.graph.callees(q))
    FINEST = 10 ** 9
    for q in sorted(seen):
        fn = ctx.model.funcs[q]
        mconsts = pat.module_consts(ctx.model.modules.get(fn.mod))
        found = []
        for n in ast.walk(fn.node):
            if not isinstance(n, ast.Call):
                continue
            f = n.func
            name = f.attr if isinstance(f, ast.Attribute) else f.id if isinstance(f, ast.Name) else None
            if name == "limit_denominator":
                a = n.args[0] if n.args else next((k.value for k in n.keywords if k.arg == "max_denominator"), None)
                v = 10 ** 6 if a is None else pat.const_value(a)         # the default of the Fraction API is 10**6
                if v is None and isinstance(a, ast.Name):
                    v = mconsts.get(a.id)
                if v is None and isinstance(a, ast.Name) and a.id not in fn.params:
                    ds = [d for d in pat.local_defs(fn).get(a.id, []) if not isinstance(d, tuple)]
                    if len(ds) == 1 and len(pat.local_defs(fn).get(a.id, [])) == 1:
                        v = pat.const_value(ds[0])                       # a local name for the constant
                if v is None and isinstance(a, ast.Name) and a.id in fn.params:
                    # the resolution is an argument: the coarsest one handed over by the callers within the closure
                    idx = fn.params.index(a.id)
                    vals = []
                    for q2 in seen:
                        g = ctx.model.funcs[q2]
                        inf2 = ctx.typer.of(g)
                        for c in ast.walk(g.node):
                            if isinstance(c, ast.Call) and any(t.qname == fn.qname for t in inf2.targets(c, ("call",))):
                                off = 1 if (fn.kind in ("method", "getter", "setter", "class") and isinstance(c.func, ast.Attribute)) else 0
                                arg = c.args[idx - off] if 0 <= idx - off < len(c.args) else next(
                                    (k.value for k in c.keywords if k.arg == a.id), None)
                                vals.append(None if arg is None else pat.const_value(arg))
                    if vals and all(x is not None for x in vals):
                        v = min(vals)
                found.append((n, "limit_denominator", v))
            elif name in ("round", "around", "round_") and (isinstance(f, ast.Name) or U(f.value) in ("np", "numpy")):
                a = n.args[1] if len(n.args) > 1 else next((k.value for k in n.keywords if k.arg in ("ndigits", "decimals")), None)
                k = 0 if a is None else pat.const_value(a)
                found.append((n, name, None if k is None else 10 ** k))
            elif name in ("floor", "ceil", "trunc", "rint") and isinstance(f, ast.Attribute) and U(f.value) in ("math", "np", "numpy"):
                found.append((n, name, 1))
        if not found:
            out.ok(q, "no quantisation", where=fn.where(), nontrivial=q.startswith("curve.Projection") or q == root.qname)
            continue
        for n, what, res in found:
            if res is None:
                out.undecided(q, f"resolution of `{U(n)[:50]}` is not a constant", where=fn.where(n))
            elif res < FINEST:
                out.bad(q, f"a value of the on-curve test is snapped to a grid of 1/{res} by `{what}`", where=fn.where(n),
                        detail=f"`{U(n)[:60]}`: a point of the curve whose parameter is not on that grid is projected next to "
                               f"itself and reported as not on the curve")
            else:
                out.ok(q, f"`{what}` at resolution 1/{res} (not coarser than the stored coordinates)", where=fn.where(n))
    return out


def r18_12(ctx):
    """S, cross-check of sibling iterations.  A Newton step x <- x - f(x) / f'(x) on a polynomial of degree d in exact
    rational arithmetic multiplies the number of digits of x by about d at every step: ten steps on a cubic segment
    (d = 5) give iterates of millions of digits, and the call does not return in any reasonable time.  The search for
    crossings (Intersection.bezier_and_bezier) rounds its iterates with limit_denominator; every other iteration of the
    same shape must bound its iterates as well (limit_denominator / float / round inside the loop)."""
    out = Outcome("R18.12", "every Newton-type iteration on parameters that may be exact rationals keeps its iterates of "
                            "bounded size (rounded inside the loop), so that `point in segment`, `==` and the operators "
                            "return for integer / Fraction control points of curved segments too", floor=2)
    def newton_updates(node):
        """statements  v = u - a / b  /  u -= a / b  /  return u - a / b  under `node`"""
        def is_quotient(e):
            return isinstance(e, ast.BinOp) and isinstance(e.op, ast.Div) and not isinstance(e.right, ast.Constant)
        # names bound to a quotient (`step = f / df`)
        steps = {t.id for st in ast.walk(node) if isinstance(st, ast.Assign) and is_quotient(st.value)
                 for t in st.targets if isinstance(t, ast.Name)}
        found = []
        for e in ast.walk(node):
            if isinstance(e, ast.BinOp) and isinstance(e.op, ast.Sub) and (
                    is_quotient(e.right) or (isinstance(e.right, ast.Name) and e.right.id in steps)):
                found.append(e)
            elif isinstance(e, ast.AugAssign) and isinstance(e.op, ast.Sub) and (
                    is_quotient(e.value) or (isinstance(e.value, ast.Name) and e.value.id in steps)):
                found.append(e)
        return found

    def roundings(node):
        return [c for c in ast.walk(node) if isinstance(c, ast.Call) and (
            (isinstance(c.func, ast.Attribute) and c.func.attr in ("limit_denominator",))
            or (isinstance(c.func, ast.Name) and c.func.id in ("float", "round"))
            or (isinstance(c.func, ast.Attribute) and U(c.func) in ("np.float64", "np.round", "np.around")))]

    def helpers_called(fn, node):
        """private helpers of the module called under `node` (a Newton step / a rounding step extracted into a function)"""
        inf = ctx.typer.of(fn)
        out_ = []
        # closures defined in the function, and locals bound to what a private helper returns (`limit = _bounded(10**9)`)
        local_defs = {d.name: d for d in ast.walk(fn.node) if isinstance(d, (ast.FunctionDef, ast.Lambda)) and d is not fn.node
                      and hasattr(d, "name")}
        made_by = {}
        for st in ast.walk(fn.node):
            if isinstance(st, ast.Assign) and len(st.targets) == 1 and isinstance(st.targets[0], ast.Name) \
                    and isinstance(st.value, ast.Call):
                made_by[st.targets[0].id] = st.value
            if isinstance(st, ast.Assign) and len(st.targets) == 1 and isinstance(st.targets[0], ast.Name) \
                    and isinstance(st.value, ast.Lambda):
                local_defs[st.targets[0].id] = st.value

        class _Local:
            def __init__(self, node_):
                self.node, self.qname = node_, None
        seen, todo = set(), [node]
        while todo:
            scope = todo.pop()
            for c in ast.walk(scope):
                if not isinstance(c, ast.Call):
                    continue
                calls = [c] + ([made_by[c.func.id]] if isinstance(c.func, ast.Name) and c.func.id in made_by else [])
                for cc in calls:
                    for t in inf.targets(cc, ("call",)):
                        if t.mod == "curve" and (t.name.startswith("_") or is_new_helper(t.name)) and not t.name.endswith("__") and t.qname != fn.qname \
                                and t.qname not in seen:
                            seen.add(t.qname)
                            out_.append(t)
                if isinstance(c.func, ast.Name) and c.func.id in local_defs and id(local_defs[c.func.id]) not in seen:
                    seen.add(id(local_defs[c.func.id]))
                    out_.append(_Local(local_defs[c.func.id]))
                    todo.append(local_defs[c.func.id])
        return out_
    n = 0
    for q, fn in sorted(ctx.model.funcs.items()):
        if fn.mod != "curve":
            continue
        loops = [x for x in ast.walk(fn.node) if isinstance(x, (ast.For, ast.While))]
        for loop in loops:
            if any(l is not loop and any(x is loop for x in ast.walk(l)) for l in loops):
                continue                      # judged once, on the outermost loop
            helpers = helpers_called(fn, loop)
            updates = newton_updates(loop) + [u for h in helpers for u in newton_updates(h.node)]
            if not updates:
                continue
            evaluates = any(isinstance(c, ast.Call) and (
                (isinstance(c.func, ast.Name) and ("curve" in c.func.id.lower()))
                or (isinstance(c.func, ast.Attribute) and c.func.attr in ("eval", "__call__")))
                for scope in [loop] + [h.node for h in helpers] for c in ast.walk(scope))
            if not evaluates:
                continue
            n += 1
            bounded = roundings(loop) + [r for h in helpers for r in roundings(h.node)]
            if bounded:
                out.ok(q, f"Newton-type loop: iterates rounded by `{U(bounded[0])[:40]}`", where=fn.where(loop))
            else:
                out.bad(q, "a Newton-type iteration on possibly exact parameters never rounds its iterates: their size "
                           "multiplies at every step and the call does not return for curved segments with integer or "
                           "Fraction control points", where=fn.where(loop),
                        detail=f"`{U(updates[0])[:70]}` in a loop that evaluates the curve at the updated parameter; the "
                               f"sibling search for crossings rounds with limit_denominator")
    if n == 0:
        out.note("no Newton-type loop found in curve.py")
    return out


def r18_13(ctx):
    """abstract run (W) of BezierCurve.eval (through Math.bezier_caract_matrix and Math.horner_method, numpy's dot
    answered exactly on Fractions) on scalar control values of degree 1, 2, 3 and 5: the values at several parameters are
    those of de Casteljau's algorithm"""
    out = Outcome("R18.13", "BezierCurve.eval(nodes) = the Bernstein combination of the control points at every node, in the "
                            "order of the nodes (degrees 1, 2, 3, 5 against de Casteljau)", floor=4)
    fn = ctx.fn("curve.BezierCurve.eval")

    def casteljau(pts, t):
        cur = list(pts)
        while len(cur) > 1:
            cur = [(1 - t) * a + t * b for a, b in zip(cur, cur[1:])]
        return cur[0]

    def dot(a, b):
        def is_mat(m):
            return isinstance(m, (list, tuple)) and m and isinstance(m[0], (list, tuple))
        a = [list(r) for r in a] if is_mat(a) else list(a)
        b = [list(r) for r in b] if is_mat(b) else list(b)
        if not is_mat(a) and is_mat(b):
            return [sum((a[i] * b[i][j] for i in range(len(a))), Fr(0)) for j in range(len(b[0]))]
        if is_mat(a) and not is_mat(b):
            return [sum((a[i][j] * b[j] for j in range(len(b))), Fr(0)) for i in range(len(a))]
        if is_mat(a) and is_mat(b):
            return [[sum((a[i][k] * b[k][j] for k in range(len(b))), Fr(0)) for j in range(len(b[0]))] for i in range(len(a))]
        return sum((x * y for x, y in zip(a, b)), Fr(0))
    class Arr2(StandIn):
        """the object-dtype matrix the characteristic matrix is filled into"""

        def __init__(self, n, m):
            self.rows = [[Fr(0)] * m for _ in range(n)]

        def __setitem__(self, ij, v):
            self.rows[ij[0]][ij[1]] = v

        def __getitem__(self, ij):
            return self.rows[ij[0]][ij[1]] if isinstance(ij, tuple) else self.rows[ij]

        def __iter__(self):
            return iter(self.rows)

        def __len__(self):
            return len(self.rows)
    ext = {"np.dot": dot, "np.matmul": dot, "np.tensordot": lambda a, b, axes=None: dot(a, b), "np.inner": dot,
           "np.array": lambda x, dtype=None: x, "np.asarray": lambda x, dtype=None: x,
           "np.zeros": lambda shape, dtype=None: (Arr2(shape[0], shape[1]) if isinstance(shape, tuple) else [Fr(0)] * shape),
           "math.comb": __import__("math").comb}
    enter = {"curve.Math.bezier_caract_matrix", "curve.Math.horner_method", "curve.Math.comb", "curve.BezierCurve.degree",
             "curve.BezierCurve.npts", "curve.BezierCurve.ctrlpoints"}
    nodes = (Fr(0), Fr(1, 3), Fr(1, 2), Fr(7, 8), Fr(1), Fr(-1, 2), Fr(3, 2))     # "for every t": the polynomial, also beyond the ends
    for pts in ((Fr(2), Fr(-1)), (Fr(0), Fr(3), Fr(1)), (Fr(1), Fr(-2), Fr(4), Fr(3)), (Fr(1), Fr(0), Fr(5), Fr(-3), Fr(2), Fr(7))):
        d = len(pts) - 1
        B = Obj("B", ctrlpoints=tuple(pts), degree=d, npts=d + 1)
        try:
            got = list(Runner(ctx, enter, None, ext=ext).call_fn(fn, [B, nodes]))
        except (Undecided, Raised, TypeError, IndexError) as ex:
            out.undecided(fn.qname, f"degree {d}: {ex}", where=fn.where())
            continue
        want = [casteljau(pts, t) for t in nodes]
        if [Fr(g) for g in got] == want:
            out.ok(fn.qname, f"degree {d}: values at {len(nodes)} nodes agree with de Casteljau", where=fn.where())
        else:
            out.bad(fn.qname, "evaluation is not the Bernstein combination of the control points", where=fn.where(),
                    detail=f"degree {d}, control values {[str(p) for p in pts]} at {[str(t) for t in nodes]}: "
                           f"{[str(g) for g in got]}, de Casteljau gives {[str(w) for w in want]}")
    return out


class _PolyCv(StandIn):
    """an exact polynomial curve in the monomial basis, with the interface the projection uses: degree, derivate(),
    evaluation at an iterable of nodes"""

    def __init__(self, coefs):
        self.coefs = [tuple(c) for c in coefs]

    @classmethod
    def bezier(cls, pts):
        from math import comb
        d = len(pts) - 1
        coefs = []
        for j in range(d + 1):           # coefficient of t^j
            cx = cy = Fr(0)
            for i in range(j + 1):
                w = comb(d, j) * comb(j, i) * (-1) ** (i + j)
                cx += w * pts[i][0]
                cy += w * pts[i][1]
            coefs.append((cx, cy))
        return cls(coefs)

    @property
    def degree(self):
        return max(len(self.coefs) - 1, 0)

    @property
    def npts(self):
        return self.degree + 1

    def derivate(self, times=1):
        c = self.coefs
        for _ in range(times):
            c = [(k * x, k * y) for k, (x, y) in enumerate(c)][1:] or [(Fr(0), Fr(0))]
        return _PolyCv(c)

    def at(self, t):
        x = y = 0
        for cx, cy in reversed(self.coefs):
            x, y = x * t + cx, y * t + cy
        return (x, y)

    def eval(self, nodes):
        try:
            return tuple(_MP(*self.at(t)) for t in nodes)
        except TypeError:
            return _MP(*self.at(nodes))

    __call__ = eval


def r18_14(ctx):
    """abstract run (W) of Projection.point_on_curve through newton_iteration and closed_linspace on exact polynomial
    stand-ins (a strongly bent quadratic quarter turn, an uneven cubic, a straight segment): for a point C(t*) of the
    curve away from the start samples, one of the returned parameters is t* up to 1e-7 -- the necessary condition for
    `point in segment`, hence for every boundary answer on a curved edge"""
    out = Outcome("R18.14", "Projection.point_on_curve finds the parameter of a point lying on a curved segment (quadratic "
                            "quarter turn, uneven cubic; exact and float coordinates), so that points of a curved edge are "
                            "recognised as boundary points", floor=6)
    fn = ctx.fn("curve.Projection.point_on_curve")
    enter = {"curve.Projection.newton_iteration", "curve.Math.closed_linspace"}

    def hook(rn, ev, call, name, recv, args, kwargs):
        if name == "isinstance" and len(args) == 2 and isinstance(args[0], StandIn):
            return True
        if name == "Point2D":
            if len(args) == 1 and isinstance(args[0], _MP):
                return args[0]
            return _MP(*(args[0] if len(args) == 1 else args))
        return NotImplemented
    ext = {"np.linspace": lambda a, b, n: [a + (b - a) * Fr(k, n - 1) for k in range(n)]}
    quarter = [(Fr(1), Fr(0)), (Fr(1), Fr(1)), (Fr(0), Fr(1))]
    cubic = [(Fr(0), Fr(0)), (Fr(3), Fr(0)), (Fr(3), Fr(1)), (Fr(0), Fr(2))]
    line = [(Fr(-1), Fr(2)), (Fr(5), Fr(-1))]
    cases = [("quadratic quarter turn (1,0),(1,1),(0,1)", quarter, Fr(3, 16), False),
             ("quadratic quarter turn (1,0),(1,1),(0,1)", quarter, Fr(9, 16), False),
             ("quadratic quarter turn (1,0),(1,1),(0,1)", quarter, Fr(13, 16), True),
             ("quadratic quarter turn (1,0),(1,1),(0,1)", quarter, Fr(1, 16), True),
             ("cubic (0,0),(3,0),(3,1),(0,2)", cubic, Fr(1, 8), False),
             ("cubic (0,0),(3,0),(3,1),(0,2)", cubic, Fr(7, 10), True),
             ("straight segment (-1,2),(5,-1)", line, Fr(2, 7), False)]
    hook_pts = [(Fr(0), Fr(0)), (Fr(4), Fr(3)), (Fr(2), Fr(1))]
    # points of the polynomial prolongation of the segment beyond its ends (float data): the projection is a parameter
    # of the *segment*
    cases += [("quadratic (0,0),(4,3),(2,1), point on its prolongation", hook_pts, Fr(11, 10), True),
              ("quadratic (0,0),(4,3),(2,1), point on its prolongation", hook_pts, Fr(-1, 10), True),
              ("cubic (0,0),(3,0),(3,1),(0,2), point on its prolongation", cubic, Fr(6, 5), True)]
    for label, pts, t, as_float in cases:
        if as_float:
            pts = [(float(x), float(y)) for x, y in pts]
        cv = _PolyCv.bezier(pts)
        P = _MP(*cv.at(float(t) if as_float else t))
        if not 0 <= t <= 1:
            try:
                got = [float(g) for g in Runner(ctx, enter, hook, asserts=True, ext=ext).call_fn(fn, [P, cv])]
            except (Undecided, Raised, TypeError, IndexError, ZeroDivisionError, OverflowError) as ex:
                out.undecided(fn.qname, f"{label} at t={t}: {ex}", where=fn.where())
                continue
            outside = [g for g in got if not 0.0 <= g <= 1.0]
            if outside or not got:
                out.bad(fn.qname, "the projection leaves the parameter interval [0, 1] of the segment", where=fn.where(),
                        detail=f"{label}: C({t}) projects onto {[round(g, 9) for g in got]} -- a point far from the segment, "
                               f"on the prolongation of its polynomial, is then reported `in` the segment")
            else:
                out.ok(fn.qname, f"{label} C({t}): projected parameters stay in [0, 1]", where=fn.where())
            continue
        try:
            got = Runner(ctx, enter, hook, asserts=True, ext=ext).call_fn(fn, [P, cv])
            got = [float(g) for g in got]
        except (Undecided, Raised, TypeError, IndexError, ZeroDivisionError, OverflowError) as ex:
            out.undecided(fn.qname, f"{label} at t={t}: {ex}", where=fn.where())
            continue
        kind = "float" if as_float else "exact"
        if got and min(abs(g - float(t)) for g in got) <= 1e-7:
            out.ok(fn.qname, f"{label}, {kind}: the point C({t}) projects onto t={t}", where=fn.where())
        else:
            out.bad(fn.qname, "the projection of a point of the curve does not find its parameter", where=fn.where(),
                    detail=f"{label}, {kind} coordinates: the point C({t}) projects onto {[round(g, 9) for g in got]} -- a "
                           f"point on a curved edge is then not a boundary point")
    return out


RULES = [r18_1, r18_2, r18_3, r18_4, r18_5, r18_6, r18_7, r18_8, r18_9, r18_10, r18_11, r18_12, r18_13, r18_14]
