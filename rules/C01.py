"""C01 -- Boolean operators compute the set-theoretic result.

Decided (the algebraic skeleton; the geometric core is left open):
 R01.1 pointwise truth tables of every operator method against its Boolean
       specification, on every admissible assignment of "a generic point lies in
       self / its subshapes / other" (assume-guarantee: each method is checked
       against its own spec and may use the others' specs).
 R01.2 selection polarity of the recombination cores (abstract run of
       or_shapes / and_shapes on stand-in shapes): union keeps the pieces not in
       the closed other operand, intersection the pieces in the open other
       operand, both operands symmetrically, B's indices offset consistently
       with the concatenation handed to follow_path.
 R01.3 all pairs of boundary curves are split before any midpoint is selected.
 R01.4 termination witnesses for every while loop and recursion.
 R01.5 operands stay usable in nested expressions (= effect rule R08.4 and
       freshness of every operator result R08.1).
Not decided: that crossings are found, that pursue_path chains the right
pieces, numerical robustness.
"""
import ast
from fractions import Fraction as Fr
import itertools

from verifkit import pat
from verifkit.absrun import Obj, Runner, StandIn
from verifkit.core import Outcome
from verifkit.finite import Undecided
from rules import C08

ASSUMPTIONS = C08.ASSUMPTIONS + [
    "geometric core: ShapeFromJordans(follow_path(...)) of the selected pieces denotes the region whose boundary they "
    "form; reversing every boundary curve denotes the complement",
    "a ConnectedShape denotes the intersection and a DisjointShape the union of its subshapes (R02.3)",
]
U = ast.unparse

# universe of point assignments: (p inside curve c1, inside curve c1', inside curve c2, p in other).
# A composite `self` has two subshapes: the first is a region bounded by the two curves c1, c1' (a ConnectedShape,
# e.g. a ring) when self is a DisjointShape and by c1 alone otherwise; the second is bounded by c2.  Keeping the curves
# apart from the subshapes lets the table tell `for s in self.subshapes` from `for j in self.jordans`.
ALL = frozenset(itertools.product((0, 1), repeat=4))
C1 = frozenset(x for x in ALL if x[0])
C1B = frozenset(x for x in ALL if x[1])
C2 = frozenset(x for x in ALL if x[2])
S1 = C1                                  # first subshape when it is simple
S2 = C2
B = frozenset(x for x in ALL if x[3])
SPEC = {"__or__": lambda a, b: a | b, "__and__": lambda a, b: a & b, "__sub__": lambda a, b: a - b,
        "__xor__": lambda a, b: a ^ b, "__add__": lambda a, b: a | b, "__mul__": lambda a, b: a & b,
        "__neg__": lambda a, b: ALL - a, "__invert__": lambda a, b: ALL - a}
CORE = {"or_shapes": "__or__", "and_shapes": "__and__"}


NONEV = ("none",)


class World:
    """one path condition: the admissible point assignments G, the values of the local names, and whether this path
    is the one on which the recombination core returned no boundary piece (nob = the core's operator)"""
    __slots__ = ("G", "env", "nob")

    def __init__(self, G, env, nob=None):
        self.G, self.env, self.nob = G, env, nob

    def with_G(self, G):
        return World(G, self.env, self.nob)

    def fork(self, **kw):
        w = World(self.G, dict(self.env), self.nob)
        for k, v in kw.items():
            setattr(w, k, v)
        return w


class TT:
    """Truth-table evaluator of one operator method.  Paths are kept apart as *worlds* (path condition on the point
    assignments + local values), private helpers of the shape module are inlined (to depth 4), so that the table does
    not depend on how the method is cut into helpers, guards, temporaries or conditional expressions."""

    def __init__(self, ctx, fn):
        self.ctx, self.fn = ctx, fn
        self.cls, self.op = fn.cls, fn.name
        ps = fn.params
        self.selfn = ps[0]
        self.othn = ps[1] if len(ps) > 1 else None
        if self.cls == "ConnectedShape":
            self.subs, self.curvs = [C1, C2], [C1, C2]
            self.A = C1 & C2
        elif self.cls == "DisjointShape":
            self.subs, self.curvs = [C1 & C1B, C2], [C1, C1B, C2]      # a hollow component and a simple one
            self.A = (C1 & C1B) | C2
        else:
            self.subs, self.curvs = [C1], [C1]
            self.A = C1
        self.G0 = ALL
        if self.cls == "EmptyShape":
            self.G0 = ALL - self.A
        if self.cls == "WholeShape":
            self.G0 = self.A
        self.results = []      # (return node, text, G, wrong assignments, no-boundary exit?)

    def run(self):
        env = {self.selfn: self.A}
        if self.othn:
            env[self.othn] = B
        falls, rets = self.exec_block(self.fn, self.fn.node.body, [World(self.G0, env)], 0)
        merged = {}
        for w, val, node in rets:
            self.finish(w, val, node, merged)
        self.results = list(merged.values())
        return self.results

    def finish(self, w, val, node, merged):
        txt = U(node.value) if node.value is not None else "None"
        if w.nob is not None:
            # a result without any boundary curve is Empty or Whole; it must be the only one consistent with the core
            want = ALL if w.nob == "__or__" else frozenset()
            ok = (val == want) and w.nob == self.op
            key = (id(node), True)
            merged[key] = (node, txt + "   [no boundary piece survives]", "const", [] if ok else ["no-boundary constant"], True)
            return
        if not isinstance(val, frozenset):
            raise Undecided(f"return value `{txt[:40]}` is not a shape value")
        want = SPEC[self.op](self.A, B)
        wrong = sorted(x for x in w.G if (x in val) != (x in want))
        key = (id(node), False)
        if key in merged:
            _, _, G0, wr0, _ = merged[key]
            merged[key] = (node, txt, G0 | w.G, sorted(set(wr0) | set(wrong)), False)
        else:
            merged[key] = (node, txt, w.G, wrong, False)

    # -- statements
    def exec_block(self, fn, body, worlds, depth):
        rets = []
        worlds = [w for w in worlds if w.G or w.nob is not None]
        for st in body:
            if not worlds:
                break
            nxt = []
            for w in worlds:
                out, r = self.exec_stmt(fn, st, w, depth)
                nxt += [x for x in out if x.G]
                rets += [x for x in r if x[0].G]
            worlds = nxt
        return worlds, rets

    def exec_stmt(self, fn, st, w, depth):
        if isinstance(st, (ast.Assert, ast.Pass)) or (isinstance(st, ast.Expr) and isinstance(st.value, ast.Constant)):
            return [w], []
        if isinstance(st, ast.Return) and isinstance(st.value, ast.IfExp):
            st = ast.copy_location(ast.If(test=st.value.test,
                                          body=[ast.copy_location(ast.Return(value=st.value.body), st)],
                                          orelse=[ast.copy_location(ast.Return(value=st.value.orelse), st)]), st)
        if isinstance(st, ast.If):
            wt, wf = self.guard(fn, st.test, w, depth)
            ft, r1 = self.exec_block(fn, st.body, wt, depth)
            ff, r2 = self.exec_block(fn, st.orelse, wf, depth)
            return ft + ff, r1 + r2
        if isinstance(st, ast.Assign) and len(st.targets) == 1:
            out = []
            for w2, val in self.eval_multi(fn, st.value, w, depth):
                w3 = w2.fork()
                self.bind(st.targets[0], val, w3)
                out.append(w3)
            return out, []
        if isinstance(st, ast.AnnAssign) and st.value is not None:
            out = []
            for w2, val in self.eval_multi(fn, st.value, w, depth):
                w3 = w2.fork()
                self.bind(st.target, val, w3)
                out.append(w3)
            return out, []
        if isinstance(st, ast.AugAssign) and isinstance(st.target, ast.Name):
            w3 = w.fork()
            w3.env[st.target.id] = self.expr(fn, ast.BinOp(left=ast.Name(id=st.target.id, ctx=ast.Load()), op=st.op,
                                                            right=st.value), w)
            return [w3], []
        if isinstance(st, ast.Return):
            if st.value is None:
                return [], [(w, NONEV, st)]
            return [], [(w2, val, st) for w2, val in self.eval_multi(fn, st.value, w, depth)]
        if isinstance(st, ast.Raise):
            return [], []
        if isinstance(st, ast.Expr) and isinstance(st.value, ast.Call) and isinstance(st.value.func, ast.Attribute) \
                and st.value.func.attr in ("append", "extend") and isinstance(st.value.func.value, ast.Name) \
                and len(st.value.args) == 1 and self._is_seq(w.env.get(st.value.func.value.id)):
            # a list filled element by element
            name = st.value.func.value.id
            out = []
            for w2, val in self.eval_multi(fn, st.value.args[0], w, depth):
                w3 = w2.fork()
                items = list(w3.env[name][1])
                if st.value.func.attr == "append":
                    items.append(val)
                elif self._is_seq(val):
                    items += list(val[1])
                else:
                    raise Undecided(f"statement `{U(st)[:40]}`")
                w3.env[name] = ("list", items)
                out.append(w3)
            return out, []
        if isinstance(st, ast.For) and not any(isinstance(n, (ast.Break, ast.Continue)) for n in ast.walk(st)):
            items = self._iter_items(fn, st.iter, w)
            if items is None:
                raise Undecided(f"loop over `{U(st.iter)[:40]}`")
            worlds, rets = [w], []
            for it in items:                       # unrolled: the collections of the table have two or three members
                nxt = []
                for w2 in worlds:
                    w3 = w2.fork()
                    self.bind(st.target, it, w3)
                    falls, r = self.exec_block(fn, st.body, [w3], depth)
                    nxt += falls
                    rets += r
                worlds = nxt
            falls, r = self.exec_block(fn, st.orelse, worlds, depth)
            return falls, rets + r
        if isinstance(st, ast.Expr):
            return [w2 for w2, _ in self.eval_multi(fn, st.value, w, depth)], []
        raise Undecided(f"statement `{U(st)[:40]}`")

    @staticmethod
    def _is_seq(v):
        return isinstance(v, tuple) and len(v) == 2 and v[0] in ("tuple", "list")

    def _iter_items(self, fn, it, w):
        """the members a `for` statement runs over: the subshapes / boundary curves of the composite operand, or a
        collection built before"""
        if isinstance(it, ast.Call) and isinstance(it.func, ast.Name) and it.func.id in ("tuple", "list", "iter", "reversed") \
                and len(it.args) == 1:
            inner = self._iter_items(fn, it.args[0], w)
            return None if inner is None else (list(reversed(inner)) if it.func.id == "reversed" else inner)
        if isinstance(it, ast.Attribute) and it.attr in ("subshapes", "jordans") and isinstance(it.value, ast.Name) \
                and w.env.get(it.value.id) == self.A and self.cls in ("ConnectedShape", "DisjointShape") and fn is self.fn:
            return list(self.subs) if it.attr == "subshapes" else [("curve", cv) for cv in self.curvs]
        v = self.try_expr(fn, it, w)
        if self._is_seq(v):
            return list(v[1])
        return None

    def bind(self, target, val, w):
        if isinstance(target, ast.Name):
            w.env[target.id] = val
        elif isinstance(target, (ast.Tuple, ast.List)) and isinstance(val, tuple) and val and val[0] == "tuple" \
                and len(val[1]) == len(target.elts):
            for t, v in zip(target.elts, val[1]):
                self.bind(t, v, w)
        else:
            raise Undecided(f"assignment to `{U(target)[:30]}`")

    # -- helper inlining
    def inlinable(self, fn, call):
        inf = self.ctx.typer.of(fn)
        tgs = inf.targets(call, ("call",))
        if len(tgs) != 1:
            return None
        t = tgs[0]
        if t.mod != "shape" or t.name in CORE or t.name in SPEC or t.qname in ("shape.ShapeFromJordans", "shape.DivideConnecteds"):
            return None
        if t.cls == "FollowPath" or t.cls == "IntegrateShape":
            return None
        if not (t.name.startswith("_") and not t.name.endswith("__")):
            return None
        return t

    def eval_multi(self, fn, e, w, depth):
        """[(world, value)]: a call of a private helper of the shape module is evaluated by inlining its body"""
        if isinstance(e, ast.Call):
            t = self.inlinable(fn, e)
            if t is not None:
                if depth >= 4:
                    raise Undecided(f"helper nesting too deep at `{U(e)[:40]}`")
                names = [a.arg for a in t.node.args.posonlyargs + t.node.args.args]
                env = {}
                args = [self.expr(fn, a, w) for a in e.args]
                if t.kind in ("method", "getter") and isinstance(e.func, ast.Attribute):
                    args = [self.expr(fn, e.func.value, w)] + args
                elif t.kind == "class":
                    args = [("class", t.cls)] + args
                for n_, v in zip(names, args):
                    env[n_] = v
                for k in e.keywords:
                    if k.arg in names:
                        env[k.arg] = self.expr(fn, k.value, w)
                defaults = t.node.args.defaults
                for n_, d in zip(names[len(names) - len(defaults):], defaults):
                    if n_ not in env:
                        env[n_] = self.expr(t, d, World(w.G, {}, w.nob))
                if set(names) - set(env):
                    raise Undecided(f"helper call `{U(e)[:40]}`: unbound parameters")
                falls, rets = self.exec_block(t, t.node.body, [World(w.G, env, w.nob)], depth + 1)
                out = [(World(w2.G, w.env, w2.nob), val) for w2, val, _ in rets]
                out += [(World(w2.G, w.env, w2.nob), NONEV) for w2 in falls]
                return out
        return [(w, self.expr(fn, e, w))]

    # -- guards: ([worlds where the test holds], [worlds where it does not])
    def guard(self, fn, test, w, depth=0):
        test, neg = pat._strip_not(test)
        t, f = self._guard(fn, test, w, depth)
        return (f, t) if neg else (t, f)

    def _is_core(self, v):
        return isinstance(v, tuple) and v and v[0] == "core"

    def _guard(self, fn, test, w, depth):
        if isinstance(test, ast.BoolOp):
            if isinstance(test.op, ast.Or):
                true, rest = [], [w]
                for v in test.values:
                    nrest = []
                    for r in rest:
                        t, f = self.guard(fn, v, r, depth)
                        true += t
                        nrest += f
                    rest = nrest
                return true, rest
            false, rest = [], [w]
            for v in test.values:
                nrest = []
                for r in rest:
                    t, f = self.guard(fn, v, r, depth)
                    false += f
                    nrest += t
                rest = nrest
            return rest, false
        # `if (name := value)`, `if (name := value) is None`, `if len(name := value) == 0`: bind, then judge the name
        walrus = [n for n in ast.walk(test) if isinstance(n, ast.NamedExpr) and isinstance(n.target, ast.Name)]
        if len(walrus) == 1:
            ne = walrus[0]

            import copy as _copy
            test2 = _copy.deepcopy(test)

            class _Sub2(ast.NodeTransformer):
                def visit_NamedExpr(self, node):
                    return ast.copy_location(ast.Name(id=node.target.id, ctx=ast.Load()), node)
            test2 = ast.fix_missing_locations(_Sub2().visit(ast.Expression(body=test2))).body
            true, false = [], []
            for w2, val in self.eval_multi(fn, ne.value, w, depth):
                w3 = w2.fork()
                w3.env[ne.target.id] = val
                t, f = self._guard(fn, test2, w3, depth)
                true += t
                false += f
            return true, false
        # truthiness / emptiness / None-ness of a value
        probe = None
        if isinstance(test, ast.Compare) and len(test.ops) == 1 and isinstance(test.ops[0], (ast.Is, ast.IsNot, ast.Eq, ast.NotEq)) \
                and isinstance(test.comparators[0], ast.Constant) and test.comparators[0].value is None:
            v = self.try_expr(fn, test.left, w)
            if v is not None:
                isnone = v == NONEV
                pos = isinstance(test.ops[0], (ast.Is, ast.Eq))
                return ([w], []) if isnone == pos else ([], [w])
        if isinstance(test, ast.Compare) and len(test.ops) == 1 and isinstance(test.left, ast.Call) \
                and isinstance(test.left.func, ast.Name) and test.left.func.id == "len" and test.left.args \
                and isinstance(test.comparators[0], ast.Constant):
            v = self.try_expr(fn, test.left.args[0], w)
            c, op = test.comparators[0].value, test.ops[0]
            empty_true = (c == 0 and isinstance(op, (ast.Eq, ast.LtE))) or (c == 1 and isinstance(op, ast.Lt))
            empty_false = (c == 0 and isinstance(op, (ast.NotEq, ast.Gt))) or (c == 1 and isinstance(op, ast.GtE))
            if v is not None and (empty_true or empty_false):
                probe = (v, empty_true)
        elif isinstance(test, ast.Call) and isinstance(test.func, ast.Name) and test.func.id in ("len", "bool") and len(test.args) == 1:
            v = self.try_expr(fn, test.args[0], w)
            if v is not None:
                probe = (v, False)
        elif isinstance(test, (ast.Name, ast.Attribute, ast.Subscript)):
            v = self.try_expr(fn, test, w)
            if v is not None and not isinstance(v, frozenset):
                probe = (v, False)
        if probe is not None:
            v, test_is_empty = probe
            if self._is_core(v):                 # some boundary piece survives / none does
                some, none = [w.fork(nob=None)], [w.fork(nob=v[1])]
                return (none, some) if test_is_empty else (some, none)
            if v == NONEV:
                empty = True
            elif isinstance(v, tuple) and v and v[0] in ("tuple", "list"):
                empty = len(v[1]) == 0
            elif isinstance(v, tuple) and v and v[0] == "bool":
                empty = not v[1]
            else:
                raise Undecided(f"guard `{U(test)[:50]}`")
            holds = empty if test_is_empty else not empty
            return ([w], []) if holds else ([], [w])
        if isinstance(test, ast.Call) and isinstance(test.func, ast.Name) and test.func.id == "isinstance" \
                and len(test.args) == 2:
            v, c = test.args
            names = [c.id] if isinstance(c, ast.Name) else [x.id for x in c.elts if isinstance(x, ast.Name)] \
                if isinstance(c, ast.Tuple) else []
            val = self.try_expr(fn, v, w)
            if isinstance(val, frozenset):
                if names == ["WholeShape"]:
                    return [w.with_G(frozenset(x for x in w.G if x in val))], [w]
                if names == ["EmptyShape"]:
                    return [w.with_G(frozenset(x for x in w.G if x not in val))], [w]
            return [w], [w]     # other type tests (also Empty-or-Whole tuples) do not restrict the point assignments
        if isinstance(test, ast.Compare) and len(test.ops) == 1 and isinstance(test.ops[0], (ast.In, ast.NotIn)):
            lv, rv = self.expr(fn, test.left, w), self.expr(fn, test.comparators[0], w)
            if isinstance(lv, frozenset) and isinstance(rv, frozenset):
                sub = [w.with_G(frozenset(x for x in w.G if (x not in lv) or (x in rv)))]      # l subset of r
                return (sub, [w]) if isinstance(test.ops[0], ast.In) else ([w], sub)
        raise Undecided(f"guard `{U(test)[:50]}`")

    def try_expr(self, fn, e, w):
        try:
            return self.expr(fn, e, w)
        except Undecided:
            return None

    # -- expressions (single-valued)
    def expr(self, fn, e, w):
        inf = self.ctx.typer.of(fn)
        env = w.env
        if isinstance(e, ast.Constant):
            if e.value is None:
                return NONEV
            if isinstance(e.value, bool):
                return ("bool", e.value)
            raise Undecided(U(e)[:40])
        if isinstance(e, ast.Name):
            if e.id in env:
                return env[e.id]
            if e.id in ("WholeShape", "EmptyShape", "SimpleShape", "ConnectedShape", "DisjointShape"):
                return ("class", e.id)
            raise Undecided(f"name {e.id}")
        if isinstance(e, (ast.Tuple, ast.List)) and not any(isinstance(x, ast.Starred) for x in e.elts):
            c = self.curves(fn, e, w)
            if c is not None:
                return ("curves", c)
            return ("tuple", tuple(self.expr(fn, x, w) for x in e.elts))
        if isinstance(e, ast.Subscript) and isinstance(e.slice, ast.Constant) and isinstance(e.slice.value, int):
            c = self.curves(fn, e, w)
            if c is not None:
                return ("curves", c)
            v = self.expr(fn, e.value, w)
            if isinstance(v, tuple) and v and v[0] in ("tuple", "list"):
                try:
                    return v[1][e.slice.value]
                except IndexError:
                    raise Undecided(U(e)[:40])
            raise Undecided(U(e)[:40])
        if isinstance(e, ast.IfExp):
            t, f = self.guard(fn, e.test, w)
            t, f = [x for x in t if x.G], [x for x in f if x.G]
            if t and not f:
                return self.expr(fn, e.body, t[0])
            if f and not t:
                return self.expr(fn, e.orelse, f[0])
            a, b = self.expr(fn, e.body, w), self.expr(fn, e.orelse, w)
            if a == b:
                return a
            raise Undecided(f"conditional expression `{U(e)[:40]}` inside an expression")
        if isinstance(e, ast.Call):
            t = inf.typeof(e)
            tg = pat.call_targets(inf, e)
            f = e.func
            if isinstance(f, ast.Name) and f.id in ("WholeShape", "EmptyShape") and not e.args:
                return ALL if f.id == "WholeShape" else frozenset()
            if isinstance(f, ast.Name) and isinstance(env.get(f.id), tuple) and env[f.id][0] == "class" and not e.args \
                    and env[f.id][1] in ("WholeShape", "EmptyShape"):
                return ALL if env[f.id][1] == "WholeShape" else frozenset()       # singleton class passed as a value
            if isinstance(f, ast.Name) and f.id in ("copy", "deepcopy") and len(e.args) >= 1:
                return self.expr(fn, e.args[0], w)
            if isinstance(f, ast.Name) and f.id == "SimpleShape" and len(e.args) == 1:
                av = self.try_expr(fn, e.args[0], w)
                if isinstance(av, tuple) and av and av[0] == "curve":
                    return av[1]
            if isinstance(f, ast.Attribute) and f.attr in ("__copy__", "__deepcopy__"):
                return self.expr(fn, f.value, w)
            if any(q.split(".")[-1] in CORE for q in tg):
                core = CORE[[q for q in tg if q.split(".")[-1] in CORE][0].split(".")[-1]]
                vals = [self.expr(fn, a, w) for a in e.args] + [self.expr(fn, k.value, w) for k in e.keywords]
                if len(vals) != 2 or sorted(vals, key=str) != sorted([self.A, B], key=str):
                    raise Undecided(f"core called with {U(e)[:50]}")
                return ("core", core)
            if "shape.ShapeFromJordans" in tg and len(e.args) == 1:
                a = e.args[0]
                av = self.try_expr(fn, a, w)
                if self._is_core(av):
                    if w.nob is not None:
                        raise Undecided("ShapeFromJordans of an empty curve list")
                    return SPEC[av[1]](self.A, B)       # geometric core, assumed
                if isinstance(av, tuple) and av and av[0] == "curves":
                    return av[1]
                v = self.curves(fn, a, w)
                if v is not None:
                    return v
                raise Undecided(f"ShapeFromJordans({U(a)[:40]})")
            if isinstance(t, str) and t in ("SimpleShape", "ConnectedShape", "DisjointShape") and len(e.args) == 1:
                c = self.curves(fn, e.args[0], w)
                a = c if c is not None else self.expr(fn, e.args[0], w)
                if isinstance(a, tuple) and a and a[0] in ("curves", "curve"):
                    a = a[1]
                if t == "SimpleShape" and isinstance(a, frozenset):
                    return a
                if isinstance(a, tuple) and a and a[0] == "list":
                    vals = a[1]
                    out = vals[0]
                    for v in vals[1:]:
                        out = (out & v) if t == "ConnectedShape" else (out | v)
                    return out
                raise Undecided(f"constructor {t}({U(e.args[0])[:30]})")
            if isinstance(f, ast.Attribute) and f.attr in SPEC and len(e.args) <= 1:
                l = self.expr(fn, f.value, w)
                r = self.expr(fn, e.args[0], w) if e.args else None
                if isinstance(l, frozenset) and (r is None or isinstance(r, frozenset)):
                    return SPEC[f.attr](l, r)
            if isinstance(f, ast.Name) and f.id in ("tuple", "list"):
                v = self.subshape_list(fn, e, w)
                if v is not None:
                    return v
                c = self.curves(fn, e, w)
                if c is not None:
                    return ("curves", c)
            raise Undecided(f"call `{U(e)[:40]}`")
        if isinstance(e, (ast.ListComp, ast.GeneratorExp)):
            v = self.subshape_list(fn, e, w)
            if v is not None:
                return v
            c = self.curves(fn, e, w)
            if c is not None:
                return ("curves", c)
            raise Undecided(U(e)[:40])
        if isinstance(e, ast.UnaryOp) and isinstance(e.op, (ast.Invert, ast.USub)):
            c = self.curves(fn, e, w)
            if c is not None:
                return ("curves", c)
            v = self.expr(fn, e.operand, w)
            if isinstance(v, frozenset):
                return ALL - v
            if isinstance(v, tuple) and v and v[0] == "curve":
                return ("curve", ALL - v[1])        # the reversed curve bounds the complement
            if isinstance(v, tuple) and v and v[0] == "curves":
                return ("curves", ALL - v[1])       # reversing the curve(s) denotes the complement
            raise Undecided(U(e)[:40])
        if isinstance(e, ast.BinOp):
            op = {ast.BitOr: "__or__", ast.BitAnd: "__and__", ast.Sub: "__sub__", ast.BitXor: "__xor__",
                  ast.Add: "__add__", ast.Mult: "__mul__"}.get(type(e.op))
            if op is None:
                raise Undecided(U(e)[:40])
            l, r = self.expr(fn, e.left, w), self.expr(fn, e.right, w)
            if isinstance(l, frozenset) and isinstance(r, frozenset):
                return SPEC[op](l, r)
            raise Undecided(U(e)[:40])
        if isinstance(e, ast.Attribute):
            c = self.curves(fn, e, w)
            if c is not None:
                return ("curves", c)
        raise Undecided(U(e)[:40])

    def curves(self, fn, a, w):
        """value of a shape built from a collection of curves derived from a shape value X held in a local name:
             (~j for j in X.jordans) / tuple(...) / ~X.jordans[0]  -> complement of X
             X.jordans / (copy(j) for j in X.jordans) / map(copy, X.jordans) -> X"""
        env = w.env
        if isinstance(a, ast.Call) and isinstance(a.func, ast.Name) and a.func.id in ("tuple", "list") and len(a.args) == 1:
            a = a.args[0]
        if isinstance(a, ast.Name) and isinstance(env.get(a.id), tuple) and env[a.id] and env[a.id][0] == "curves":
            return env[a.id][1]

        def owner(x):
            if isinstance(x, ast.Attribute) and x.attr == "jordans" and isinstance(x.value, ast.Name) \
                    and isinstance(env.get(x.value.id), frozenset):
                return env[x.value.id]
            return None

        def single(x):      # the one curve of a SimpleShape: X.jordans[0] with X of static type SimpleShape
            # ... or X.<field or private property typed JordanCurve> of a SimpleShape
            if isinstance(x, ast.Attribute) and isinstance(x.value, ast.Name) and isinstance(env.get(x.value.id), frozenset) \
                    and x.attr != "jordans":
                inf_ = self.ctx.typer.of(fn)
                owner_cs = self.ctx.typer.classes_of(inf_.typeof(x.value))
                simple = (owner_cs and all(c == "SimpleShape" for c in owner_cs)) or \
                    (x.value.id == fn.params[0] and fn.cls == "SimpleShape")
                val_cs = self.ctx.typer.classes_of(inf_.typeof(x))
                if simple and val_cs and all(c == "JordanCurve" for c in val_cs):
                    return env[x.value.id]
            if isinstance(x, ast.Subscript) and owner(x.value) is not None:
                cs = self.ctx.typer.classes_of(self.ctx.typer.of(fn).typeof(x.value.value))
                if cs and all(c == "SimpleShape" for c in cs):
                    return owner(x.value)
                if isinstance(x.value.value, ast.Name) and x.value.value.id == fn.params[0] and fn.cls == "SimpleShape":
                    return owner(x.value)
            return None
        if isinstance(a, (ast.GeneratorExp, ast.ListComp)) and len(a.generators) == 1 and not a.generators[0].ifs:
            g = a.generators[0]
            own = owner(g.iter)
            if own is not None and isinstance(g.target, ast.Name):
                el = a.elt
                if isinstance(el, ast.UnaryOp) and isinstance(el.op, ast.Invert) and pat.is_name(el.operand, g.target.id):
                    return ALL - own
                if pat.is_name(el, g.target.id) or (isinstance(el, ast.Call) and isinstance(el.func, ast.Name)
                                                    and el.func.id == "copy" and pat.is_name(el.args[0], g.target.id)):
                    return own
        if isinstance(a, ast.Call) and isinstance(a.func, ast.Name) and a.func.id == "map" and len(a.args) == 2 \
                and isinstance(a.args[0], ast.Name) and a.args[0].id in ("copy", "deepcopy") and owner(a.args[1]) is not None:
            return owner(a.args[1])
        if isinstance(a, ast.UnaryOp) and isinstance(a.op, ast.Invert):
            inner = single(a.operand)
            if inner is not None:
                return ALL - inner
            if isinstance(a.operand, ast.Name) and isinstance(env.get(a.operand.id), tuple) and env[a.operand.id] \
                    and env[a.operand.id][0] == "curves":
                return ALL - env[a.operand.id][1]
        s1 = single(a)
        if s1 is not None:
            return s1
        if isinstance(a, ast.Call) and isinstance(a.func, ast.Name) and a.func.id == "copy" and len(a.args) == 1:
            return self.curves(fn, a.args[0], w)
        own = owner(a)
        if own is not None:
            return own
        return None

    def subshape_list(self, fn, e, w):
        """[f(s) for s in self.subshapes] in a composite class -> ('list', [f(S1), f(S2)])"""
        if isinstance(e, ast.Call):
            e = e.args[0] if e.args else e
        if isinstance(e, (ast.ListComp, ast.GeneratorExp)) and len(e.generators) == 1 and not e.generators[0].ifs:
            g = e.generators[0]
            if isinstance(g.iter, ast.Attribute) and g.iter.attr == "subshapes" and isinstance(g.iter.value, ast.Name) \
                    and w.env.get(g.iter.value.id) == self.A and self.cls in ("ConnectedShape", "DisjointShape") \
                    and isinstance(g.target, ast.Name) and fn is self.fn:
                vals = []
                for sv in self.subs:
                    w2 = w.fork()
                    w2.env[g.target.id] = sv
                    vals.append(self.expr(fn, e.elt, w2))
                return ("list", vals)
            # [f(j) for j in self.jordans] in a composite class: one value per boundary curve (a curve is the region
            # it bounds, tagged so that ~curve / SimpleShape(curve) / copy(curve) are understood)
            if isinstance(g.iter, ast.Attribute) and g.iter.attr == "jordans" and isinstance(g.iter.value, ast.Name) \
                    and w.env.get(g.iter.value.id) == self.A and self.cls in ("ConnectedShape", "DisjointShape") \
                    and isinstance(g.target, ast.Name) and fn is self.fn:
                vals = []
                for cv in self.curvs:
                    w2 = w.fork()
                    w2.env[g.target.id] = ("curve", cv)
                    vals.append(self.expr(fn, e.elt, w2))
                if all(isinstance(v, frozenset) for v in vals):
                    return ("list", vals)                       # shapes built curve by curve
                return None
        return None


def r01_1(ctx):
    out = Outcome("R01.1", "every return of every operator method equals the Boolean specification of that operator on "
                           "every admissible point assignment (p in self/subshapes, p in other)", floor=18)
    out.exhaustive = True        # floor: the 18 operator methods, one return each at least (short-cuts add returns)
    for q, fn in sorted(ctx.model.funcs.items()):
        if fn.mod != "shape" or fn.name not in SPEC or not fn.cls or "Shape" not in fn.cls:
            continue
        body = [st for st in fn.node.body if not (isinstance(st, ast.Expr) and isinstance(st.value, ast.Constant))]
        if all(isinstance(st, ast.Pass) for st in body):
            continue      # abstract
        try:
            res = TT(ctx, fn).run()
        except Undecided as ex:
            out.undecided(q, f"operator body outside the recognised algebra: {ex}", where=fn.where())
            continue
        if not res:
            out.bad(q, "operator method has no return", where=fn.where())
        for k, (node, txt, G, wrong, nob) in enumerate(res):
            fact = f"return #{k + 1} `{txt[:50]}`"
            if wrong:
                why = ("a result without boundary must be Whole for | and Empty for &" if nob else
                       f"differs from the {fn.name} specification on (in s1, in s2, in other) = {wrong[:4]}")
                out.bad(q, f"wrong truth value at return #{k + 1} of {fn.name}", where=fn.where(node),
                        detail=f"`{txt[:60]}`: {why}")
            else:
                out.ok(q, fact + " agrees with the specification", where=fn.where(node),
                       nontrivial=not isinstance(node.value, ast.Constant))
    return out


# ---------------------------------------------------------------------------
# R01.2 / R01.3: abstract run of the cores

class ZBox(StandIn):
    def __init__(self, zone):
        self.zone = zone

    def __and__(self, o):
        return self if self.zone == o.zone else None

    def __or__(self, o):                  # join of boxes (None | box = box)
        if o is None or o.zone == self.zone:
            return self
        return ZBox("near+far")

    __ror__ = __or__

    def __bool__(self):
        return True


class JStand(Obj):
    pass


class CtrlPt(StandIn):
    """control point of a stand-in piece, and anything computed from control points (chord midpoints ...): such a point
    is in general NOT on a curved piece"""

    def __init__(self, piece, what="control point"):
        self.piece, self.what = piece, what

    def _derived(self, *a):
        return CtrlPt(self.piece, "a point computed from control points")

    __add__ = __radd__ = __sub__ = __rsub__ = __mul__ = __rmul__ = __truediv__ = __neg__ = _derived

    def __repr__(self):
        return f"<{self.what} of {self.piece}>"


def _world():
    """two stand-in shapes; status of each piece's midpoint w.r.t. the *other* shape.  The first curve of B is far
    away (its bounding box meets no curve of A); the second one crosses A."""
    IN, OUT, ON = "in", "out", "on"
    status = {}

    def seg(name, st):
        o = Obj(name, degree=2, npts=3, ctrlpoints=(CtrlPt(name), CtrlPt(name), CtrlPt(name)))
        status[name] = st
        return o

    def curve(name, zone, segs):
        o = Obj(name, segments=tuple(segs))
        o.__dict__["_zone"] = zone
        return o
    ja0 = curve("JA0", "near", [seg("a00", IN), seg("a01", OUT), seg("a02", ON)])
    ja1 = curve("JA1", "near", [seg("a10", IN)])
    ja2 = curve("JA2", "near", [seg("a20", OUT)])
    jb0 = curve("JB0", "far", [seg("b00", OUT)])
    jb1 = curve("JB1", "near", [seg("b10", IN), seg("b11", OUT), seg("b12", ON)])
    A = Obj("A", jordans=(ja0, ja1, ja2))
    Bs = Obj("B", jordans=(jb0, jb1))
    return A, Bs, status


def run_core(ctx, name):
    A, Bs, status = _world()
    events = []
    captured = {}

    def hook(rn, ev, call, cname, recv, args, kwargs):
        if cname == "isinstance":
            return True
        if isinstance(recv, Obj) and recv._name in status and cname not in ("contains_point",):
            # segment(Fraction(1, 2)) : evaluation of a piece
            if len(args) == 1:
                return ("mid", recv._name, args[0])
        if cname == "contains_point" and isinstance(recv, Obj) and recv._name in ("A", "B"):
            mid = args[0]
            closed = args[1] if len(args) > 1 else kwargs.get("boundary", kwargs.get("closed", True))
            if isinstance(mid, CtrlPt):
                # not a point of the (curved) piece: it may lie on either side of the other boundary -- answer against
                # the piece's true status
                events.append(("offcurve", mid.piece, mid.what))
                st = status[mid.piece]
                return not (st == "in" or (st == "on" and bool(closed)))
            if not (isinstance(mid, tuple) and mid[0] == "mid"):
                raise Undecided("contains_point on something that is not a piece midpoint")
            owner = "A" if mid[1].startswith("a") else "B"
            if owner == recv._name:
                raise Undecided("piece tested against its own shape")
            events.append(("test", mid[1], mid[2], bool(closed)))
            st = status[mid[1]]
            return st == "in" or (st == "on" and bool(closed))
        if cname == "split_two_jordans":
            events.append(("split", args[0]._name, args[1]._name))
            return None
        if cname == "box" and isinstance(recv, Obj) and "_zone" in recv.__dict__:
            return ZBox(recv.__dict__["_zone"])
        if cname == "follow_path":
            captured["jordans"], captured["indexs"] = args[0], args[1]
            return ("result",)
        return NotImplemented

    enter = {"shape.FollowPath.or_shapes", "shape.FollowPath.and_shapes", "shape.FollowPath.midpoints_shapes",
             "shape.FollowPath.midpoints_one_shape"}
    rn = Runner(ctx, enter, hook)
    rn.call_fn(ctx.fn(f"shape.FollowPath.{name}"), [A, Bs])
    return events, captured, status


def r01_2(ctx):
    out = Outcome("R01.2", "selection polarity of the cores: union keeps exactly the pieces whose midpoint is not in the "
                           "closed other operand, intersection those in the open other operand; both operands treated "
                           "alike; index offset of the second operand consistent with the curve list handed on", floor=2)
    out.exhaustive = True
    want = {"or_shapes": {"a01", "a20", "b00", "b11"}, "and_shapes": {"a00", "a10", "b10"}}
    for name in ("or_shapes", "and_shapes"):
        fn = ctx.fn(f"shape.FollowPath.{name}")
        try:
            events, cap, status = run_core(ctx, name)
        except Undecided as ex:
            out.undecided(fn.qname, f"core outside the interpretable fragment: {ex}", where=fn.where())
            continue
        if "indexs" not in cap:
            out.bad(fn.qname, "the selected pieces are not handed to follow_path", where=fn.where())
            continue
        try:
            chosen = set()
            for (k, j) in cap["indexs"]:
                chosen.add(cap["jordans"][k].segments[j]._name)
        except Exception as ex:
            out.bad(fn.qname, "selected indices do not address the curve list handed to follow_path "
                              "(offset of the second operand inconsistent with the concatenation order)", where=fn.where(),
                    detail=str(ex))
            continue
        off = [e for e in events if e[0] == "offcurve"]
        if off:
            out.bad(fn.qname, "boundary pieces are classified by a point that need not lie on the piece", where=fn.where(),
                    detail=f"piece {off[0][1]} is tested with {off[0][2]} (for a curved piece the chord is not the curve)")
            continue
        tests = [e for e in events if e[0] == "test"]
        mids = {e[2] for e in tests}
        tested = {e[1] for e in tests}
        if chosen != want[name]:
            kind = "union" if name == "or_shapes" else "intersection"
            out.bad(fn.qname, f"{kind} selects the wrong boundary pieces", where=fn.where(),
                    detail=f"selected {sorted(chosen)} (in/out/on-boundary status w.r.t. the other operand: "
                           f"{ {c: status[c] for c in sorted(chosen)} }); required {sorted(want[name])}")
        elif tested != set(status):
            out.bad(fn.qname, f"pieces never tested: {sorted(set(status) - tested)}", where=fn.where())
        elif len(mids) != 1 or not (0 < list(mids)[0] < 1):
            out.bad(fn.qname, f"pieces are sampled at parameters {sorted(map(str, mids))} (an interior parameter required)",
                    where=fn.where())
        else:
            flags = sorted({e[3] for e in tests})
            out.ok(fn.qname, f"selects {sorted(chosen)}: boundary counted {'closed' if flags == [True] else 'open'}",
                   where=fn.where())
    return out


def r01_3(ctx):
    out = Outcome("R01.3", "every pair of boundary curves whose bounding boxes meet is split before the first midpoint "
                           "is tested (a far-away curve listed first must not hide a later crossing one)", floor=2)
    out.exhaustive = True
    for name in ("or_shapes", "and_shapes"):
        fn = ctx.fn(f"shape.FollowPath.{name}")
        try:
            events, cap, status = run_core(ctx, name)
        except Undecided as ex:
            out.undecided(fn.qname, f"core outside the interpretable fragment: {ex}", where=fn.where())
            continue
        first_test = next((i for i, e in enumerate(events) if e[0] == "test"), len(events))
        splits = {(e[1], e[2]) for e in events[:first_test] if e[0] == "split"}
        need = {("JA0", "JB1"), ("JA1", "JB1"), ("JA2", "JB1")}      # the pairs whose bounding boxes meet
        norm = {tuple(sorted(p)) for p in splits}
        if {tuple(sorted(p)) for p in need} - norm:
            out.bad(fn.qname, "not every pair of boundary curves is split at its crossings before pieces are selected",
                    where=fn.where(), detail=f"split pairs before selection: {sorted(splits)}")
        else:
            out.ok(fn.qname, f"{len(splits)} curve pairs split before selection", where=fn.where())
    return out


# ---------------------------------------------------------------------------
# R01.4 termination witnesses

def _progress_stmt(st, counters, shrink):
    """statement that makes progress on its own"""
    if isinstance(st, (ast.Break, ast.Return, ast.Raise)):
        return True
    if isinstance(st, ast.AugAssign) and isinstance(st.target, ast.Name) and st.target.id in counters \
            and isinstance(st.op, ast.Add):
        v = pat.const_value(st.value)
        return v is not None and v > 0
    # the same step spelled `i = i + 1` / `i = 1 + i`
    if isinstance(st, ast.Assign) and len(st.targets) == 1 and isinstance(st.targets[0], ast.Name) \
            and st.targets[0].id in counters and isinstance(st.value, ast.BinOp) and isinstance(st.value.op, ast.Add):
        l, r, name = st.value.left, st.value.right, st.targets[0].id
        for a, b in ((l, r), (r, l)):
            v = pat.const_value(b)
            if pat.is_name(a, name) and v is not None and v > 0:
                return True
    if isinstance(st, ast.Delete) and any(isinstance(t, ast.Subscript) and pat.root_name(t.value) in shrink
                                          for t in st.targets):
        return True
    calls = [st.value] if isinstance(st, ast.Expr) else [st.value] if isinstance(st, ast.Assign) else []
    for c in calls:
        for x in ast.walk(c):
            if isinstance(x, ast.Call) and isinstance(x.func, ast.Attribute) and x.func.attr in ("pop", "remove") \
                    and pat.root_name(x.func.value) in shrink:
                return True
    return False


def _all_paths_progress(body, counters, shrink):
    for st in body:
        if _progress_stmt(st, counters, shrink):
            return True
        if isinstance(st, ast.If):
            if st.orelse and _all_paths_progress(st.body, counters, shrink) and _all_paths_progress(st.orelse, counters, shrink):
                return True
        if isinstance(st, ast.For) and st.orelse:
            # for ... else: every `break` of the for must be preceded by progress; the else branch must progress
            if _all_paths_progress(st.orelse, counters, shrink) and _breaks_after_progress(st.body, counters, shrink):
                return True
        if isinstance(st, ast.Try):
            pass
    return False


def _breaks_after_progress(body, counters, shrink):
    """every `break` in this loop body is preceded, in its own block, by a progress statement"""
    ok = True

    def scan(block):
        nonlocal ok
        progressed = False
        for st in block:
            if isinstance(st, ast.Break):
                if not progressed:
                    ok = False
            elif _progress_stmt(st, counters, shrink):
                progressed = True
            elif isinstance(st, ast.Try) and any(_progress_stmt(x, counters, shrink) for x in st.body) and all(
                    h.body and isinstance(h.body[-1], (ast.Continue, ast.Return, ast.Raise)) for h in st.handlers):
                progressed = True          # try: ...; del X[j]  except E: continue   -- past the try, X got shorter
            for fld in ("body", "orelse", "finalbody"):
                sub = getattr(st, fld, None)
                if isinstance(sub, list) and sub and isinstance(sub[0], ast.stmt) and not isinstance(st, (ast.For, ast.While)):
                    scan(sub)
            if isinstance(st, ast.Try):
                for h in st.handlers:
                    scan(h.body)
    scan(body)
    return ok


GROW = ("append", "insert", "extend", "add", "update")


def _helper_shrinks(ctx, fn, loop):
    """`while helper(coll): <body that does not grow coll>` where every possibly-true return of the (resolved) helper
    directly follows the removal of an element of the corresponding parameter, which the helper never grows"""
    test = loop.test
    if isinstance(test, ast.Name) and ctx is not None:
        # `while flag: flag = helper(coll)`: the flag is the helper's answer
        sets = [st for st in ast.walk(loop) if isinstance(st, (ast.Assign, ast.AugAssign, ast.NamedExpr, ast.For))
                and any(isinstance(t, ast.Name) and t.id == test.id and isinstance(t.ctx, ast.Store)
                        for tt in (st.targets if isinstance(st, ast.Assign) else [st.target]) for t in ast.walk(tt))]
        if len(sets) == 1 and isinstance(sets[0], ast.Assign) and sets[0] in loop.body and len(sets[0].targets) == 1 \
                and isinstance(sets[0].targets[0], ast.Name) and isinstance(sets[0].value, ast.Call):
            test = sets[0].value
    if isinstance(test, ast.Constant) and test.value is True and ctx is not None:
        # `while True: ...; if not any(helper(coll, i) for i in ...): break`: the loop goes on only when one of the
        # helper calls answered true
        for st in loop.body:
            if isinstance(st, ast.If) and not st.orelse and len(st.body) == 1 and isinstance(st.body[0], ast.Break) \
                    and isinstance(st.test, ast.UnaryOp) and isinstance(st.test.op, ast.Not):
                c = st.test.operand
                if isinstance(c, ast.Call) and isinstance(c.func, ast.Name) and c.func.id == "any" and len(c.args) == 1 \
                        and isinstance(c.args[0], (ast.GeneratorExp, ast.ListComp)) and isinstance(c.args[0].elt, ast.Call):
                    c = c.args[0].elt
                if isinstance(c, ast.Call) and not any(isinstance(x, ast.Continue) for b in loop.body for x in ast.walk(b)):
                    test = c
                    break
    if not isinstance(test, ast.Call) or ctx is None:
        return None
    tg = [t for t in ctx.typer.of(fn).targets(test)]
    if len(tg) != 1:
        return None
    g = tg[0]
    off = 1 if (g.has_self and g.kind != "static" and isinstance(test.func, ast.Attribute)) else 0
    amap = {g.params[i + off]: a.id for i, a in enumerate(test.args) if isinstance(a, ast.Name) and i + off < len(g.params)}
    if not amap:
        return None

    def removes(st):
        for x in ast.walk(st):
            if isinstance(x, ast.Call) and isinstance(x.func, ast.Attribute) and x.func.attr in ("pop", "remove") \
                    and isinstance(x.func.value, ast.Name) and x.func.value.id in amap:
                return x.func.value.id
            if isinstance(x, ast.Delete) and any(isinstance(t, ast.Subscript) and isinstance(t.value, ast.Name)
                                                 and t.value.id in amap for t in x.targets):
                return [t.value.id for t in x.targets if isinstance(t, ast.Subscript)][0]
        return None

    def grows(node, names):
        for x in ast.walk(node):
            if isinstance(x, ast.Call) and isinstance(x.func, ast.Attribute) and x.func.attr in GROW \
                    and pat.root_name(x.func.value) in names:
                return True
            if isinstance(x, ast.AugAssign) and pat.root_name(x.target) in names:
                return True
            if isinstance(x, ast.Assign) and any(isinstance(t, ast.Name) and t.id in names for t in x.targets):
                return True
        return False
    shrunk = set()

    def blocks(body):
        yield body
        for st in body:
            for f in ("body", "orelse", "finalbody"):
                if isinstance(getattr(st, f, None), list) and getattr(st, f) and isinstance(getattr(st, f)[0], ast.stmt):
                    yield from blocks(getattr(st, f))
            for h in getattr(st, "handlers", []):
                yield from blocks(h.body)
    nret = 0
    for body in blocks(g.node.body):
        for i, st in enumerate(body):
            if isinstance(st, ast.Return):
                v = st.value
                if v is None or (isinstance(v, ast.Constant) and not v.value):
                    continue
                nret += 1
                r = [removes(b) for b in body[:i] if not isinstance(b, (ast.If, ast.For, ast.While, ast.Try))]
                # a `try` every handler of which leaves the function with a false answer (or raises): past it, the
                # statements of its body have all been executed
                for b in body[:i]:
                    if isinstance(b, ast.Try) and not b.orelse and not b.finalbody and b.handlers and all(
                            h.body and (isinstance(h.body[-1], ast.Raise) or (
                                isinstance(h.body[-1], ast.Return) and (h.body[-1].value is None or (
                                    isinstance(h.body[-1].value, ast.Constant) and not h.body[-1].value.value))))
                            for h in b.handlers):
                        r += [removes(x) for x in b.body if not isinstance(x, (ast.If, ast.For, ast.While, ast.Try))]
                r = [x for x in r if x]
                if not r:
                    return None
                shrunk |= set(r)
    if not nret or grows(g.node, set(amap)):
        return None
    outer = {amap[p] for p in shrunk}
    if any(grows(st, outer) for st in loop.body):
        return None
    return "helper-shrinking", (f"{g.qname} returns a true value only after removing an element of {sorted(shrunk)}, "
                                f"never grows it, and the loop body does not grow {sorted(outer)}")


def _drops_one(st):
    """collection name when the statement removes one element: X.pop(..) / X.remove(..) / del X[i] /
    X = X[:a] + X[a + 1:]"""
    if isinstance(st, ast.Delete):
        for t in st.targets:
            if isinstance(t, ast.Subscript) and isinstance(t.value, ast.Name):
                return t.value.id
    if isinstance(st, (ast.Expr, ast.Assign)):
        for x in ast.walk(st.value):
            if isinstance(x, ast.Call) and isinstance(x.func, ast.Attribute) and x.func.attr in ("pop", "remove") \
                    and isinstance(x.func.value, ast.Name):
                return x.func.value.id
    if isinstance(st, ast.Assign) and len(st.targets) == 1 and isinstance(st.targets[0], ast.Name) \
            and isinstance(st.value, ast.BinOp) and isinstance(st.value.op, ast.Add):
        X, l, r = st.targets[0].id, st.value.left, st.value.right
        if isinstance(l, ast.Subscript) and isinstance(r, ast.Subscript) and pat.is_name(l.value, X) and pat.is_name(r.value, X) \
                and isinstance(l.slice, ast.Slice) and isinstance(r.slice, ast.Slice) and l.slice.lower is None \
                and r.slice.upper is None and l.slice.upper is not None and r.slice.lower is not None \
                and l.slice.step is None and r.slice.step is None:
            a, b = l.slice.upper, r.slice.lower
            if isinstance(b, ast.BinOp) and isinstance(b.op, ast.Add) and pat.const_value(b.right) == 1 \
                    and ast.dump(b.left) == ast.dump(a):
                return X
    return None


def _keeps_size(st, X):
    """X = X[:i] + [e] + X[i + 1:]  (replaces one element) / X[i] = e"""
    if isinstance(st, ast.Assign) and len(st.targets) == 1 and isinstance(st.targets[0], ast.Subscript) \
            and pat.is_name(st.targets[0].value, X) and not isinstance(st.targets[0].slice, ast.Slice):
        return True
    if isinstance(st, ast.Assign) and len(st.targets) == 1 and pat.is_name(st.targets[0], X) \
            and isinstance(st.value, ast.BinOp) and isinstance(st.value.op, ast.Add) \
            and isinstance(st.value.left, ast.BinOp) and isinstance(st.value.left.op, ast.Add):
        l, m, r = st.value.left.left, st.value.left.right, st.value.right
        if isinstance(l, ast.Subscript) and isinstance(r, ast.Subscript) and pat.is_name(l.value, X) and pat.is_name(r.value, X) \
                and isinstance(m, ast.List) and len(m.elts) == 1 and isinstance(l.slice, ast.Slice) and isinstance(r.slice, ast.Slice) \
                and l.slice.lower is None and r.slice.upper is None and l.slice.upper is not None and r.slice.lower is not None:
            a, b = l.slice.upper, r.slice.lower
            return isinstance(b, ast.BinOp) and isinstance(b.op, ast.Add) and pat.const_value(b.right) == 1 \
                and ast.dump(b.left) == ast.dump(a)
    return False


def _flag_loop(loop):
    """`while flag:` whose body first clears the flag and sets it again only right after one element was removed from a
    collection that the loop never grows: the collection shrinks at every iteration but the last"""
    test = loop.test
    if not isinstance(test, ast.Name) or not loop.body:
        return None
    flag = test.id
    first = loop.body[0]
    if not (isinstance(first, ast.Assign) and len(first.targets) == 1 and pat.is_name(first.targets[0], flag)
            and isinstance(first.value, ast.Constant) and first.value.value is False):
        return None
    colls = set()

    def blocks(body):
        yield body
        for st in body:
            for f in ("body", "orelse", "finalbody"):
                sub = getattr(st, f, None)
                if isinstance(sub, list) and sub and isinstance(sub[0], ast.stmt):
                    yield from blocks(sub)
            for h in getattr(st, "handlers", []):
                yield from blocks(h.body)
    for body in blocks(loop.body):
        for i, st in enumerate(body):
            if isinstance(st, ast.Assign) and any(pat.is_name(t, flag) for t in st.targets) and st is not first:
                if not (isinstance(st.value, ast.Constant) and st.value.value is True):
                    return None
                dropped = [_drops_one(b) for b in body[:i]]
                dropped = [d for d in dropped if d]
                if not dropped:
                    return None
                colls.add(dropped[-1])
    if not colls:
        return None
    # the collections are never grown or rebound otherwise inside the loop
    for X in colls:
        for n in ast.walk(loop):
            if isinstance(n, ast.Call) and isinstance(n.func, ast.Attribute) and n.func.attr in GROW and pat.root_name(n.func.value) == X:
                return None
            if isinstance(n, ast.AugAssign) and pat.root_name(n.target) == X:
                return None
            if isinstance(n, ast.Assign) and any(pat.is_name(t, X) for t in n.targets) \
                    and not (_drops_one(n) == X or _keeps_size(n, X)):
                return None
    return "flag/shrinking", f"the flag `{flag}` is set again only right after an element of {sorted(colls)} was removed"


def loop_witness(fn, loop, ctx=None):
    """(kind, text) or (None, reason)"""
    hs = _helper_shrinks(ctx, fn, loop)
    if hs:
        return hs
    fl = _flag_loop(loop)
    if fl:
        return fl
    test = loop.test
    names = {n.id for n in ast.walk(test) if isinstance(n, ast.Name)}
    # collections measured by len() / membership in the test
    shrink = set()
    for n in ast.walk(test):
        if isinstance(n, ast.Call) and isinstance(n.func, ast.Name) and n.func.id == "len" and n.args:
            r = pat.root_name(n.args[0])
            if r:
                shrink.add(r)
        if isinstance(n, ast.Compare) and any(isinstance(o, ast.In) for o in n.ops):
            r = pat.root_name(n.comparators[0])
            if r:
                shrink.add(r)
    # collections measured by their truthiness (`while xs:`, `while xs and ys:`, `while not done and xs:`), provided
    # the loop removes elements from them
    def truthy_names(t):
        if isinstance(t, ast.Name):
            return {t.id}
        if isinstance(t, ast.BoolOp):
            return set().union(*[truthy_names(v) for v in t.values])
        if isinstance(t, ast.UnaryOp) and isinstance(t.op, ast.Not):
            return truthy_names(t.operand)
        return set()
    removed_from = set()
    for n in ast.walk(loop):
        if isinstance(n, ast.Call) and isinstance(n.func, ast.Attribute) and n.func.attr in ("pop", "remove"):
            removed_from.add(pat.root_name(n.func.value))
        if isinstance(n, ast.Delete):
            removed_from |= {pat.root_name(t.value) for t in n.targets if isinstance(t, ast.Subscript)}
    shrink |= truthy_names(test) & removed_from
    called = {n.func.id for n in ast.walk(test) if isinstance(n, ast.Call) and isinstance(n.func, ast.Name)}
    counters = names - shrink - called
    # (c0) visited-set growth spelled in the loop test: `while X not in V:` whose body first records X in V (before
    #      anything X is made of is reassigned): every iteration adds a new element of a finite index set to V
    if isinstance(test, ast.Compare) and len(test.ops) == 1 and isinstance(test.ops[0], ast.NotIn) \
            and isinstance(test.comparators[0], ast.Name):
        V, key = test.comparators[0].id, ast.dump(test.left)
        parts = {n.id for n in ast.walk(test.left) if isinstance(n, ast.Name)}
        for st in loop.body:
            if isinstance(st, ast.Expr) and isinstance(st.value, ast.Call) and isinstance(st.value.func, ast.Attribute) \
                    and st.value.func.attr in ("append", "add") and pat.is_name(st.value.func.value, V) \
                    and st.value.args and ast.dump(st.value.args[0]) == key:
                shrinks_v = any(isinstance(x, ast.Call) and isinstance(x.func, ast.Attribute)
                                and x.func.attr in ("pop", "remove", "clear", "discard") and pat.root_name(x.func.value) == V
                                for x in ast.walk(loop)) or any(
                    isinstance(x, ast.Assign) and any(pat.is_name(t, V) for t in x.targets) for x in ast.walk(loop))
                if not shrinks_v:
                    return "visited-set", f"each iteration adds a new element of a finite index set to `{V}`"
                break
            if any(isinstance(x, ast.Name) and isinstance(x.ctx, ast.Store) and x.id in parts for x in ast.walk(st)):
                break
            if isinstance(st, (ast.If, ast.For, ast.While, ast.Try, ast.With)):
                break
    const_true = isinstance(test, ast.Constant) and test.value is True
    if const_true:
        # (c1) visited-set growth: `if X in V: break` ... `V.append(X)` on the straight path
        for i, st in enumerate(loop.body):
            if isinstance(st, ast.If) and len(st.body) == 1 and isinstance(st.body[0], ast.Break) \
                    and isinstance(st.test, ast.Compare) and isinstance(st.test.ops[0], ast.In):
                left = st.test.left
                keys = {ast.dump(left)}
                if isinstance(left, ast.NamedExpr) and isinstance(left.target, ast.Name):     # `if (k := X) in V: break`
                    keys = {ast.dump(left.value), ast.dump(ast.Name(id=left.target.id, ctx=ast.Load()))}
                V = pat.root_name(st.test.comparators[0])
                for st2 in loop.body[i + 1:]:
                    if isinstance(left, ast.NamedExpr) and any(
                            isinstance(x, ast.Name) and isinstance(x.ctx, ast.Store) and x.id == left.target.id for x in ast.walk(st2)):
                        break
                    if isinstance(st2, ast.Expr) and isinstance(st2.value, ast.Call) and isinstance(st2.value.func, ast.Attribute) \
                            and st2.value.func.attr in ("append", "add") and pat.root_name(st2.value.func.value) == V \
                            and st2.value.args and ast.dump(st2.value.args[0]) in keys:
                        return "visited-set", f"each iteration breaks or adds a new element of a finite index set to `{V}`"
        # (c2) every path breaks or shrinks a collection that the `for ... else: break` iterates
        coll = set()
        for n in ast.walk(loop):
            if isinstance(n, ast.Call) and isinstance(n.func, ast.Attribute) and n.func.attr in ("pop", "remove"):
                r = pat.root_name(n.func.value)
                if r:
                    coll.add(r)
            if isinstance(n, ast.Delete):
                coll |= {pat.root_name(t.value) for t in n.targets if isinstance(t, ast.Subscript) and pat.root_name(t.value)}
        if _all_paths_progress(loop.body, set(), coll):
            return "shrinking", f"every iteration breaks or removes an element of {sorted(coll)}"
        return None, "`while True` without a recognised ranking"
    # collection rebinding inside the body: allowed only to a list filled from popped elements (DivideConnecteds)
    rebound = [st for st in ast.walk(loop) if isinstance(st, ast.Assign) and any(
        isinstance(t, ast.Name) and t.id in shrink for t in st.targets)]
    if _all_paths_progress(loop.body, counters, shrink):
        if rebound:
            for st in rebound:
                src = st.value
                if not (isinstance(src, ast.Name) and _filled_only_from_pops(loop, src.id, shrink)):
                    return None, f"loop collection rebound to `{U(src)[:30]}` inside the loop"
        kind = "shrinking" if shrink and not counters else "counter/shrink"
        return kind, f"every path through the body advances {sorted(counters) or ''} or removes from {sorted(shrink) or ''}"
    return None, "some path through the loop body neither advances the counter nor shrinks the collection"


def _filled_only_from_pops(loop, name, shrink):
    """local list `name` receives, within `loop`, only elements taken out of the loop collection: popped elements, or
    the loop variable of a `for` over the collection (at most one append per iteration) -- so it never holds more
    elements than the collection does"""
    popped_vars = set()
    for n in ast.walk(loop):
        if isinstance(n, ast.Assign) and isinstance(n.value, ast.Call) and isinstance(n.value.func, ast.Attribute) \
                and n.value.func.attr == "pop" and pat.root_name(n.value.func.value) in shrink:
            for t in n.targets:
                if isinstance(t, ast.Name):
                    popped_vars.add(t.id)
    par = pat.parents_of(loop)
    for n in ast.walk(loop):
        if isinstance(n, ast.Call) and isinstance(n.func, ast.Attribute) and n.func.attr in ("append", "add", "insert") \
                and pat.root_name(n.func.value) == name:
            a = n.args[-1]
            if isinstance(a, ast.Name) and a.id in popped_vars:
                continue
            # the element is the variable of the nearest enclosing `for` over the collection
            p, ok = par.get(id(n)), False
            while p is not None:
                if isinstance(p, (ast.For, ast.While)):
                    ok = isinstance(p, ast.For) and isinstance(a, ast.Name) and pat.is_name(p.target, a.id) \
                        and pat.root_name(p.iter) in shrink and isinstance(p.iter, ast.Name)
                    if ok:
                        # one append of the element per iteration at most
                        same = [x for x in ast.walk(p) if isinstance(x, ast.Call) and isinstance(x.func, ast.Attribute)
                                and x.func.attr in ("append", "add", "insert", "extend") and pat.root_name(x.func.value) == name]
                        ok = len(same) == 1
                    break
                p = par.get(id(p))
            if not ok:
                return False
        if isinstance(n, ast.Call) and isinstance(n.func, ast.Attribute) and n.func.attr in ("extend", "update") \
                and pat.root_name(n.func.value) == name:
            return False
        if isinstance(n, ast.AugAssign) and pat.root_name(n.target) == name:
            return False
    return True


def _next_value_temp(loop, counter, tmp):
    """`tmp = counter + k` (k a positive constant) is a top-level statement of the loop body, the only store to `tmp`
    in the loop, and every store to `counter` comes after it: `counter = tmp` then moves the counter up by k"""
    defs = [(i, st) for i, st in enumerate(loop.body) for n in ast.walk(st)
            if isinstance(n, ast.Name) and isinstance(n.ctx, (ast.Store, ast.Del)) and n.id == tmp]
    if len(defs) != 1:
        return False
    i, st = defs[0]
    if not (isinstance(st, ast.Assign) and len(st.targets) == 1 and pat.is_name(st.targets[0], tmp)
            and isinstance(st.value, ast.BinOp) and isinstance(st.value.op, ast.Add)):
        return False
    v = st.value
    k = v.right if pat.is_name(v.left, counter) else v.left if pat.is_name(v.right, counter) else None
    if k is None or not (isinstance(pat.const_value(k), (int, float)) and pat.const_value(k) > 0):
        return False
    for j, other in enumerate(loop.body):
        if j <= i and any(isinstance(n, ast.Name) and isinstance(n.ctx, (ast.Store, ast.Del)) and n.id == counter
                          for n in ast.walk(other)):
            return False
    return True


def _measure_progress(loop):
    """ranking by a sum of bounded measures read off the conjuncts of the loop test, whatever their mix:
         c < B, c <= B, B > c, c != B      B - c        progress: c += k / c = c + k (k a positive constant)
         len(L) < B ...                    B - len(L)   progress: L.append / add / insert (one element)
         not flag / flag                   1 or 0       progress: flag = True / flag = False
         L / len(L) > 0 / len(L)           len(L)       progress: L.pop / remove / del L[i]
       Every path through the body (up to its `continue`) makes progress on one of them, and nothing in the loop ever
       moves a measure the other way or touches a bound: the sum decreases at every iteration and is bounded below while
       the test holds.  Conjuncts that are not understood only end the loop sooner."""
    test = loop.test
    atoms = list(test.values) if isinstance(test, ast.BoolOp) and isinstance(test.op, ast.And) else [test]
    stored = {n.id for n in ast.walk(ast.Module(body=loop.body, type_ignores=[])) if isinstance(n, ast.Name)
              and isinstance(n.ctx, (ast.Store, ast.Del))}

    def invariant(e):
        if any(isinstance(n, ast.Name) and n.id in stored for n in ast.walk(e)):
            return False
        return not any(isinstance(n, ast.Call) and not (isinstance(n.func, ast.Name) and n.func.id in ("len", "int", "abs"))
                       for n in ast.walk(e))

    def len_of(e):
        if isinstance(e, ast.Call) and isinstance(e.func, ast.Name) and e.func.id == "len" and len(e.args) == 1 \
                and isinstance(e.args[0], ast.Name):
            return e.args[0].id
        return None
    up, grow, flags, shrink = set(), set(), {}, set()
    for a in atoms:
        if isinstance(a, ast.Compare) and len(a.ops) == 1:
            l, op, r = a.left, a.ops[0], a.comparators[0]
            if isinstance(op, (ast.Gt, ast.GtE)):
                l, r, op = r, l, (ast.Lt() if isinstance(op, ast.Gt) else ast.LtE())
            if isinstance(op, (ast.Lt, ast.LtE)):
                if isinstance(l, ast.Name) and invariant(r):
                    up.add(l.id)
                elif isinstance(r, ast.BinOp) and isinstance(r.op, ast.Sub) and isinstance(r.right, ast.Name) \
                        and invariant(r.left) and invariant(l):
                    up.add(r.right.id)                  # k < B - c  is  c < B - k
                elif isinstance(l, ast.BinOp) and isinstance(l.op, ast.Add) and isinstance(l.left, ast.Name) \
                        and invariant(l.right) and invariant(r):
                    up.add(l.left.id)                   # c + k < B  is  c < B - k
                elif len_of(l) and invariant(r):
                    grow.add(len_of(l))
                elif len_of(r) and isinstance(l, ast.Constant) and isinstance(l.value, int) and l.value >= 0:
                    shrink.add(len_of(r))               # 0 < len(L)
        elif isinstance(a, ast.UnaryOp) and isinstance(a.op, ast.Not) and isinstance(a.operand, ast.Name):
            flags[a.operand.id] = True                  # the loop ends once the flag is True
        elif isinstance(a, ast.Name):
            flags[a.id] = False                          # ends once falsy: a flag set to False, or a list emptied
            shrink.add(a.id)
        elif len_of(a):
            shrink.add(len_of(a))
    if not (up or grow or flags or shrink):
        return None

    def progress(st):
        """does this simple statement move a measure the right way?"""
        if isinstance(st, ast.AugAssign) and isinstance(st.target, ast.Name) and st.target.id in up \
                and isinstance(st.op, ast.Add) and isinstance(pat.const_value(st.value), (int, float)) and pat.const_value(st.value) > 0:
            return True
        if isinstance(st, ast.Assign) and len(st.targets) == 1 and isinstance(st.targets[0], ast.Name):
            t, v = st.targets[0].id, st.value
            if t in up and isinstance(v, ast.BinOp) and isinstance(v.op, ast.Add) and (
                    (pat.is_name(v.left, t) and isinstance(pat.const_value(v.right), (int, float)) and pat.const_value(v.right) > 0)
                    or (pat.is_name(v.right, t) and isinstance(pat.const_value(v.left), (int, float)) and pat.const_value(v.left) > 0)):
                return True
            if t in flags and isinstance(v, ast.Constant) and v.value is flags[t]:
                return True
            if t in up and isinstance(v, ast.Name) and _next_value_temp(loop, t, v.id):
                return True
        if isinstance(st, ast.Expr) and isinstance(st.value, ast.Call) and isinstance(st.value.func, ast.Attribute) \
                and isinstance(st.value.func.value, ast.Name):
            recv, m = st.value.func.value.id, st.value.func.attr
            if recv in grow and m in ("append", "add", "insert"):
                return True
            if recv in shrink and m in ("pop", "remove"):
                return True
        if isinstance(st, ast.Assign) and isinstance(st.value, ast.Call) and isinstance(st.value.func, ast.Attribute) \
                and isinstance(st.value.func.value, ast.Name) and st.value.func.value.id in shrink and st.value.func.attr == "pop":
            return True
        if isinstance(st, ast.Delete) and any(isinstance(t, ast.Subscript) and isinstance(t.value, ast.Name)
                                              and t.value.id in shrink and not isinstance(t.slice, ast.Slice) for t in st.targets):
            return True
        return False

    # nothing moves a measure the other way
    for n in ast.walk(ast.Module(body=loop.body, type_ignores=[])):
        if isinstance(n, (ast.Assign, ast.AugAssign, ast.AnnAssign, ast.Delete, ast.For, ast.NamedExpr, ast.With, ast.comprehension)):
            tgts = []
            if isinstance(n, ast.Assign):
                tgts = n.targets
            elif isinstance(n, (ast.AugAssign, ast.AnnAssign, ast.NamedExpr, ast.For, ast.comprehension)):
                tgts = [n.target]
            elif isinstance(n, ast.Delete):
                tgts = n.targets
            for t in tgts:
                for x in ast.walk(t):
                    if isinstance(x, ast.Name) and isinstance(x.ctx, (ast.Store, ast.Del)) and x.id in (up | grow | set(flags) | shrink):
                        if not (isinstance(n, (ast.Assign, ast.AugAssign, ast.Delete)) and progress(n)):
                            return None
        if isinstance(n, ast.Call) and isinstance(n.func, ast.Attribute) and isinstance(n.func.value, ast.Name):
            recv, m = n.func.value.id, n.func.attr
            if recv in grow and m in ("pop", "remove", "clear", "discard", "extend", "update", "sort", "reverse") and m not in ("sort", "reverse"):
                return None
            if recv in shrink and m in GROW + ("clear",) and m != "clear":
                return None
        # a measured collection handed to a callee may be changed there
        if isinstance(n, ast.Call):
            for a in list(n.args) + [k.value for k in n.keywords]:
                if isinstance(a, ast.Name) and a.id in (grow | shrink) and not (
                        isinstance(n.func, ast.Name) and n.func.id in ("len", "tuple", "list", "sorted", "enumerate", "zip", "iter", "any", "all", "min", "max", "sum")):
                    return None

    def all_paths(body):
        """True when every path that reaches the end of `body` or a `continue` in it has made progress"""
        for st in body:
            if progress(st):
                return True
            if isinstance(st, (ast.Break, ast.Return, ast.Raise)):
                return True
            if isinstance(st, ast.Continue):
                return False
            if isinstance(st, ast.If):
                if st.orelse and all_paths(st.body) and all_paths(st.orelse):
                    return True
                # a branch that may fall through without progress must not `continue`
                if _has_continue(st.body) and not all_paths(st.body):
                    return False
                if st.orelse and _has_continue(st.orelse) and not all_paths(st.orelse):
                    return False
            elif isinstance(st, (ast.Try, ast.With, ast.For, ast.While)):
                inner = [x for x in ast.walk(st) if isinstance(x, ast.Continue)]
                if isinstance(st, (ast.Try, ast.With)) and inner:
                    return False
        return False
    if all_paths(loop.body):
        what = sorted(up) + [f"len({x})" for x in sorted(grow)] + sorted(flags) + [f"len({x})" for x in sorted(shrink - set(flags))]
        return "sum of measures", f"every path through the body moves one of {what} towards the end of the loop and nothing moves them back"
    return None


def _has_continue(body):
    return any(isinstance(x, ast.Continue) for st in body for x in ast.walk(st)
               if not isinstance(st, (ast.For, ast.While)))


def _loop_witness_sizes(fn, loop, ctx=None):
    """the catalogue of ranking idioms first; when none applies, the sum of the measures read off the loop test, then
    the size-bound analysis (verifkit/sizes.py)"""
    kind, txt = loop_witness(fn, loop, ctx)
    if kind:
        return kind, txt
    mp = _measure_progress(loop)
    if mp:
        return mp
    from verifkit import sizes
    ok, why = sizes.while_progress(loop)
    if ok:
        return "size-bound", why
    return kind, txt


def r01_4(ctx):
    out = Outcome("R01.4", "termination: every while loop has a ranking witness (counter to a bound, shrinking "
                           "collection, visited-set growth) and every recursion decreases its argument", floor=4)
    for q, fn in sorted(ctx.model.funcs.items()):
        for n in ast.walk(fn.node):
            if isinstance(n, ast.While):
                kind, txt = _loop_witness_sizes(fn, n, ctx)
                if kind:
                    out.ok(q, f"while `{U(n.test)[:40]}`: {kind}", where=fn.where(n), detail=txt)
                else:
                    out.bad(q, f"no termination witness for `while {U(n.test)[:40]}`", where=fn.where(n), detail=txt)
    # recursion: strongly connected components of the call graph
    g = ctx.graph
    for q in sorted(ctx.model.funcs):
        if q in g.callees(q):
            fn = ctx.model.funcs[q]
            # a self-edge that exists only because a receiver of unknown type has a method of the same name is no
            # recursion that can be judged (x.clean() inside clean())
            inf_q = ctx.typer.of(fn)
            kinds = {kind for node, kind, tg in inf_q.calls if isinstance(tg, list) and any(t.qname == q for t in tg)}
            if kinds and kinds <= {"cha"}:
                # the receiver's type is not known.  If it is never the object the method was called on (`jordan.move(..)`
                # inside `move`, for the curves of a shape), the call descends into another object: no recursion on
                # this one.  Only a call on `self` itself cannot be judged.
                recvs = [node.func.value for node, kind, tg in inf_q.calls if isinstance(tg, list) and any(t.qname == q for t in tg)
                         and isinstance(node, ast.Call) and isinstance(node.func, ast.Attribute)]
                selfn = fn.params[0] if fn.params else None
                if recvs and all(not pat.is_name(r, selfn) for r in recvs):
                    out.ok(q, "same-named method called on another object (not a recursion on this one)", where=fn.where())
                else:
                    out.undecided(q, "a call on a receiver of unknown type may or may not be a recursive call", where=fn.where())
                continue
            ok, txt = _recursion_decreases(fn)
            if not ok:
                from verifkit import sizes
                ok2, txt2 = sizes.recursion_decreases(fn)
                if ok2:
                    ok, txt = True, txt2
            (out.ok if ok else out.bad)(q, "direct recursion: " + ("argument strictly smaller" if ok else
                                                                   "no decreasing argument recognised"),
                                        where=fn.where(), detail=txt)
    return out


def _swap_recursion(fn):
    """`if self.k < other.k: return other <op> self` (operands swapped under a strict order on the same attribute):
    the guard is false in the nested call, so the recursion is one level deep"""
    if len(fn.params) < 2:
        return False
    p, q = fn.params[0], fn.params[1]
    ok = False
    for n in ast.walk(fn.node):
        if not isinstance(n, ast.If):
            continue
        t = n.test
        if not (isinstance(t, ast.Compare) and len(t.ops) == 1 and isinstance(t.ops[0], (ast.Lt, ast.Gt))):
            continue
        l, r = t.left, t.comparators[0]
        if not (isinstance(l, ast.Attribute) and isinstance(r, ast.Attribute) and l.attr == r.attr
                and isinstance(l.value, ast.Name) and isinstance(r.value, ast.Name) and {l.value.id, r.value.id} == {p, q}):
            continue
        if len(n.body) == 1 and isinstance(n.body[0], ast.Return) and not n.orelse:
            v = n.body[0].value
            swapped = (isinstance(v, ast.BinOp) and pat.is_name(v.left, q) and pat.is_name(v.right, p)) or \
                (isinstance(v, ast.Call) and isinstance(v.func, ast.Attribute) and pat.is_name(v.func.value, q)
                 and len(v.args) == 1 and pat.is_name(v.args[0], p))
            if swapped:
                ok = True
    return ok


def _recursion_decreases(fn):
    """recursive call on a local list that only receives elements removed from the parameter list, after at least one
    element of the parameter was removed unconditionally elsewhere"""
    if _swap_recursion(fn):
        return True, "operands swapped under a strict order on the same attribute: one level deep"
    p0 = fn.params[0] if fn.params else None
    for n in ast.walk(fn.node):
        if isinstance(n, ast.Call) and isinstance(n.func, ast.Name) and n.func.id == fn.name and n.args:
            a = n.args[0]
            if not isinstance(a, ast.Name):
                return False, "recursive argument is not a local collection"
            # base case on emptiness
            base = any(isinstance(s, ast.If) and any(isinstance(x, ast.Return) for x in s.body)
                       and "len" in U(s.test) and p0 in U(s.test) for s in fn.node.body)
            # the argument list only receives popped elements of the parameter (possibly rebound to list(param))
            aliases = {p0}
            for s in ast.walk(fn.node):
                if isinstance(s, ast.Assign) and isinstance(s.value, ast.Call) and isinstance(s.value.func, ast.Name) \
                        and s.value.func.id in ("list", "tuple") and s.value.args and pat.root_name(s.value.args[0]) in aliases:
                    for t in s.targets:
                        if isinstance(t, ast.Name):
                            aliases.add(t.id)
            class L:  # pseudo loop = whole function
                pass
            fake = ast.Module(body=fn.node.body, type_ignores=[])
            filled = _filled_only_from_pops(fake, a.id, aliases)
            # some element of the parameter is consumed elsewhere (moved to another list) on every call
            consumed = any(isinstance(x, ast.Call) and isinstance(x.func, ast.Attribute) and x.func.attr == "append"
                           and pat.root_name(x.func.value) != a.id and x.args and isinstance(x.args[0], ast.Call)
                           and isinstance(x.args[0].func, ast.Attribute) and x.args[0].func.attr == "pop"
                           and pat.root_name(x.args[0].func.value) in aliases for x in ast.walk(fn.node))
            if base and filled and consumed:
                return True, f"`{a.id}` holds only elements removed from `{p0}`, of which at least one goes elsewhere"
            return False, f"base={base} filled_from_pops={filled} consumed={consumed}"
    return False, "no recursive call found"


def r01_5(ctx):
    o1 = C08.r08_4(ctx)
    o1.rule = "R01.5a"
    o1.text = ("operands stay valid for reuse in nested expressions: operators write operand state only below "
               "JordanCurve.split or into caches (same analysis as R08.4)")
    o2 = C08.r08_1(ctx)
    o2.rule = "R01.5b"
    o2.text = "operator results are fresh objects, so nesting never aliases an operand (same analysis as R08.1)"
    return [o1, o2]


def r01_6(ctx):
    from rules import C09
    out = Outcome("R01.6", "every boundary curve takes part: `jordans` covers every subshape and no function uses one "
                           "curve of a possibly multi-curve shape for the whole shape", floor=3)
    C09.jordans_coverage(ctx, out)
    return out


class _NP(StandIn):
    """named point: equal iff same name.  With coordinates it can be unpacked; two points of the same name may carry
    coordinates that differ in the last bits (the same crossing computed on each of the two curves: equal as points
    compare, within their tolerance, and not bit-identical)"""

    def __init__(self, name, xy=None):
        self.name, self.xy = name, xy

    def __iter__(self):
        if self.xy is None:
            raise TypeError("point without coordinates")
        return iter(self.xy)

    def __getitem__(self, i):
        if self.xy is None:
            raise TypeError("point without coordinates")
        return self.xy[i]

    def __eq__(self, o):
        return isinstance(o, _NP) and o.name == self.name

    def __ne__(self, o):
        return not self.__eq__(o)

    def __hash__(self):
        return hash(self.name)

    def __repr__(self):
        return self.name


class _CurveP(StandIn):
    """closed chain of quadratic pieces; `p in curve` for its control end points"""

    def __init__(self, name, ends, mids=None):
        self.name = name
        n = len(ends)
        mids = mids or {}
        self.segments = tuple(Obj(f"{name}s{i}", degree=2, npts=3,
                                  ctrlpoints=(ends[i], mids.get(i, _NP(f"{name}m{i}")), ends[(i + 1) % n])) for i in range(n))
        vs = []
        for sg in self.segments:
            for pnt in sg.ctrlpoints:
                if not any(pnt is v for v in vs):
                    vs.append(pnt)
        self.vertices = tuple(vs)
        self.ends = list(ends)

    def __contains__(self, pnt):
        return any(pnt == e for e in self.ends)

    def __repr__(self):
        return self.name


def r01_7(ctx):
    """abstract run (W) of pursue_path on two closed chains of *curved* pieces that cross at X and Y: the chain of
    (curve, piece) indices must follow each curve until its end point lies on the other curve and continue there with
    the piece that starts at that point"""
    from verifkit.finite import Raised
    out = Outcome("R01.7", "pursue_path chains the pieces: after piece (a, b) comes (a, b+1) unless its end point lies on "
                           "another curve, in which case the piece of that curve which starts there (by segment index, "
                           "also for curved pieces with interior control points)", floor=2)
    fn = ctx.fn("shape.FollowPath.pursue_path")
    P0, P1, Q0 = _NP("P0", (0.0, 0.0)), _NP("P1", (3.0, 3.0)), _NP("Q0", (5.0, 0.0))
    X, Y = _NP("X", (1.0, 2.0)), _NP("Y", (2.0, 1.0))
    # the crossings as the second curve stores them: the same points, their coordinates a rounding error apart
    X2, Y2 = _NP("X", (1.0 + 2e-13, 2.0)), _NP("Y", (2.0, 1.0 - 2e-13))
    J0 = _CurveP("J0", [P0, X, P1, Y])            # pieces P0-X, X-P1, P1-Y, Y-P0
    # ... and the corner P1 of the first curve is where the middle control point of the arc Q0-X of the second one sits
    # (a rounded corner drawn over the sharp one): a control point off the curve is no junction
    J1 = _CurveP("J1", [X2, Y2, Q0], mids={2: _NP("P1", (3.0, 3.0))})              # pieces X-Y, Y-Q0, Q0-X
    cases = [((0, 1), ((0, 1), (0, 2), (1, 1), (1, 2))), ((1, 1), ((1, 1), (1, 2), (0, 1), (0, 2))),
             ((0, 5), ((0, 1), (0, 2), (1, 1), (1, 2))),          # the start index wraps around
             ((1, 0), ((1, 0), (0, 3), (0, 0)))]                  # the other cycle: X-Y on J1, then Y-P0, P0-X on J0
    for (a, b), want in cases:
        try:
            got = Runner(ctx, set(), None).call_fn(fn, [a, b, (J0, J1)])
        except Undecided as ex:
            out.undecided(fn.qname, f"start ({a}, {b}): {ex}", where=fn.where())
            continue
        except Raised as ex:
            out.bad(fn.qname, "following the chain of boundary pieces raises", where=fn.where(),
                    detail=f"start ({a}, {b}) on curves P0-X-P1-Y and X-Y-Q0 (quadratic pieces; P1 is also the middle control "
                           f"point of the arc Q0-X): {ex.what}")
            continue
        got = tuple(tuple(x) for x in got)
        if got == want:
            out.ok(fn.qname, f"start ({a}, {b}) -> {got}", where=fn.where())
        else:
            out.bad(fn.qname, "the chain of boundary pieces is not followed correctly", where=fn.where(),
                    detail=f"start ({a}, {b}) on curves P0-X-P1-Y and X-Y-Q0 (quadratic pieces): got {got}, required {want}")
    return out


def r01_8(ctx):
    """abstract run (W) of follow_path: from the selected start pieces to result curves.  Worlds: the two-crossing
    chains of R01.7 (two loops of four and three pieces) and two lenses (curves of two curved pieces each, crossing at
    X and Y), whose result loops have exactly two pieces."""
    from verifkit.finite import Raised
    out = Outcome("R01.8", "follow_path builds one result curve per distinct loop of selected pieces (rotations of one "
                           "loop counted once), from exactly the pieces of the loop in order -- also loops of two "
                           "curved pieces", floor=2)
    fn = ctx.fn("shape.FollowPath.follow_path")
    P0, P1, Q0, X, Y = (_NP(n) for n in ("P0", "P1", "Q0", "X", "Y"))
    worlds = {
        "two chains crossing twice, union-like selection": (
            (_CurveP("J0", [P0, X, P1, Y]), _CurveP("J1", [X, Y, Q0])), [(0, 1), (0, 2), (1, 1), (1, 2)],
            [("J0s1", "J0s2", "J1s1", "J1s2")]),
        "two chains crossing twice, both loops selected": (
            (_CurveP("J0", [P0, X, P1, Y]), _CurveP("J1", [X, Y, Q0])), [(0, 1), (1, 0), (0, 3)],
            [("J0s1", "J0s2", "J1s1", "J1s2"), ("J1s0", "J0s3", "J0s0")]),
        "two chains crossing twice, the start pieces of one loop listed around those of the other": (
            (_CurveP("J0", [P0, X, P1, Y]), _CurveP("J1", [X, Y, Q0])), [(0, 1), (1, 0), (0, 2), (0, 3), (1, 1)],
            [("J0s1", "J0s2", "J1s1", "J1s2"), ("J1s0", "J0s3", "J0s0")]),
        "two lenses: loops of two pieces": (
            (_CurveP("L0", [X, Y]), _CurveP("L1", [X, Y])), [(0, 0), (1, 1)], [("L0s0", "L1s1")]),
        "two lenses, the other pair": (
            (_CurveP("L0", [X, Y]), _CurveP("L1", [X, Y])), [(1, 0), (0, 1)], [("L1s0", "L0s1")]),
    }

    def hook(rn, ev, call, cname, recv, args, kwargs):
        if cname == "isinstance":
            return True
        if cname in ("copy", "deepcopy") and args:
            return args[0]
        if cname == "from_segments":
            return ("CURVE", tuple(str(sg) for sg in args[0]))
        return NotImplemented

    def canon(loop):
        k = loop.index(min(loop))
        return tuple(loop[k:] + loop[:k])
    for label, (jordans, starts, want) in worlds.items():
        try:
            got = Runner(ctx, set(), hook).call_fn(fn, [tuple(jordans), tuple(starts)])
        except (Undecided, Raised) as ex:
            out.undecided(fn.qname, f"{label}: {ex}", where=fn.where())
            continue
        loops = sorted(canon(list(c[1])) for c in got if isinstance(c, tuple) and c and c[0] == "CURVE")
        if loops == sorted(canon(list(w)) for w in want):
            out.ok(fn.qname, f"{label} -> {len(loops)} curve(s)", where=fn.where())
        else:
            out.bad(fn.qname, "the result curves are not the loops of the selected pieces", where=fn.where(),
                    detail=f"{label}: start pieces {starts} give {loops}, required {sorted(map(list, want))}")
    return out


def r01_9(ctx):
    from rules import C10
    o = C10.r10_1(ctx)
    o.rule = "R01.9"
    o.text = ("no operator reads a bounding box or an orientation cached before an operand was transformed in place: every lazily cached quantity is reset by each write to the state it is derived from (same analysis as R10.1)")
    return o


def r01_10(ctx):
    from rules import C06
    o = C06.r06_4(ctx)
    o.rule = "R01.10"
    o.text = ("the curves of a result are assembled into the right components: grouped by mutual containment, the curve "
              "of largest |area| seeding each component, on worlds nested up to four levels (same analysis as R06.4)")
    return o


def r01_11(ctx):
    from rules import C15
    o = C15.r15_4(ctx)
    o.rule = "R01.11"
    o.text = ("the crossings found on an operand curve are inserted into the segments they were found on: JordanCurve.split addresses later segments correctly after earlier insertions, several nodes per segment included (same analysis as R15.4)")
    return o


def r01_12(ctx):
    from rules import C17
    o = C17.r17_3(ctx)
    o.rule = "R01.12"
    o.text = ("the boxes used as quick rejects enclose what they stand for: the box of a segment / closed curve / shape contains every point of it, interior extrema of curved pieces included (same analysis as R17.3)")
    return o


def r01_13(ctx):
    """abstract run (W) of FollowPath.split_two_jordans on two stand-in curves with a tabulated crossing list: each curve
    is split exactly once, at its *own* (segment, parameter) pairs -- (a, u) for the first, (b, v) for the second --
    index i paired with parameter i, every crossing used, nothing when the boxes are apart"""
    from verifkit.finite import Raised
    out = Outcome("R01.13", "split_two_jordans cuts each of the two curves at its own side of every crossing: the first at "
                            "(a_i, u_i), the second at (b_i, v_i), indices and parameters kept together", floor=3)
    fn = ctx.fn("shape.FollowPath.split_two_jordans")
    # ... two of them at a vertex of one curve and inside a segment of the other (the split ignores the parameters 0 and 1)
    inters = [(0, 2, Fr(1, 4), Fr(2, 3)), (0, 1, Fr(3, 4), Fr(1, 5)), (3, 2, Fr(1, 2), Fr(1, 7)), (1, 0, Fr(1, 3), Fr(5, 6)),
              (2, 3, Fr(0), Fr(2, 5)), (2, 1, Fr(3, 8), Fr(1)), (1, 3, Fr(1), Fr(4, 9)), (3, 0, Fr(5, 7), Fr(0))]

    class BoxT(StandIn):
        def __init__(self, meets):
            self.meets = meets

        def __and__(self, o):
            return self if self.meets else None

        __rand__ = __and__

        def __bool__(self):
            return True

    class Cv(StandIn):
        def __init__(self, name, meets=True, first=True):
            self.name, self.meets, self.first, self.splits = name, meets, first, []

        def box(self):
            return BoxT(self.meets)

        def intersection(self, other, equal_beziers=True, end_points=True):
            if not self.meets:
                return ()                                   # curves whose boxes are apart do not cross
            return tuple(inters) if self.first else tuple((b, a, v, u) for a, b, u, v in inters)

        def __and__(self, other):
            return self.intersection(other, False, False)

        def split(self, indexs, nodes):
            self.splits.append((tuple(indexs), tuple(nodes)))
    for label, meets in (("crossing curves", True), ("boxes apart", False)):
        A, B = Cv("A", meets, True), Cv("B", meets, False)
        try:
            Runner(ctx, set(), lambda rn, ev, c, n, r, a, k: True if n == "isinstance" else NotImplemented).call_fn(fn, [A, B])
        except (Undecided, Raised) as ex:
            out.undecided(fn.qname, f"{label}: {ex}", where=fn.where())
            continue
        if not meets:
            ok = not any(ix for ix, nd in A.splits + B.splits)
            (out.ok if ok else out.bad)(fn.qname, "boxes apart (no crossings): nothing is split" if ok else
                                        "curves that do not cross are split all the same", where=fn.where())
            continue
        for cv, want in ((A, sorted({(a, u) for a, _, u, _ in inters})), (B, sorted({(b, v) for _, b, _, v in inters}))):
            got = sorted({p for ix, nd in cv.splits for p in zip(ix, nd) if 0 < p[1] < 1})
            want = [p for p in want if 0 < p[1] < 1]
            mismatched = any(len(ix) != len(nd) for ix, nd in cv.splits)
            if got == want and not mismatched and len(cv.splits) >= 1:
                out.ok(fn.qname, f"curve {cv.name} is split at its own {len(want)} (segment, parameter) pairs", where=fn.where())
            else:
                out.bad(fn.qname, f"curve {cv.name} is not split at its own side of the crossings", where=fn.where(),
                        detail=f"split at {[(i, str(t)) for i, t in got]}, required {[(i, str(t)) for i, t in want]}")
    return out


RULES = [r01_1, r01_2, r01_3, r01_4, r01_5, r01_6, r01_7, r01_8, r01_9, r01_10, r01_11, r01_12, r01_13]
