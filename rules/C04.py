"""C04 -- area and moments equal the true integrals (structural clauses only; the
quadrature weights of pynurbs, curved accuracy and numeric values are NOT
decided).

 R04.1 Green formula plumbing of IntegrateShape.polynomial: the boundary
       integral of x^(a+1) y^b dy is taken over every boundary curve, the sum is
       divided by (a+1), expy and nnodes are forwarded unchanged.
 R04.2 layer forwarding: IntegrateJordan.vertical/area/lenght/polynomial sum the
       same-named IntegratePlanar integral over every segment with the same
       arguments; IntegratePlanar.area is the vertical integral of x^1 y^0.
 R04.3 coordinate roles in IntegratePlanar.vertical: sum_i w_i x_i^a y_i^b y'_i
       with x, y from the curve points and y' from coordinate 1 of the derivative
       curve, all at the same nodes (abstract run on stand-in values; also on a
       curved segment whose end points have the same ordinate).
 R04.4 node budget for straight segments: the default node count exceeds the
       polynomial degree of the integrand for all exponents (symbolic).
 R04.5 float() routes: DefinedShape -> area integral; Connected/Disjoint sum over
       every subshape; Empty 0, Whole inf; `jordans` covers every subshape.
"""
import ast
from fractions import Fraction as Fr

from verifkit import pat, poly
from verifkit.absrun import Obj, Runner, StandIn
from verifkit.core import Outcome
from verifkit.finite import Undecided, Raised
from rules import C09

ASSUMPTIONS = [
    "Green's theorem; pynurbs open_newton_cotes(n) returns weights exact for polynomials of degree < n",
    "exponents are non-negative integers (asserted by the library)",
]
U = ast.unparse


def r04_1(ctx):
    out = Outcome("R04.1", "IntegrateShape.polynomial = (1/(a+1)) * sum over every boundary curve of the vertical "
                           "integral of x^(a+1) y^b, with expy and nnodes forwarded", floor=4)
    fn = ctx.fn("shape.IntegrateShape.polynomial")
    for (a, b, nn), kind in [(x, k) for x in ((0, 0, None), (2, 3, 7), (4, 1, None), (1, 5, 9))
                             for k in ("SimpleShape", "DisjointShape")][:6]:
        J = [Obj("j0"), Obj("j1"), Obj("j2")]
        vals = {"j0": Fr(5), "j1": Fr(7), "j2": Fr(-3)}
        if (a, b) == (2, 3):
            # a figure drawn in small units: the integrals are tiny, and exact all the same
            vals = {k: v / 10**18 for k, v in vals.items()}
        if kind == "SimpleShape":
            S = Obj("S", jordans=tuple(J), kind=kind)
        else:
            # a region with a hollow component and an island: a shape of shapes with the same three boundary curves
            ring = Obj("ring", jordans=(J[0], J[1]), kind="ConnectedShape",
                       subshapes=(Obj("outer", jordans=(J[0],), kind="SimpleShape"), Obj("hole", jordans=(J[1],), kind="SimpleShape")))
            isle = Obj("isle", jordans=(J[2],), kind="SimpleShape")
            S = Obj("S", jordans=tuple(J), subshapes=(ring, isle), kind=kind)
        calls = []

        def hook(rn, ev, call, name, recv, args, kwargs):
            if name == "isinstance":
                k = getattr(args[0], "kind", None) if isinstance(args[0], Obj) else None
                if k is None:
                    return True
                from verifkit.absrun import isinstance_names
                return any(n in ctx.model.mro(k) for n in isinstance_names(call, args))
            if name == "vertical":
                calls.append(tuple(args))
                return vals[args[0]._name]
            return NotImplemented
        try:
            got = Runner(ctx, {fn.qname}, hook, asserts=True).call_fn(fn, [S, a, b, nn])
        except (Undecided, Raised) as ex:
            out.undecided(fn.qname, f"(a, b)=({a}, {b}) on a {kind}: {ex}", where=fn.where())
            continue
        want = sum(vals.values()) / (a + 1)
        want_calls = sorted(((j._name, a + 1, b, nn) for j in J), key=str)
        got_calls = sorted(((c[0]._name,) + tuple(c[1:]) for c in calls), key=str)
        if got_calls != want_calls:
            out.bad(fn.qname, "boundary integrals are not taken of x^(a+1) y^b over every boundary curve with nnodes "
                              "forwarded", where=fn.where(), detail=f"(a, b, nnodes)=({a}, {b}, {nn}): calls {got_calls}")
        elif got != want:
            out.bad(fn.qname, "the sum of the boundary integrals is not divided by (a + 1)", where=fn.where(),
                    detail=f"(a, b)=({a}, {b}) on a {kind}: returns {got}, Green's formula gives {want}")
        else:
            out.ok(fn.qname, f"(a, b, nnodes)=({a}, {b}, {nn}) on a {kind} -> sum/{a + 1}", where=fn.where())
    # area = the moment of order (0, 0): the boundary integrals of x^1 y^0 over every curve, nnodes forwarded, sum / 1
    # (judged on what reaches the per-curve integral, so that it does not matter through which helper it goes)
    fa = ctx.fn("shape.IntegrateShape.area")
    J = [Obj("j0"), Obj("j1"), Obj("j2")]
    vals = {"j0": Fr(5), "j1": Fr(7), "j2": Fr(-3)}
    S = Obj("S", jordans=tuple(J), kind="SimpleShape")
    seen = []

    def hook2(rn, ev, call, name, recv, args, kwargs):
        if name == "isinstance":
            return True
        if name == "vertical":
            seen.append(tuple(args))
            return vals[args[0]._name]
        if name == "area" and isinstance(recv, Obj) and str(recv) == "class:IntegrateJordan":
            # the per-curve area, which R04.2 ties to the integral of x dy over every segment
            seen.append((args[0], 1, 0) + tuple(args[1:]) + tuple(kwargs.values()))
            return vals[args[0]._name]
        return NotImplemented
    try:
        got = Runner(ctx, {fa.qname, fn.qname}, hook2).call_fn(fa, [S, 11])
        got_calls = sorted(((c[0]._name,) + tuple(c[1:]) for c in seen), key=str)
        ok = got == 9 and got_calls == sorted(((j._name, 1, 0, 11) for j in J), key=str)
        (out.ok if ok else out.bad)(fa.qname, "area = polynomial(shape, 0, 0, nnodes)" if ok else
                                    "area is not the moment of order (0, 0)", where=fa.where(),
                                    **({} if ok else {"detail": f"per-curve integrals {got_calls} -> {got}"}))
    except (Undecided, Raised) as ex:
        out.undecided(fa.qname, str(ex), where=fa.where())
    return out


def r04_2(ctx):
    out = Outcome("R04.2", "IntegrateJordan.* sum the same-named IntegratePlanar integral over every segment with the "
                           "same arguments; IntegratePlanar.area = vertical(curve, 1, 0, nnodes)", floor=5)
    from rules.C14 import Vec
    WORLDS = [
        # straight and curved pieces mixed: every one of them must go through the same per-segment integral
        ("mixed", [Obj("s0", degree=1, npts=2, ctrlpoints=(Vec(0, 0), Vec(4, 1))),
                   Obj("s1", degree=2, npts=3, ctrlpoints=(Vec(4, 1), Vec(5, 5), Vec(2, 6))),
                   Obj("s2", degree=1, npts=2, ctrlpoints=(Vec(2, 6), Vec(0, 0)))], {"s0": Fr(2), "s1": Fr(3), "s2": Fr(5)}),
        # closed curves of two curved pieces (a lens) and of one cubic (a teardrop) enclose area as well
        ("lens", [Obj("s0", degree=2, npts=3, ctrlpoints=(Vec(0, 0), Vec(2, -3), Vec(4, 0))),
                  Obj("s1", degree=2, npts=3, ctrlpoints=(Vec(4, 0), Vec(2, 3), Vec(0, 0)))], {"s0": Fr(7), "s1": Fr(3)}),
        ("teardrop", [Obj("s0", degree=3, npts=4, ctrlpoints=(Vec(0, 0), Vec(5, 4), Vec(-5, 4), Vec(0, 0)))], {"s0": Fr(10)}),
    ]
    for (name, extra), (wname, segs, vals) in [(a, b) for a in (("vertical", (3, 2, 9)), ("polynomial", (0, 0, 9)), ("lenght", (9,)),
                                                                  ("area", (9,))) for b in WORLDS]:
        fn = ctx.fn(f"jordancurve.IntegrateJordan.{name}")
        J = Obj("J", segments=tuple(segs))
        calls = []

        def hook(rn, ev, call, cname, recv, args, kwargs):
            if cname == "isinstance":
                return True
            if isinstance(recv, Obj) and str(recv) == "class:IntegratePlanar":
                calls.append((cname,) + tuple(args))
                return vals[args[0]._name]
            return NotImplemented
        try:
            got = Runner(ctx, set(), hook, asserts=True).call_fn(fn, [J] + list(extra))
        except (Undecided, Raised) as ex:
            out.undecided(fn.qname, str(ex), where=fn.where())
            continue
        want_calls = sorted(((name, s._name) + tuple(extra) for s in segs), key=str)
        got_calls = sorted(((c[0], c[1]._name) + tuple(c[2:]) for c in calls), key=str)
        if got_calls != want_calls:
            out.bad(fn.qname, f"does not sum IntegratePlanar.{name} over every segment with the same arguments",
                    where=fn.where(), detail=f"{wname} ({len(segs)} segment(s)): calls {got_calls}")
        elif got != 10:
            out.bad(fn.qname, "the per-segment integrals are not simply added", where=fn.where(), detail=f"{wname}: returns {got}")
        else:
            out.ok(fn.qname, f"{wname}: sum over all segments of IntegratePlanar.{name}{extra}", where=fn.where())
    # the per-segment area term must be the same Green form for straight and curved segments (the form the moments use:
    # the integral of x dy); two different forms differ by d(xy)/2, which does not cancel on a curve that mixes them
    fa = ctx.fn("curve.IntegratePlanar.area")
    from rules.C14 import Vec
    via = {}
    for label, C in (("straight", Obj("C1", degree=1, npts=2, ctrlpoints=(Vec(1, 2), Vec(4, 3)))),
                     ("curved", Obj("C2", degree=2, npts=3, ctrlpoints=(Vec(1, 2), Vec(3, 5), Vec(4, 3))))):
        seen = []

        def hook2(rn, ev, call, name, recv, args, kwargs):
            if name == "vertical":
                seen.append(tuple(args))
                return "V"
            if name == "isinstance":
                return True
            return NotImplemented
        try:
            got = Runner(ctx, set(), hook2).call_fn(fa, [C, 6])
            via[label] = got == "V" and seen == [(C, 1, 0, 6)]
        except (Undecided, Raised, TypeError, AttributeError) as ex:
            via[label] = None
            why = str(ex)
    if via.get("straight") and via.get("curved"):
        out.ok(fa.qname, "area = integral of x dy, for straight and curved segments alike", where=fa.where())
    elif via.get("straight") is None or via.get("curved") is None:
        out.undecided(fa.qname, f"per-segment area not interpretable: {why}", where=fa.where())
    elif via["straight"] != via["curved"]:
        out.bad(fa.qname, "straight and curved segments contribute to the area through different Green forms (their "
                          "difference d(xy)/2 does not cancel on a curve that mixes both kinds)", where=fa.where(),
                detail=f"through vertical(curve, 1, 0, nnodes): {via}")
    else:
        out.bad(fa.qname, "area is not vertical(curve, 1, 0, nnodes)", where=fa.where())
    return out


class CurveV(StandIn):
    """stand-in planar curve: tabulated points, and a derivative curve with tabulated points"""

    def __init__(self, table, deriv=None, degree=2, ctrl=None):
        self.table, self.deriv, self.degree = table, deriv, degree
        self.npts = degree + 1
        self.ctrlpoints = ctrl or ()
        self.asked = []

    def __call__(self, nodes):
        self.asked.append(tuple(nodes))
        return tuple(self.table[n] for n in nodes)

    def eval(self, nodes):
        return self.__call__(nodes)

    def derivate(self, times=1):
        return self.deriv


def r04_3(ctx):
    out = Outcome("R04.3", "IntegratePlanar.vertical = sum_i w_i * x_i^a * y_i^b * y'_i (x, y from the curve, y' from "
                           "coordinate 1 of its derivative, same nodes), whatever the end points of the segment", floor=3)
    fn = ctx.fn("curve.IntegratePlanar.vertical")
    nodes = (Fr(1, 6), Fr(1, 2), Fr(5, 6))
    weights = (Fr(3, 8), Fr(1, 4), Fr(3, 8))
    worlds = {
        "generic curved segment": ({nodes[0]: (2, 3), nodes[1]: (5, 7), nodes[2]: (11, 13)},
                                   {nodes[0]: (17, 19), nodes[1]: (23, 29), nodes[2]: (31, 37)}, ((0, 0), (4, 9), (12, 14))),
        "curved cap whose end points have the same ordinate": (
            {nodes[0]: (2, 3), nodes[1]: (5, 7), nodes[2]: (11, 3)},
            {nodes[0]: (17, 19), nodes[1]: (23, 0), nodes[2]: (31, -19)}, ((0, 2), (6, 10), (12, 2))),
        "segment with equal abscissae at the ends": (
            {nodes[0]: (2, 3), nodes[1]: (5, 7), nodes[2]: (2, 13)},
            {nodes[0]: (17, 19), nodes[1]: (0, 29), nodes[2]: (-17, 37)}, ((1, 0), (9, 5), (1, 12))),
    }
    for label, (pts, dpts, ctrl) in worlds.items():
        for a, b in ((2, 1), (1, 0), (0, 3)):
            d = CurveV(dpts)
            c = CurveV(pts, d, ctrl=tuple(ctrl))
            used = {}

            def hook(rn, ev, call, name, recv, args, kwargs):
                if name == "isinstance":
                    return True
                if name == "open_linspace":
                    used["nodes_n"] = args[0]
                    return nodes
                if name == "open_newton_cotes":
                    used["weights_n"] = args[0]
                    return weights
                if name == "prod":
                    r = 1
                    for x in args[0]:
                        r *= x
                    return r
                if name == "inner":
                    return sum(x * y for x, y in zip(args[0], args[1]))
                if name == "dot":
                    return sum(x * y for x, y in zip(args[0], args[1]))
                return NotImplemented
            try:
                def prod(xs):
                    r = 1
                    for x in xs:
                        r *= x
                    return r
                got = Runner(ctx, set(), hook, asserts=True, ext={"np.prod": prod}).call_fn(fn, [c, a, b, 3])
            except (Undecided, Raised) as ex:
                out.undecided(fn.qname, f"{label}: {ex}", where=fn.where())
                continue
            want = sum(w * Fr(pts[n][0]) ** a * Fr(pts[n][1]) ** b * dpts[n][1] for w, n in zip(weights, nodes))
            if got != want:
                out.bad(fn.qname, f"wrong quadrature sum ({label})", where=fn.where(),
                        detail=f"(a, b)=({a}, {b}): returns {got}, sum_i w_i x_i^a y_i^b y'_i = {want}")
            elif c.asked != [nodes] or d.asked != [nodes]:
                out.bad(fn.qname, "curve and derivative are not sampled at the same quadrature nodes", where=fn.where())
            elif used.get("nodes_n") != used.get("weights_n"):
                out.bad(fn.qname, "numbers of nodes and weights differ", where=fn.where())
            else:
                out.ok(fn.qname, f"{label}, (a, b)=({a}, {b})", where=fn.where())
    return out


def expr_poly(e, env):
    if isinstance(e, ast.Constant) and isinstance(e.value, int):
        return poly.const(e.value)
    if isinstance(e, ast.Name):
        return env.get(e.id, poly.atom(e.id))
    if isinstance(e, ast.Attribute):
        return env.get(U(e), poly.atom(U(e)))
    if isinstance(e, ast.BinOp):
        l, r = expr_poly(e.left, env), expr_poly(e.right, env)
        if isinstance(e.op, ast.Add):
            return poly.add(l, r)
        if isinstance(e.op, ast.Sub):
            return poly.sub(l, r)
        if isinstance(e.op, ast.Mult):
            return poly.mul(l, r)
    raise Undecided(U(e))


class _NodesFound(Exception):
    def __init__(self, n):
        self.n = n


def _r04_4_grid(ctx, out, fn):
    """the default is not spelled `if nnodes is None: nnodes = <expr>` in the function itself (a helper, a conditional
    expression ...): observe the number of nodes the function asks for, on a grid of exponents and degrees"""
    def count(pdeg, a, b):
        def hook(rn, ev, call, name, recv, args, kwargs):
            if name == "isinstance":
                return True
            if name in ("open_linspace", "closed_linspace", "open_newton_cotes", "closed_newton_cotes", "gauss_legendre",
                        "chebyshev") and args:
                raise _NodesFound(args[0])
            return NotImplemented
        class Cv(StandIn):
            degree, npts = pdeg, pdeg + 1

            def derivate(self, times=1):
                return Obj("dC", degree=max(pdeg - times, 0))
        c = Cv()
        try:
            Runner(ctx, set(), hook).call_fn(fn, [c, a, b, None])
        except _NodesFound as f:
            return f.n
        raise Undecided("the function does not ask for quadrature nodes")
    try:
        short = [(a, b, count(1, a, b)) for a in range(5) for b in range(5)]
        short = [(a, b, n) for a, b, n in short if n < a + b + 1]
        if short:
            a, b, n = short[0]
            out.bad(fn.qname, "default node count does not cover the degree of the integrand for straight segments",
                    where=fn.where(), detail=f"(a, b) = ({a}, {b}): {n} nodes, the integrand has degree {a + b}")
        else:
            out.ok(fn.qname, "default nnodes >= a + b + 1 for a straight segment, a, b in 0..4 (observed by abstract run)",
                   where=fn.where())
        for pdeg in (1, 2, 3):
            n = count(pdeg, 1, 0)
            exact, need = (n if n % 2 else n - 1), 2 * pdeg - 1
            if exact >= need:
                out.ok(fn.qname, f"area integrand of a degree-{pdeg} segment (degree {need}): {n} nodes are exact", where=fn.where())
            else:
                out.bad(fn.qname, "default node count too small for the exact area of curved segments", where=fn.where(),
                        detail=f"degree-{pdeg} segment: integrand x*y' has degree {need}, {n} nodes are exact only up to {exact}")
    except (Undecided, Raised) as ex:
        out.undecided(fn.qname, f"default node count not observable: {ex}", where=fn.where())
    return out


def r04_4(ctx):
    out = Outcome("R04.4", "for straight segments the default number of quadrature nodes exceeds the polynomial degree of "
                           "the integrand for all exponents a, b >= 0 (needed for exact rational moments of polygons)",
                  floor=1)
    fn = ctx.fn("curve.IntegratePlanar.vertical")
    cname = fn.params[0]
    dflt = None
    for n in ast.walk(fn.node):
        if isinstance(n, ast.If) and isinstance(n.test, ast.Compare) and isinstance(n.test.ops[0], ast.Is) \
                and pat.is_name(n.test.left, "nnodes"):
            for st in n.body:
                if isinstance(st, ast.Assign) and pat.is_name(st.targets[0], "nnodes"):
                    dflt = st.value
    if dflt is None:
        return _r04_4_grid(ctx, out, fn)
    try:
        count = expr_poly(dflt, {f"{cname}.degree": poly.const(1)})
    except Undecided as ex:
        out.undecided(fn.qname, f"default node count `{U(dflt)}` is not a linear form: {ex}", where=fn.where())
        return out
    a, b = fn.params[1], fn.params[2]
    # integrand degree for p = 1:  a + b  (y' is constant); n nodes are exact up to degree n - 1
    slack = poly.sub(count, poly.add(poly.add(poly.atom(a), poly.atom(b)), poly.const(1)))
    ok = all(c >= 0 for c in slack.values()) and all(len(m) <= 1 for m in slack)
    if ok:
        out.ok(fn.qname, f"default nnodes = {poly.show(count)} for degree 1; nnodes - (a + b + 1) = {poly.show(slack)} >= 0",
               where=fn.where())
    else:
        out.bad(fn.qname, "default node count does not cover the degree of the integrand for straight segments",
                where=fn.where(), detail=f"nnodes - (a + b + 1) = {poly.show(slack)} can be negative")
    # area of curved boundaries is documented as exact: integrand x y' has degree 2p - 1 for a degree-p segment;
    # n open Newton-Cotes nodes are exact up to degree n - 1 (n when n is odd, by symmetry)
    for pdeg in (1, 2, 3):
        try:
            cnt = expr_poly(dflt, {f"{cname}.degree": poly.const(pdeg), a: poly.const(1), b: poly.const(0)})
        except Undecided:
            break
        if not poly.is_const(cnt):
            out.undecided(fn.qname, f"node count for the area integrand is not a number: {poly.show(cnt)}", where=fn.where())
            continue
        n = int(poly.value(cnt))
        exact = n if n % 2 else n - 1
        need = 2 * pdeg - 1
        if exact >= need:
            out.ok(fn.qname, f"area integrand of a degree-{pdeg} segment (degree {need}): {n} nodes are exact", where=fn.where())
        else:
            out.bad(fn.qname, "default node count too small for the exact area of curved segments", where=fn.where(),
                    detail=f"degree-{pdeg} segment: integrand x*y' has degree {need}, {n} nodes are exact only up to {exact}")
    return out


def r04_5(ctx):
    out = Outcome("R04.5", "float(shape): DefinedShape -> area integral of itself; Connected / Disjoint -> sum over every "
                           "subshape; Empty 0, Whole inf; jordans covers every subshape", floor=7)
    fn = ctx.fn("shape.DefinedShape.__float__")
    S = Obj("S")
    seen = []

    def hook(rn, ev, call, name, recv, args, kwargs):
        if name == "area":
            seen.append(args)
            return Fr(7, 2)
        return NotImplemented
    try:
        got = Runner(ctx, set(), hook).call_fn(fn, [S])
        ok = got == 3.5 and seen == [[S]]
        (out.ok if ok else out.bad)(fn.qname, "float(IntegrateShape.area(self))" if ok else
                                    f"float(shape) is not its area integral: {seen} -> {got}", where=fn.where())
    except (Undecided, Raised) as ex:
        out.undecided(fn.qname, str(ex), where=fn.where())

    class Sub(StandIn):
        def __init__(self, a):
            self.a = a

        def __float__(self):
            return float(self.a)
    for cls in ("ConnectedShape", "DisjointShape"):
        f2 = ctx.fn(f"shape.{cls}.__float__")
        subs = (Sub(2), Sub(-3), Sub(5.5))
        # the boundary curves exist too: float(curve) is a signed *length* (here 7, -11, 13), not an area
        curves = tuple(Sub(v) for v in (7, -11, 13))
        for sb, cv in zip(subs, curves):
            sb.jordans = (cv,)
        S = Obj("S", subshapes=subs, jordans=curves)
        try:
            got = Runner(ctx, set(), None).call_fn(f2, [S])
            ok = got == 4.5
            (out.ok if ok else out.bad)(f2.qname, "sum of float(subshape) over every subshape" if ok else
                                        f"float() of subshapes of areas 2, -3, 5.5 (boundary lengths 7, -11, 13) gives {got}",
                                        where=f2.where())
        except (Undecided, Raised) as ex:
            out.undecided(f2.qname, str(ex), where=f2.where())
    for cls, want in (("EmptyShape", 0.0), ("WholeShape", float("inf"))):
        f3 = ctx.fn(f"shape.{cls}.__float__")
        try:
            got = Runner(ctx, set(), None).call_fn(f3, [Obj(cls)])
            (out.ok if got == want else out.bad)(f3.qname, f"float() = {want}" if got == want else f"float() = {got!r}", where=f3.where())
        except (Undecided, Raised) as ex:
            out.undecided(f3.qname, str(ex), where=f3.where())
    C09.jordans_coverage(ctx, out)
    return out


def r04_6(ctx):
    from rules import C10
    o = C10.r10_1(ctx)
    o.rule = "R04.6"
    o.text = ("no integral (area, moment, length) is served from a value cached before the figure was changed: every "
              "lazily cached or memoised quantity is reset by each write to the state it is derived from; isometries "
              "are exempt only for isometry-invariant quantities (same analysis as R10.1)")
    return o


def r04_7(ctx):
    """abstract runs (W) of the five per-curve integrals of IntegrateJordan (vertical, polynomial, lenght, area,
    winding_number) with the default node count on stand-in curves whose segments have degrees 1, 2, 3 -- listed in that
    order and in the reverse order: what each segment's integral is given as node count must not depend on the other
    segments of the curve (the default is each segment's own affair: `None`, or a count derived from that segment)"""
    from verifkit.absrun import Obj, Runner
    from verifkit.finite import Raised, Undecided
    out = Outcome("R04.7", "the per-curve integrals hand every segment its own node count: with the default, what a segment "
                           "receives does not depend on which segment the curve happens to start with", floor=5)

    class PtW(StandIn):
        def __contains__(self, p):
            return False

    for name, extra in (("vertical", (2, 1)), ("polynomial", (2, 1)), ("lenght", ()), ("area", ()), ("winding_number", ("P",))):
        q = f"jordancurve.IntegrateJordan.{name}"
        if q not in ctx.model.funcs:
            out.undecided(q, "function not found", where="jordancurve.py")
            continue
        fn = ctx.fn(q)
        seen = {}
        und = None
        for order in ((1, 2, 3), (3, 2, 1)):
            segs = tuple(Obj(f"seg_deg{d}", degree=d, npts=d + 1) for d in order)
            J = Obj("J", segments=segs)
            got = {}

            def hook(rn, ev, call, cname, recv, args, kwargs, got=got):
                if cname == name and args and isinstance(args[0], Obj) and str(args[0]).startswith("seg_deg"):
                    a = list(args[1:])
                    nn = kwargs.get("nnodes", a[len(extra)] if len(a) > len(extra) else None)
                    got[str(args[0])] = nn
                    return 0
                if cname == "box" and recv is J:
                    return PtW()
                if cname == "isinstance":
                    return True
                return NotImplemented
            try:
                Runner(ctx, set(), hook, asserts=True).call_fn(fn, [J] + list(extra))
            except (Undecided, Raised, TypeError) as ex:
                und = str(getattr(ex, "what", ex))
                break
            seen[order] = got
        if und:
            out.undecided(q, f"not interpretable: {und}", where=fn.where())
            continue
        a, b = seen[(1, 2, 3)], seen[(3, 2, 1)]
        diff = [k for k in sorted(a) if a.get(k) != b.get(k)]
        if len(a) != 3 or len(b) != 3:
            out.bad(q, "not every segment of the curve is integrated", where=fn.where(), detail=f"segments integrated: {sorted(a)} / {sorted(b)}")
        elif diff:
            out.bad(q, "the node count a segment is integrated with depends on the other segments of the curve", where=fn.where(),
                    detail=f"curve of degrees 1, 2, 3: {a}; the same segments listed 3, 2, 1: {b}")
        else:
            out.ok(q, f"every segment receives {sorted(set(map(str, a.values())))} whatever the order", where=fn.where())
    return out


RULES = [r04_1, r04_2, r04_3, r04_4, r04_5, r04_6, r04_7]
