"""C11 -- a call that raises or is interrupted leaves its operands intact.

 R11.1 no temporary region-changing mutation inside a non-mutating operation:
       the same effect analysis as R08.4, but here a *paired* (undone) mutation
       is a violation too, because the quantifier is every internal call
       boundary, including an interrupt delivered inside the restoring call.
 R11.2 commit-point atomicity of the representation-only mutators that
       non-mutating operations are allowed to reach (JordanCurve.split ->
       __split_segment -> segments setter; the lazy cache fill): the boundary
       field has a single writer, its store is the last effectful statement of
       that writer, __split_segment prepares fresh pieces and commits once.
 R11.3 the in-place transformations validate every argument that flows into a
       coordinate write before the first write.
"""
import ast

from verifkit import cache, pat
from verifkit.core import Outcome
from verifkit.known_names import is_new_helper
from verifkit.model import AnalysisError
from verifkit.own import ownership
from rules import C08

ASSUMPTIONS = C08.ASSUMPTIONS + [
    "a single attribute store is atomic with respect to exceptions and asynchronous interrupts",
    "argument validation depends on the arguments only (so it succeeds or fails identically for every boundary curve)",
]
U = ast.unparse
VALIDATORS = {"float", "int", "Point2D", "Fraction", "complex"}


def r11_1(ctx):
    o = C08.r08_4(ctx)
    o.rule = "R11.1"
    o.text = ("no temporary in-place change of operand state inside a non-mutating operation (ungated, non-cache "
              "writes are violations whether or not they are undone afterwards)")
    return o


def _stmts_after(fn, target):
    """all statements that can execute after `target` within the function (same block and enclosing blocks,
    plus the enclosing loop body when inside a loop)"""
    out = []

    def walk(body, inloop):
        for i, st in enumerate(body):
            if st is target:
                out.extend(body[i + 1:])
                if inloop is not None:
                    out.extend(inloop)
                return True
            for fld in ("body", "orelse", "finalbody"):
                sub = getattr(st, fld, None)
                if isinstance(sub, list) and sub and isinstance(sub[0], ast.stmt):
                    il = st.body if isinstance(st, (ast.For, ast.While)) else inloop
                    if walk(sub, il):
                        out.extend(body[i + 1:])
                        return True
            if isinstance(st, ast.Try):
                for h in st.handlers:
                    if walk(h.body, inloop):
                        out.extend(body[i + 1:])
                        return True
        return False
    walk(fn.node.body, None)
    return out


def _stmt_of(fn, node):
    """the top-level statement of fn that contains node"""
    for st in fn.node.body:
        if any(x is node for x in ast.walk(st)):
            return st
    return node


def r11_2(ctx):
    out = Outcome("R11.2", "single writer of the boundary field; its store is the last effectful statement (commit "
                           "point); __split_segment prepares fresh pieces and commits once; cache fills are single "
                           "stores", floor=4)
    caches = cache.cache_fields(ctx)
    # (a) writers of JordanCurve.__segments
    fld = "__segments"
    writers = []
    for q, fn in sorted(ctx.model.funcs.items()):
        if fn.cls != "JordanCurve":
            continue
        for n in ast.walk(fn.node):
            if isinstance(n, (ast.Assign, ast.AugAssign)):
                for t in (n.targets if isinstance(n, ast.Assign) else [n.target]):
                    if isinstance(t, ast.Attribute) and t.attr == fld:
                        writers.append((fn, n))
    if not writers:
        raise AnalysisError("no store to JordanCurve.__segments found")
    for fn, st in writers:
        if fn.qname != "jordancurve.JordanCurve.segments:set":
            out.bad(fn.qname, "stores the segment list directly instead of committing through the segments setter",
                    where=fn.where(st))
            continue
        after = _stmts_after(fn, st)
        calls = [c for s in after for c in ast.walk(s) if isinstance(c, (ast.Call, ast.Raise, ast.Assert))]
        if calls:
            out.bad(fn.qname, "statements that can raise follow the store of the segment list (no commit point)",
                    where=fn.where(calls[0]))
        else:
            out.ok(fn.qname, "store of the segment list is the last effectful statement", where=fn.where(st))
    # (b) __split_segment: every store before the commit goes to fresh pieces; exactly one commit, last
    fn = ctx.fn("jordancurve.JordanCurve.__split_segment")
    inf = ctx.typer.of(fn)
    selfn = fn.params[0]
    fresh = set()
    for n in ast.walk(fn.node):
        if isinstance(n, ast.Assign) and len(n.targets) == 1 and isinstance(n.targets[0], ast.Name):
            v = n.value
            if isinstance(v, ast.Call):
                tg = pat.call_targets(inf, v)
                if tg and all(t.endswith(".split") and not t.startswith("jordancurve.") for t in tg):
                    fresh.add(n.targets[0].id)       # PlanarCurve.split returns fresh pieces (R08.1)
                if isinstance(v.func, ast.Name) and v.func.id in ("list", "tuple", "sorted"):
                    fresh.add(n.targets[0].id)
    # aliases of fresh pieces: x = F[i] / a, b = F[i], F[j] / for x in F / for i, x in enumerate(F) / zip(F, F[1:])
    def rooted_fresh(e):
        while isinstance(e, (ast.Subscript, ast.Starred)):
            e = e.value
        if isinstance(e, ast.Call) and isinstance(e.func, ast.Name) and e.func.id in ("enumerate", "zip", "reversed", "list", "tuple") \
                and e.args:
            return all(rooted_fresh(a) for a in e.args if not isinstance(a, ast.Constant))
        return isinstance(e, ast.Name) and e.id in fresh

    def bindings(target, value, it_mode):
        """[(name, value expr or ('elem', iter expr))] for one binding construct"""
        if isinstance(target, ast.Name):
            return [(target.id, value, it_mode)]
        out_ = []
        if isinstance(target, (ast.Tuple, ast.List)):
            if it_mode and isinstance(value, ast.Call) and isinstance(value.func, ast.Name) and value.func.id == "enumerate" \
                    and len(target.elts) == 2 and value.args:
                return [(target.elts[0].id, None, False)] if isinstance(target.elts[0], ast.Name) else [] \
                    + bindings(target.elts[1], value.args[0], True)
            if it_mode and isinstance(value, ast.Call) and isinstance(value.func, ast.Name) and value.func.id == "zip" \
                    and len(value.args) == len(target.elts):
                for t, v in zip(target.elts, value.args):
                    out_ += bindings(t, v, True)
                return out_
            if not it_mode and isinstance(value, (ast.Tuple, ast.List)) and len(value.elts) == len(target.elts):
                for t, v in zip(target.elts, value.elts):
                    out_ += bindings(t, v, False)
                return out_
            for t in target.elts:
                out_ += bindings(t, None, False)
        return out_
    allb = {}
    for n in ast.walk(fn.node):
        if isinstance(n, ast.Assign):
            for t in n.targets:
                for nm, v, im in bindings(t, n.value, False):
                    allb.setdefault(nm, []).append((v, im))
        elif isinstance(n, (ast.For, ast.comprehension)):
            for nm, v, im in bindings(n.target, n.iter, True):
                allb.setdefault(nm, []).append((v, im))
        elif isinstance(n, (ast.AugAssign, ast.AnnAssign, ast.NamedExpr)) and isinstance(n.target, ast.Name):
            allb.setdefault(n.target.id, []).append((None, False))
    for p_ in fn.params:
        allb.setdefault(p_, []).append((None, False))
    seeded_fresh = set(fresh)

    def binding_fresh(v, im):
        if v is None:
            return False
        if isinstance(v, ast.Call) and not im:
            tg = pat.call_targets(inf, v)
            if tg and all(t.endswith(".split") and not t.startswith("jordancurve.") for t in tg):
                return True
            if isinstance(v.func, ast.Name) and v.func.id in ("list", "tuple", "sorted"):
                return True
        if isinstance(v, ast.Name):
            return v.id in fresh and (im or v.id not in seeded_fresh or True)
        return rooted_fresh(v) and (im or isinstance(v, ast.Subscript))
    # a name denotes a fresh piece only if *every* binding of it in the function does
    fresh = set()
    changed = True
    while changed:
        changed = False
        for nm, bs in allb.items():
            if nm not in fresh and bs and all(binding_fresh(v, im) for v, im in bs):
                fresh.add(nm)
                changed = True
    commits, bad = [], []
    for n in ast.walk(fn.node):
        if isinstance(n, (ast.Assign, ast.AugAssign)):
            for t in (n.targets if isinstance(n, ast.Assign) else [n.target]):
                if isinstance(t, ast.Attribute):
                    if pat.is_name(t.value, selfn):
                        if any(q.endswith("segments:set") for q in
                               {x.qname for x in inf.targets(t, ("setter",))}):
                            commits.append(n)
                        else:
                            bad.append((n, f"direct store to self.{t.attr}"))
                    elif pat.root_name(t) not in fresh:
                        bad.append((n, f"store on `{U(t)}`, which is not a fresh piece"))
        if isinstance(n, ast.Call) and isinstance(n.func, ast.Attribute) and n.func.attr in (
                "invert", "move", "scale", "rotate") and pat.root_name(n.func.value) not in fresh:
            bad.append((n, f"in-place call {U(n)[:40]} on a live object"))
    # steps cut into private helpers: a helper that (by its effect summary, engine O) writes one of its parameters must
    # receive a fresh piece there; one that writes the curve's own fields -- only those the segments setter writes -- is
    # the commit
    eng = ownership(ctx)
    setter = next((g for q2, g in ctx.model.funcs.items() if q2.endswith("JordanCurve.segments:set")), None)
    own_fields = {k[0] for k in eng.S[setter.qname].mut.get(setter.params[0], set())} if setter else set()
    for n in ast.walk(fn.node):
        if not isinstance(n, ast.Call):
            continue
        for t in inf.targets(n, ("call",)):
            if not (t.name.startswith("_") and not (t.name.startswith("__") and t.name.endswith("__"))) or t.qname == fn.qname:
                continue
            ps = list(t.params)
            args = list(n.args)
            if t.kind in ("method", "class") and isinstance(n.func, ast.Attribute):
                args = [n.func.value] + args
            for prm, arg in zip(ps, args):
                muts = eng.S[t.qname].mut.get(prm, set())
                if not muts:
                    continue
                if pat.is_name(arg, selfn):
                    fields = {k[0] for k in muts if k[1] == "own"}
                    deep = {k[0] for k in muts if k[1] != "own"}
                    if fields and fields <= own_fields and "_JordanCurve__segments" in {f for f in fields} | {f.replace("__", "_JordanCurve__", 1) if f.startswith("__") else f for f in fields}:
                        commits.append(_stmt_of(fn, n))
                    elif fields:
                        bad.append((n, f"helper {t.name} writes {sorted(fields)} of the curve"))
                elif not rooted_fresh(arg) and not (isinstance(arg, ast.Name) and arg.id in fresh):
                    bad.append((n, f"helper {t.name} writes into `{U(arg)[:30]}`, which is not a fresh piece"))
    for n, why in bad:
        out.bad(fn.qname, "mutates live curve state before the commit: " + why, where=fn.where(n))
    if len(commits) != 1:
        out.bad(fn.qname, f"{len(commits)} commits through the segments setter (exactly one required)", where=fn.where())
    else:
        after = _stmts_after(fn, commits[0])
        if after:
            out.bad(fn.qname, "statements follow the commit `self.segments = ...`", where=fn.where(after[0]))
        elif not bad:
            out.ok(fn.qname, f"prepares fresh pieces {sorted(fresh)} and commits once, last", where=fn.where(commits[0]))
    # (c) split: only validation, pure bookkeeping and __split_segment calls on self
    fn = ctx.fn("jordancurve.JordanCurve.split")
    O = ownership(ctx)
    direct = [e for e in O.events.get(fn.qname, []) if e["param"] == fn.params[0] and not e["field"].startswith("[")
              and e["field"] not in caches
              and (e["via"] is None or e["via"][0] is None or not e["via"][0].endswith("__split_segment"))]
    if direct:
        out.bad(fn.qname, "writes curve state other than through __split_segment", where=fn.where(direct[0]["node"]))
    else:
        out.ok(fn.qname, "a sequence of atomic __split_segment commits", where=fn.where())
    # (d) cache fills are a single store of a fully computed value
    for cls, mangled, fsrc, filler in cache.find_lazy_caches(ctx):
        stores = [n for n in ast.walk(filler.node) if cache._stores_field(n, cache.cache_param(filler, fsrc), fsrc)
                  and not (isinstance(n, ast.Assign) and isinstance(n.value, ast.Constant) and n.value.value is None)]
        per_path = cache.max_fill_stores(filler.node.body, cache.cache_param(filler, fsrc), fsrc)
        if per_path != 1:
            out.bad(filler.qname, f"cache {fsrc} is filled incrementally ({per_path} stores on one path): an exception in "
                                  f"between leaves a partial value that later queries trust", where=filler.where())
        else:
            out.ok(filler.qname, f"cache {fsrc} filled by one store of a fully computed value", where=filler.where(stores[0]))
    return out


def _validated_before(fn, first_write_stmt, params):
    """parameters passed through a validating call in an unconditional top-level statement before first_write_stmt"""
    ok = set()
    for st in fn.node.body:
        if st is first_write_stmt:
            break
        if isinstance(st, (ast.Expr, ast.Assign, ast.Assert, ast.AnnAssign)):
            for c in ast.walk(st):
                if isinstance(c, ast.Call) and isinstance(c.func, ast.Name) and c.func.id in VALIDATORS | {"isinstance"}:
                    for a in c.args:
                        for x in ast.walk(a):
                            if isinstance(x, ast.Name) and x.id in params:
                                ok.add(x.id)
    return ok


def _first_coordinate_write(ctx, fn):
    """first top-level statement of fn containing (directly or through calls) a coordinate write"""
    O = ownership(ctx)
    nodes = {id(e["node"]) for e in O.events.get(fn.qname, []) if e["field"] in ("_x", "_y")}
    for st in fn.node.body:
        for n in ast.walk(st):
            if id(n) in nodes:
                return st
    return None


def r11_3(ctx):
    out = Outcome("R11.3", "in-place transformations validate every argument flowing into a coordinate write before "
                           "the first write; the shape-level ones write nothing before delegating", floor=6)
    for name in ("move", "scale", "rotate"):
        fn = ctx.fn(f"jordancurve.JordanCurve.{name}")
        inf = ctx.typer.of(fn)
        fw = _first_coordinate_write(ctx, fn)
        if fw is None:
            # the writes are not where this syntactic rule looks (helper, comprehension ...): R11.4 observes them
            out.ok(fn.qname, "coordinate writes not located syntactically; decided by the abstract runs of R11.4",
                   where=fn.where(), nontrivial=False)
            continue
        # parameters flowing into the write
        defs = pat.local_defs(fn)
        used = set()
        for n in ast.walk(fw):
            if isinstance(n, ast.Call):
                for a in list(n.args) + [k.value for k in n.keywords]:
                    p = pat.param_origin(fn, a, defs, scaled_ok=True)
                    if p and p != fn.params[0]:
                        used.add(p)
        val = _validated_before(fn, fw, set(fn.params))
        missing = sorted(used - val)
        # second chance: the point-level method validates before its own first write
        still = []
        for p in missing:
            pfn = ctx.model.funcs.get(f"polygon.Point2D.{name}")
            okp = False
            if pfn is not None:
                pfw = None
                for st in pfn.node.body:
                    if any(isinstance(x, ast.Attribute) and x.attr in ("_x", "_y") and isinstance(x.ctx, ast.Store)
                           for x in ast.walk(st)):
                        pfw = st
                        break
                pv = _validated_before(pfn, pfw, set(pfn.params))
                # map: position of p among the call args
                for n in ast.walk(fw):
                    if isinstance(n, ast.Call) and isinstance(n.func, ast.Attribute) and n.func.attr == name:
                        for i, a in enumerate(n.args):
                            if pat.param_origin(fn, a, defs, scaled_ok=True) == p and i + 1 < len(pfn.params) \
                                    and pfn.params[i + 1] in pv:
                                okp = True
            if not okp:
                still.append(p)
        if still:
            # no validating call recognised before the first write: whether a rejected argument can leave the figure
            # partially transformed is decided on the outcome by R11.4 (19 invalid argument kinds)
            out.ok(fn.qname, f"no validation of {still} recognised syntactically before the first coordinate write; "
                             f"decided by the abstract runs of R11.4", where=fn.where(fw), nontrivial=False)
        else:
            out.ok(fn.qname, f"arguments {sorted(used)} validated before the first coordinate write", where=fn.where(fw))
    O = ownership(ctx)
    for name in ("move", "scale", "rotate"):
        fn = ctx.fn(f"shape.DefinedShape.{name}")
        def undelegated(q, depth=0):
            """write events of q that do not go through a JordanCurve method, looking through private helpers of the
            shape module (a shared `_transform_jordans(method, *args)` is delegation all the same)"""
            bad_ = []
            for e in O.events.get(q, []):
                if e["field"].startswith("["):
                    continue
                via = e["via"][0] if e["via"] else None
                if via is not None and via.startswith("jordancurve.JordanCurve."):
                    continue
                helper = ctx.model.funcs.get(via) if via else None
                if helper is not None and helper.mod == "shape" and not helper.name.endswith("__") and depth < 3 \
                        and (helper.name.startswith("_") or is_new_helper(helper.name)):
                    if not undelegated(via, depth + 1):
                        continue
                bad_.append(e)
            return bad_
        direct = undelegated(fn.qname)
        if direct:
            out.bad(fn.qname, "writes state itself instead of delegating to the validated curve method",
                    where=fn.where(direct[0]["node"]))
        else:
            out.ok(fn.qname, "all writes delegated to JordanCurve." + name, where=fn.where())
    return out


def r11_4(ctx):
    """abstract runs (W) of the in-place transformations with arguments of the wrong kind (numeric strings, bytes, None,
    lists ...): the stand-in shape is made of stand-in curves made of stand-in points whose move / scale / rotate are
    the repository's own methods, interpreted on exact coordinates.  If the call raises, no coordinate may differ."""
    import math
    from fractions import Fraction as Fr
    from verifkit.absrun import Obj, Runner
    from verifkit.finite import Raised, Undecided
    from rules.C16 import point2d, PV
    out = Outcome("R11.4", "an in-place transformation that rejects its arguments leaves every coordinate unchanged "
                           "(argument kinds: numeric string, bytes, None, list, pair where a number is required, wrong "
                           "arity, one-shot iterables)", floor=6)
    NAMES = ("move", "scale", "rotate")
    from decimal import Decimal
    # a Decimal passes the float() validation but does not mix with Fraction / float coordinates
    # a number beyond the range of floats multiplies exact coordinates but not float ones
    HUGE = 10 ** 400
    BAD = {"scale": [(2, "3"), ("2", 3), (2, None), (None, 2), (2, b"3"), (2, [1]), ((1, 2), 3), (Fr(1, 2), "x"),
                     (2, Decimal("3")), (Decimal("2"), 3), (HUGE, 2), (2, HUGE), (Fr(HUGE, 3), 1)],
           "rotate": [("30",), (None,), ("30", True), ([1],), (b"1",), (Decimal("1"),)],
           "move": [("12",), (1, "2"), (("1", 2),), (None,), (1, 2, 3), ((1, None),), (1, Decimal("2")), ((Decimal("1"), 2),),
                    # one-shot iterables: consumed by the first reader (accepted as a whole, or rejected as a whole)
                    lambda: (iter([3, 5]),), lambda: (map(int, ("3", "5")),), lambda: ((v for v in (3, 5)),),
                    lambda: (iter([3]),), lambda: (iter([3, "x"]),)]}

    def world():
        # exact and float coordinates mixed (a polygon glued to a circle arc): the second vertex of each curve is float
        def num(v, i):
            return float(v) if i == 1 else Fr(v)
        pts = [[PtObj(f"p{c}{i}", _x=num(2 * i + 1 + 10 * c, i), _y=num(3 * i - 2 + 7 * c, i), is_point=True) for i in range(3)]
               for c in range(2)]
        curves = [Obj(f"j{c}", vertices=tuple(pts[c]), is_curve=True,
                      segments=tuple(Obj(f"j{c}s{i}", ctrlpoints=(pts[c][i], pts[c][(i + 1) % 3])) for i in range(3)),
                      **{"__lenght": None}) for c in range(2)]
        shape = Obj("S", jordans=tuple(curves), subshapes=())
        return shape, curves, [p for c in pts for p in c]

    def hook(rn, ev, call, cname, recv, args, kwargs):
        if cname == "Point2D":
            if len(args) == 1 and isinstance(args[0], Obj) and getattr(args[0], "is_point", False):
                return args[0]
            v = point2d(*args)
            return PtObj("vec", _x=v.x, _y=v.y, is_point=True)
        if cname in NAMES and isinstance(recv, Obj) and getattr(recv, "is_curve", False):
            rn.call_fn(ctx.fn(f"jordancurve.JordanCurve.{cname}"), [recv] + list(args), kwargs)
            return recv
        if cname in NAMES and isinstance(recv, Obj) and getattr(recv, "is_point", False):
            rn.call_fn(ctx.fn(f"polygon.Point2D.{cname}"), [recv] + list(args), kwargs)
            return recv
        if cname == "__getitem__" or (cname is None):
            return NotImplemented
        return NotImplemented

    class PtObj(Obj):                     # vector[0] / vector[1] / tuple(point) on a stand-in point
        def __getitem__(self, i):
            return (self._x, self._y)[i]

        def __iter__(self):
            return iter((self._x, self._y))
    ext = {"np.cos": lambda a: math.cos(a), "np.sin": lambda a: math.sin(a), "math.cos": math.cos, "math.sin": math.sin,
           "np.asarray": lambda x, dtype=None: float(x), "math.radians": math.radians}
    for qbase, level in (("shape.DefinedShape", "shape"), ("jordancurve.JordanCurve", "curve")):
        for name in NAMES:
            fn = ctx.fn(f"{qbase}.{name}")
            worst, und = None, None
            for args in BAD[name]:
                label = None
                if callable(args):
                    label = ("one-shot iterable #%d" % BAD[name].index(args))
                    args = args()
                shape, curves, pts = world()
                target = shape if level == "shape" else curves[0]
                before = [(p._x, p._y) for p in pts]
                raised = None
                try:
                    Runner(ctx, set(), hook, ext=ext).call_fn(fn, [target] + list(args))
                except Undecided as ex:
                    und = und or f"{name}{label or args!r}: {ex}"
                    continue
                except (Raised, TypeError, ValueError, AttributeError, ArithmeticError, IndexError, KeyError, OverflowError) as ex:
                    raised = type(ex).__name__ if not isinstance(ex, Raised) else str(ex.what)
                if raised is None:
                    continue                   # accepted (e.g. a numeric string times an int): not a rejection
                after = [(p._x, p._y) for p in pts]
                changed = [i for i, (a, b) in enumerate(zip(before, after)) if a != b]
                if changed and worst is None:
                    i = changed[0]
                    worst = (f"{name}({label or repr(args)[:70]}) raises {raised} after {len(changed)} of {len(pts)} control points were "
                             f"written (point {i}: {tuple(map(str, before[i]))} -> {tuple(map(str, after[i]))})")
            if worst:
                out.bad(fn.qname, "a rejected argument leaves the figure partially transformed", where=fn.where(), detail=worst)
            elif und:
                out.undecided(fn.qname, und, where=fn.where())
            else:
                out.ok(fn.qname, f"{len(BAD[name])} kinds of invalid arguments: rejected before the first coordinate write "
                                 f"(or accepted)", where=fn.where())
    return out


RULES = [r11_1, r11_2, r11_3, r11_4]
