"""C15 -- splitting and cleaning never change the curve (structural clauses only;
the numerical clauses -- point sets, areas, tolerances, least-squares degree
reduction -- are NOT decided).

 R15.1 end parameters are ignored, symmetrically, and only they: abstract run of
       JordanCurve.split over node in {0, interior, 1}.
 R15.2 clean() runs to a fixpoint: abstract run of JordanCurve.clean on a chain
       whose uniting needs two passes (every unitable consecutive pair is
       united, the united segment keeps the original junction point objects);
       BezierCurve.clean lowers the degree exactly while the error stays within
       the tolerance.
 R15.3 uniting two consecutive pieces uses the tangents at their junction: on
       the two halves of a curve split at t the re-parametrisation node is t.
 R15.4 index bookkeeping of split: the k-th original segment is addressed at
       k + (number of pieces inserted before it).
 R15.5 __split_segment replaces the segment, in place and in order, by pieces
       obtained at the *sorted* parameters and re-glues all junctions to shared
       point objects (outer ends = the original end point objects).
"""
import ast
from fractions import Fraction as Fr

from verifkit import pat
from verifkit.absrun import Obj, Runner, StandIn
from verifkit.core import Outcome
from verifkit.finite import Undecided, Raised
from rules.C14 import Vec

ASSUMPTIONS = [
    "pynurbs: GeneratorKnotVector / Curve.knot_clean / Curve.split implement knot insertion and removal correctly "
    "(trusted base)",
    "de Casteljau: the two halves of a Bezier curve split at t have junction tangents in the ratio t : (1 - t)",
]
U = ast.unparse


def split_calls(ctx, indexs, nodes, nseg=3):
    fn = ctx.fn("jordancurve.JordanCurve.split")
    S = Obj("J", segments=tuple(Obj(f"s{i}") for i in range(nseg)))
    calls = []

    def hook(rn, ev, call, name, recv, args, kwargs):
        if name and name.endswith("__split_segment") and recv is S:
            calls.append((args[0], tuple(args[1])))
            return None
        if name == "isinstance":
            return True
        return NotImplemented
    Runner(ctx, set(), hook, asserts=True).call_fn(fn, [S, list(indexs), list(nodes)])
    return calls


def split_layout(ctx, indexs, nodes, nseg=3):
    """what JordanCurve.split does to a chain of nseg segments, in whatever order it works: the stand-in
    __split_segment really replaces the addressed element of a model list, so the answer is {original segment ->
    parameters it was cut at} -- or the first request that addressed a piece of an earlier cut / nothing at all"""
    fn = ctx.fn("jordancurve.JordanCurve.split")
    S = Obj("J", segments=tuple(Obj(f"s{i}") for i in range(nseg)))
    layout = [(k, None) for k in range(nseg)]
    cuts, wrong = {}, []

    def hook(rn, ev, call, name, recv, args, kwargs):
        if name and name.endswith("__split_segment") and recv is S:
            i, nds = args[0], tuple(args[1])
            if not isinstance(i, int) or not 0 <= i < len(layout):
                wrong.append(f"position {i} of {len(layout)} segments")
                return None
            k, piece = layout[i]
            if piece is not None or k in cuts:
                wrong.append(f"position {i} is piece {piece} of segment {k}, cut before")
                return None
            cuts[k] = tuple(sorted(nds))
            layout[i:i + 1] = [(k, j) for j in range(len(nds) + 1)]
            return None
        if name == "isinstance":
            return True
        return NotImplemented
    Runner(ctx, set(), hook, asserts=True).call_fn(fn, [S, list(indexs), list(nodes)])
    return cuts, wrong


def r15_1(ctx):
    out = Outcome("R15.1", "JordanCurve.split ignores parameters equal (within its tolerance) to 0 and to 1 and keeps "
                           "every interior parameter", floor=5)
    out.exhaustive = True
    fn = ctx.fn("jordancurve.JordanCurve.split")
    cases = [("node 0", [0], [Fr(0)], []), ("node 1", [1], [Fr(1)], []), ("interior node", [1], [Fr(1, 2)], [(1, (Fr(1, 2),))]),
             ("0, interior and 1 on one segment", [2, 2, 2], [Fr(0), Fr(1, 3), Fr(1)], [(2, (Fr(1, 3),))]),
             ("node within 1e-9 of 1", [0], [1 - Fr(1, 10**9)], []), ("node within 1e-9 of 0", [0], [Fr(1, 10**9)], []),
             ("0 and 1 on the same segment", [1, 1], [Fr(0), Fr(1)], []),
             ("1 on a segment, 0 on the next", [0, 1], [Fr(1), Fr(0)], []),
             ("no nodes", [], [], [])]
    for label, idx, nds, want in cases:
        try:
            got = split_calls(ctx, idx, nds)
        except Undecided as ex:
            out.undecided(fn.qname, f"{label}: not interpretable: {ex}", where=fn.where())
            continue
        except Raised as ex:
            out.bad(fn.qname, f"{label}: split raises {ex.what}", where=fn.where())
            continue
        if got != want:
            out.bad(fn.qname, f"end-parameter filter wrong: {label}", where=fn.where(),
                    detail=f"segments split at {got}, required {want} (node = 0 or 1 are ignored, nothing else)")
        else:
            out.ok(fn.qname, f"{label} -> {want}", where=fn.where())
    return out


def r15_4(ctx):
    out = Outcome("R15.4", "split addresses the k-th original segment at k + (pieces inserted before it), with all "
                           "parameters of one segment handed over together", floor=3)
    fn = ctx.fn("jordancurve.JordanCurve.split")
    cases = [("one node on each of segments 0 and 2", [0, 2], [Fr(1, 2), Fr(2, 3)], [(0, (Fr(1, 2),)), (3, (Fr(2, 3),))]),
             ("two nodes on segment 0, one on segment 2", [0, 0, 2], [Fr(1, 3), Fr(2, 3), Fr(1, 2)],
              [(0, (Fr(1, 3), Fr(2, 3))), (4, (Fr(1, 2),))]),
             ("unsorted input, three nodes on segment 1, one on 2", [2, 1, 1, 1], [Fr(1, 2), Fr(3, 4), Fr(1, 4), Fr(1, 2)],
              [(1, (Fr(1, 4), Fr(1, 2), Fr(3, 4))), (5, (Fr(1, 2),))]),
             # parameters at the very ends of a segment (a crossing through a vertex left by an earlier split) insert
             # nothing and therefore must not shift the later indices
             ("an end parameter on segment 0, an interior one on segment 1", [0, 1], [Fr(0), Fr(1, 2)], [(1, (Fr(1, 2),))]),
             ("end and interior parameters on segment 0, one on segment 2", [0, 0, 2], [Fr(1), Fr(1, 2), Fr(1, 4)],
              [(0, (Fr(1, 2),)), (3, (Fr(1, 4),))]),
             ("only end parameters on segments 0 and 1, an interior one on segment 2", [0, 1, 2], [Fr(1), Fr(0), Fr(2, 3)],
              [(2, (Fr(2, 3),))])]
    # curves with many segments: segment numbers like 1 and 8 (a set of small integers is traversed in the order of
    # its hash slots: 8 before 1), handed over in either order
    cases += [("ten segments, nodes on segments 1 and 8", [1, 8], [Fr(1, 2), Fr(1, 3)], [(1, (Fr(1, 2),)), (9, (Fr(1, 3),))]),
              ("ten segments, nodes on segments 8 and 1", [8, 1], [Fr(1, 3), Fr(1, 2)], [(1, (Fr(1, 2),)), (9, (Fr(1, 3),))]),
              ("twelve segments, two nodes on segment 2, one on 9, one on 11", [9, 2, 11, 2], [Fr(1, 2), Fr(1, 4), Fr(2, 3), Fr(3, 4)],
               [(2, (Fr(1, 4), Fr(3, 4))), (11, (Fr(1, 2),)), (14, (Fr(2, 3),))])]
    for label, idx, nds, want in cases:
        nseg = 12 if max(idx, default=0) > 2 else 3
        try:
            cuts, wrong = split_layout(ctx, idx, nds, nseg=nseg)
        except (Undecided, Raised) as ex:
            out.undecided(fn.qname, f"{label}: {ex}", where=fn.where())
            continue
        # `want` lists (position at the time of the call in increasing order, nodes): the original segment is the
        # position minus the pieces inserted before it
        want_cuts, inserted = {}, 0
        for pos, ns in want:
            want_cuts[pos - inserted] = tuple(sorted(ns))
            inserted += len(ns)
        if wrong or cuts != want_cuts:
            shown = {k: [str(x) for x in v] for k, v in sorted(cuts.items())}
            out.bad(fn.qname, f"wrong segment addressed after earlier insertions: {label}", where=fn.where(),
                    detail=(f"a request addressed {wrong[0]}; " if wrong else "") +
                           f"original segments cut at {shown}, required "
                           f"{ {k: [str(x) for x in v] for k, v in sorted(want_cuts.items())} }")
        else:
            out.ok(fn.qname, f"{label} -> segments {sorted(want_cuts)} cut at their own parameters", where=fn.where())
    return out


# ---------------------------------------------------------------------------
class P(StandIn):
    def __init__(self, name):
        self.name = name

    def __repr__(self):
        return self.name


class SegU(StandIn):
    """segment stand-in for clean(): united according to a table"""

    def __init__(self, name, start, end, table, degree=2):
        self.name, self.table, self.degree = name, table, degree
        # a curved piece: it has an interior control point of its own
        self.ctrlpoints = (start, P(name + ".m"), end)
        self.cleaned = 0

    def clean(self, *a):
        self.cleaned += 1
        return self

    def __or__(self, o):
        key = (self.name, o.name)
        if key not in self.table:
            raise ValueError("cannot unite")
        # a fresh segment with fresh end points (as pynurbs would deliver)
        return SegU(self.table[key], P("new0"), P("new1"), self.table)

    def __repr__(self):
        return self.name


def r15_2(ctx):
    out = Outcome("R15.2", "clean() unites consecutive segments until no pair can be united (fixpoint) and keeps the "
                           "original junction point objects; BezierCurve.clean lowers the degree exactly while the error "
                           "stays within the tolerance", floor=5)
    fn = ctx.fn("jordancurve.JordanCurve.clean")
    pa, pb, pc, pd = P("A"), P("B"), P("C"), P("D")
    table = {("a", "b"): "ab", ("c", "d"): "cd"}
    segs = [SegU("a", pa, pb, table), SegU("b", pb, pc, table), SegU("c", pc, pd, table), SegU("d", pd, pa, table)]
    S = Obj("J", segments=tuple(segs))
    try:
        got = Runner(ctx, set(), None).call_fn(fn, [S])
        final = list(S.__dict__["segments"])
        names = [s.name for s in final]
        if names != ["ab", "cd"]:
            out.bad(fn.qname, "clean() stops before every unitable pair of consecutive segments is united", where=fn.where(),
                    detail=f"chain a,b,c,d with a|b and c|d unitable ends as {names}, required ['ab', 'cd']")
        elif not (final[0].ctrlpoints[0] is pa and final[0].ctrlpoints[-1] is pc and final[1].ctrlpoints[0] is pc
                  and final[1].ctrlpoints[-1] is pa):
            out.bad(fn.qname, "a united segment does not keep the original junction point objects", where=fn.where())
        elif [[q.name for q in x.ctrlpoints[1:-1]] for x in final] != [["ab.m"], ["cd.m"]]:
            out.bad(fn.qname, "a united segment does not keep its own interior control points", where=fn.where(),
                    detail=f"the unions ab and cd have the interior control points ab.m and cd.m; after clean() the curve "
                           f"has {[[q.name for q in x.ctrlpoints] for x in final]}")
        elif got is not S:
            out.bad(fn.qname, "clean() does not return the same curve", where=fn.where())
        else:
            out.ok(fn.qname, "two-pass chain a,b,c,d -> ab,cd; junction objects kept; returns self", where=fn.where())
        # three consecutive pieces of one original segment: the freshly united segment must be tried against its
        # new neighbour again
        table3 = {("a", "b"): "ab", ("b", "c"): "bc", ("ab", "c"): "abc", ("a", "bc"): "abc"}
        segs = [SegU("a", pa, pb, table3), SegU("b", pb, pc, table3), SegU("c", pc, pd, table3), SegU("d", pd, pa, table3)]
        S3 = Obj("J", segments=tuple(segs))
        Runner(ctx, set(), None).call_fn(fn, [S3])
        names = [s.name for s in S3.__dict__["segments"]]
        if sorted(names) != ["abc", "d"]:
            out.bad(fn.qname, "clean() is not idempotent: a freshly united segment is not tried against its next neighbour",
                    where=fn.where(), detail=f"three consecutive unitable pieces a,b,c (+ d) end as {names}, required ['abc', 'd']")
        else:
            out.ok(fn.qname, "three consecutive pieces a,b,c -> abc in one call", where=fn.where())
        # a closed curve that is one segment once cleaned (a teardrop cut in two): the two pieces must be united
        table1 = {("a", "b"): "ab"}
        S1 = Obj("J", segments=(SegU("a", pa, pb, table1), SegU("b", pb, pa, table1)))
        Runner(ctx, set(), None).call_fn(fn, [S1])
        names = [s.name for s in S1.__dict__["segments"]]
        if names != ["ab"]:
            out.bad(fn.qname, "the two pieces of a closed curve made of one segment are not united", where=fn.where(),
                    detail=f"pieces a, b end as {names}, required ['ab']")
        else:
            out.ok(fn.qname, "two pieces of a one-segment closed curve -> one segment", where=fn.where())
        # wrap-around pair
        table2 = {("d", "a"): "da"}
        segs = [SegU("a", pa, pb, table2), SegU("b", pb, pc, table2), SegU("d", pc, pa, table2)]
        S2 = Obj("J", segments=tuple(segs))
        Runner(ctx, set(), None).call_fn(fn, [S2])
        names = sorted(s.name for s in S2.__dict__["segments"])
        if names != ["b", "da"]:
            out.bad(fn.qname, "the wrap-around pair (last, first) is never united", where=fn.where(), detail=str(names))
        else:
            out.ok(fn.qname, "wrap-around pair united", where=fn.where())
    except Undecided as ex:
        out.undecided(fn.qname, f"not interpretable: {ex}", where=fn.where())
    except Raised as ex:
        out.bad(fn.qname, f"clean() raises {ex.what} on a chain that cannot be united further", where=fn.where())
    # BezierCurve.clean
    fb = ctx.fn("curve.BezierCurve.clean")
    ends_bad = False
    for errs, want_times in (((0, 0), 2), ((0, 5), 1), ((5, 0), 0), ((Fr(1, 10**12), 5), 1), ((Fr(1, 1000), 0), 0),
                             ((0, Fr(1, 10**6)), 1)):
        B = Obj("B", degree=3, ctrlpoints=("p0", "p1", "p2", "p3"))
        state = {}

        def hook(rn, ev, call, name, recv, args, kwargs, errs=errs):
            if name == "degree_decrease":
                return (("T", args[0], args[1]), ("E", args[0], args[1]))
            if name == "dot":
                a, b = args
                tags = [x for x in (a, b) if isinstance(x, tuple) and x and x[0] in ("E", "EP", "T")]
                if tags and tags[0][0] == "E":
                    return ("EP", tags[0][2])
                if tags and tags[0][0] == "EP":
                    return errs[tags[0][1] - 1]
                if tags and tags[0][0] == "T":
                    state["reduced"] = tags[0][2]
                    return ["q"] * (4 - tags[0][2])
                return NotImplemented
            return NotImplemented
        try:
            Runner(ctx, set(), hook).call_fn(fb, [B, Fr(1, 10**9)])
        except (Undecided, Raised) as ex:
            out.undecided(fb.qname, f"errors {errs}: {ex}", where=fb.where())
            continue
        got = state.get("reduced", 0)
        if got != want_times:
            out.bad(fb.qname, f"degree lowered {got} time(s) for reduction errors {tuple(map(str, errs))} and tolerance 1e-9",
                    where=fb.where(), detail=f"required {want_times}: lower while the error stays within the tolerance")
        else:
            out.ok(fb.qname, f"errors {tuple(map(str, errs))} -> lowered {want_times} time(s)", where=fb.where())
            final = tuple(B.ctrlpoints)
            if want_times and (final[0] != "p0" or final[-1] != "p3"):
                ends_bad = True
    if ends_bad:
        out.bad(fb.qname, "a degree reduction replaces the end points of the segment by new objects: the junctions with the "
                          "neighbouring segments are no longer shared points", where=fb.where(),
                detail="BezierCurve.clean on (p0, p1, p2, p3): the reduced control points must start with p0 and end with p3 "
                       "themselves (a closed curve built from a reducible piece lists its junction vertices twice)")
    else:
        out.ok(fb.qname, "a degree reduction keeps the two end point objects of the segment", where=fb.where())
    return out


# ---------------------------------------------------------------------------
class KV(StandIn, list):
    def __init__(self, degree):
        list.__init__(self, [0] * (degree + 1) + [1] * (degree + 1))
        self.scaled = None

    def scale(self, x):
        self.scaled = x
        return self

    def shift(self, x):
        return self


class CurveT(StandIn):
    """the spline of two quadratic pieces joined at a knot of multiplicity 3 (six control points).  Knot removal as the
    spline library does it: the junction knot is removed once if the pieces meet, once more if their derivatives agree
    there (for the parametrisation the knot gives), and a third time if their second derivatives agree too -- only then
    is the union one quadratic (three control points)"""
    degree = 2

    def __init__(self):
        self.ctrlpoints = ()
        self.cleaned = None
        self.removed = None

    @property
    def npts(self):
        return 3 if self.removed is None else 6 - self.removed

    @property
    def knotvector(self):
        return KnotsT(self)

    def knot_clean(self, nodes):
        self.cleaned = nodes
        pts = tuple(self.ctrlpoints)
        if len(pts) != 6 or not nodes:
            return
        t = nodes[0]
        p0, a, m, m2, b, p2 = pts

        def same(u, v):
            return abs(u.x - v.x) <= 1e-9 and abs(u.y - v.y) <= 1e-9
        if not (0 < t < 1) or not same(m, m2):
            self.removed = 0
            return
        d1a, d1b = Vec((m.x - a.x) / t, (m.y - a.y) / t), Vec((b.x - m.x) / (1 - t), (b.y - m.y) / (1 - t))
        if not same(d1a, d1b):
            self.removed = 1
            return
        d2a = Vec((p0.x - 2 * a.x + m.x) / t ** 2, (p0.y - 2 * a.y + m.y) / t ** 2)
        d2b = Vec((m.x - 2 * b.x + p2.x) / (1 - t) ** 2, (m.y - 2 * b.y + p2.y) / (1 - t) ** 2)
        self.removed = 3 if same(d2a, d2b) else 2
        if self.removed == 3:
            self.ctrlpoints = (p0, Vec(p0.x + (a.x - p0.x) / t, p0.y + (a.y - p0.y) / t), p2)


class KnotsT(StandIn):
    def __init__(self, curve):
        self.curve = curve
        self.degree, self.npts = curve.degree, curve.npts

    def mult(self, node):
        return 3 - (self.curve.removed or 0) if self.curve.cleaned and node in self.curve.cleaned else 0


def lerp(a, b, t):
    return Vec(a.x + (b.x - a.x) * t, a.y + (b.y - a.y) * t)


def r15_3(ctx):
    out = Outcome("R15.3", "PlanarCurve.__or__ derives the re-parametrisation node from the tangents at the junction "
                           "(end tangent of the first piece, start tangent of the second): the two pieces of a curve "
                           "split at t are united at node t; segments that are not pieces of one curve are not united", floor=5)
    out.text = out.text
    fn = ctx.fn("curve.PlanarCurve.__or__")
    E0, E1, E2 = Vec(0, 0), Vec(3, 6), Vec(9, 0)
    F0, F1, F2 = Vec(0.1, 0.2), Vec(3.3, 6.1), Vec(9.7, 0.4)
    # exact pieces, and pieces computed in floating point: there the two junction tangents are parallel only up to
    # rounding (their cross product is of the order of 1e-16, not 0), and the pieces must be united all the same
    for t in (Fr(1, 3), Fr(1, 2), Fr(7, 10), 0.3, 0.41, 0.77):
        P0, P1, P2 = (F0, F1, F2) if isinstance(t, float) else (E0, E1, E2)
        a, b = lerp(P0, P1, t), lerp(P1, P2, t)
        m = lerp(a, b, t)
        first = Obj("first", degree=2, ctrlpoints=(P0, a, m))
        second = Obj("second", degree=2, ctrlpoints=(m, b, P2))
        kvs = []
        made = []

        def hook(rn, ev, call, name, recv, args, kwargs):
            if name == "isinstance":
                return True
            if name == "bezier":
                kv = KV(args[0])
                kvs.append(kv)
                return kv
            if name == "Curve":
                c = CurveT()
                made.append(c)
                return c
            if name == "__class__" or (isinstance(call.func, ast.Attribute) and call.func.attr == "__class__"):
                return "UNITED"
            return NotImplemented
        try:
            Runner(ctx, set(), hook, asserts=True).call_fn(fn, [first, second])
        except Undecided as ex:
            out.undecided(fn.qname, f"t={t}: not interpretable: {ex}", where=fn.where())
            continue
        except Raised as ex:
            how = " (computed in floating point: the junction tangents are parallel up to rounding only)" if isinstance(t, float) else ""
            out.bad(fn.qname, f"uniting the two pieces of a curve split at t={t}{how} raises {ex.what}", where=fn.where())
            continue
        node = kvs[0].scaled if kvs else None
        if isinstance(t, float):
            cleaned = made[0].cleaned if made else None
            if node is None or abs(node - t) > 1e-9:
                out.bad(fn.qname, "re-parametrisation node is not derived from the junction tangents", where=fn.where(),
                        detail=f"pieces of a float quadratic split at t={t} are united at node {node}")
            elif not cleaned or len(cleaned) != 1 or abs(cleaned[0] - t) > 1e-9:
                out.bad(fn.qname, f"the junction knot {t} is not the one removed", where=fn.where())
            else:
                out.ok(fn.qname, f"pieces of a split computed in floating point (t={t}) united at node t", where=fn.where())
            continue
        if node != t:
            out.bad(fn.qname, "re-parametrisation node is not derived from the junction tangents", where=fn.where(),
                    detail=f"pieces of a quadratic split at t={t} are united at node {node}: the pieces are never merged back")
        elif not made or made[0].cleaned != (t,):
            out.bad(fn.qname, f"the junction knot {t} is not the one removed", where=fn.where())
        else:
            out.ok(fn.qname, f"pieces of a split at t={t} united at node {t}", where=fn.where())
    # two different parabolas that meet with parallel tangents (a smooth junction that is a vertex all the same), and a
    # corner: neither pair is one quadratic, the union must be refused
    worlds = [("two different parabolas meeting with parallel tangents", (Vec(0, 0), Vec(2, 2), Vec(4, 2)), (Vec(4, 2), Vec(7, 2), Vec(9, -3))),
              ("two different parabolas meeting with parallel tangents of equal length", (Vec(0, 0), Vec(2, 2), Vec(4, 2)),
               (Vec(4, 2), Vec(6, 2), Vec(8, 5))),
              ("two parabolas meeting at a corner", (Vec(0, 0), Vec(2, 2), Vec(4, 2)), (Vec(4, 2), Vec(5, 4), Vec(8, 5)))]
    for label, pa, pb in worlds:
        qa = tuple(Vec(Fr(v.x), Fr(v.y)) for v in pa)
        qb = (qa[-1],) + tuple(Vec(Fr(v.x), Fr(v.y)) for v in pb[1:])           # one junction point object
        first = Obj("first", degree=2, ctrlpoints=qa)
        second = Obj("second", degree=2, ctrlpoints=qb)
        made = []

        def hook2(rn, ev, call, name, recv, args, kwargs):
            if name == "isinstance":
                return True
            if name == "bezier":
                return KV(args[0])
            if name == "Curve":
                made.append(CurveT())
                return made[-1]
            if name == "__class__" or (isinstance(call.func, ast.Attribute) and call.func.attr == "__class__"):
                return "UNITED"
            return NotImplemented
        try:
            got = Runner(ctx, set(), hook2, asserts=True).call_fn(fn, [first, second])
        except Undecided as ex:
            out.undecided(fn.qname, f"{label}: not interpretable: {ex}", where=fn.where())
            continue
        except Raised as ex:
            if ex.what.startswith("ValueError"):
                out.ok(fn.qname, f"{label}: the union is refused (ValueError)", where=fn.where())
            else:
                out.bad(fn.qname, f"{label}: raises {ex.what}, required ValueError", where=fn.where())
            continue
        left = made[0].npts if made else "?"
        out.bad(fn.qname, "two segments that are not pieces of one curve are united", where=fn.where(),
                detail=f"{label}: returns {got!r}; the joined spline keeps {left} control points after the junction knot is "
                       f"removed as often as the curve allows, one quadratic has 3")
    return out


# ---------------------------------------------------------------------------
class Piece(StandIn):
    def __init__(self, name, n=2):
        self.name = name
        self.ctrlpoints = tuple(P(f"{name}.{i}") for i in range(n))

    def clean(self, *a, **k):
        # what tolerance the piece is degree-reduced with (BezierCurve.clean does not look at the error when the
        # tolerance is None -- or any other falsy value such as 0)
        self.clean_calls = getattr(self, "clean_calls", []) + [a + tuple(k.values())]
        return self

    def __repr__(self):
        return self.name


def r15_5(ctx):
    out = Outcome("R15.5", "__split_segment: pieces at the sorted parameters replace the segment in place and in order; "
                           "all junctions are re-glued to shared point objects, the outer ends to the original ones",
                  floor=1)
    fn = ctx.fn("jordancurve.JordanCurve.__split_segment")

    class Iv(Piece):
        """the restriction of the original segment to [lo, hi]; splitting it at u cuts at lo + u (hi - lo)"""

        def __init__(self, lo, hi):
            Piece.__init__(self, f"[{lo}, {hi}]", 3)
            self.lo, self.hi = lo, hi

        def split(self, nodes):
            edges = [self.lo] + [self.lo + Fr(u) * (self.hi - self.lo) for u in nodes] + [self.hi]
            return tuple(Iv(a, b) for a, b in zip(edges[:-1], edges[1:]))
    # first on pieces that know which part of the segment they are: however the cutting is organised (all nodes at once,
    # or one after the other), the pieces must be the restrictions to [0, 1/3], [1/3, 2/3], [2/3, 1]
    J = Obj("J", segments=(Piece("s0"), Iv(Fr(0), Fr(1)), Piece("s2")))
    try:
        Runner(ctx, set(), None).call_fn(fn, [J, 1, (Fr(2, 3), Fr(1, 3))])
        got = [(x.lo, x.hi) for x in J.__dict__["segments"] if isinstance(x, Iv)]
        want = [(Fr(0), Fr(1, 3)), (Fr(1, 3), Fr(2, 3)), (Fr(2, 3), Fr(1))]
        if got != want:
            out.bad(fn.qname, "the pieces of a segment split at 1/3 and 2/3 are not its restrictions to the three node intervals",
                    where=fn.where(), detail=f"pieces cover {[(str(a), str(b)) for a, b in got]}")
            return out
        out.ok(fn.qname, "split at 2/3, 1/3 (unsorted): pieces cover [0, 1/3], [1/3, 2/3], [2/3, 1]", where=fn.where())
    except (Undecided, Raised, TypeError):
        pass                              # the second world decides
    s0, s1, s2 = Piece("s0"), Piece("s1", 3), Piece("s2")
    pieces = [Piece("p0", 3), Piece("p1", 3), Piece("p2", 3)]
    asked = []
    before = {x.name: tuple(x.ctrlpoints) for x in pieces}
    s1.split = lambda nodes: (asked.append(tuple(nodes)) or tuple(pieces))
    S = Obj("J", segments=(s0, s1, s2))
    try:
        Runner(ctx, set(), None).call_fn(fn, [S, 1, (Fr(2, 3), Fr(1, 3))])
    except (Undecided, Raised) as ex:
        out.undecided(fn.qname, f"not interpretable: {ex}", where=fn.where())
        return out
    final = list(S.__dict__["segments"])
    errs = []
    if asked != [(Fr(1, 3), Fr(2, 3))]:
        errs.append(f"segment split at {asked} (parameters must be sorted)")
    if [x.name for x in final] != ["s0", "p0", "p1", "p2", "s2"]:
        errs.append(f"segment list becomes {[x.name for x in final]}, required s0,p0,p1,p2,s2")
    else:
        p0, p1, p2 = final[1:4]
        if p0.ctrlpoints[0] is not s1.ctrlpoints[0] or p2.ctrlpoints[-1] is not s1.ctrlpoints[-1]:
            errs.append("outer ends of the pieces are not the original end point objects")
        if p1.ctrlpoints[0] is not p0.ctrlpoints[-1] or p2.ctrlpoints[0] is not p1.ctrlpoints[-1]:
            errs.append("consecutive pieces do not share their junction point object")
        for x in (p0, p1, p2):
            now, was = tuple(x.ctrlpoints), before[x.name]
            if len(now) != len(was) or any(a is not b for a, b in zip(now[1:-1], was[1:-1])):
                errs.append(f"piece {x.name} does not keep its interior control points: {[str(q) for q in was]} -> "
                            f"{[str(q) for q in now]} (a curved piece is replaced by another curve)")
    if errs:
        out.bad(fn.qname, "pieces are not inserted / re-glued correctly", where=fn.where(), detail="; ".join(errs))
    else:
        out.ok(fn.qname, "s0,[p0,p1,p2],s2 in order, junctions shared, ends kept", where=fn.where())
    unbounded = [(x.name, c) for x in pieces + [s0, s1, s2] for c in getattr(x, "clean_calls", []) if c and not c[0]]
    if unbounded:
        out.bad(fn.qname, "the pieces of a split are degree-reduced without an error bound (they are flattened to chords)",
                where=fn.where(), detail=f"clean called with tolerance {unbounded[0][1][0]!r} on {unbounded[0][0]}: "
                                         f"BezierCurve.clean skips the error test for a falsy tolerance")
    else:
        out.ok(fn.qname, "pieces are cleaned with the default tolerance only", where=fn.where())
    return out


def r15_6(ctx):
    from rules import C10
    o = C10.r10_2(ctx)
    o.rule = "R15.6"
    o.text = ("the subdivision and degree-reduction matrices come from memo tables keyed completely and by discrete "
              "values only, never mutated: the pieces of a split do not depend on which splits happened before, nor on "
              "the numeric type an earlier caller used (same analysis as R10.2)")
    return o


RULES = [r15_1, r15_2, r15_3, r15_4, r15_5, r15_6]
