"""Collection-size bounds for termination arguments (R01.4).

A small abstract interpretation over the *lengths* of local lists.  The length of a list at the start of the analysed
region is a symbol; every statement maps upper bounds to upper bounds:

    X = []                      0                     X.append(e) / X.insert(i, e)    +1
    X = list(Y) / sorted(Y)..   |Y|                   X.pop(..) / X.remove(e) / del X[i]   -1
    X = [f(e) for e in Y if c]  <= |Y|                X.extend(Y) / X += Y            +|Y|
    X = Y[:i] + Y[i + 1:]       |Y| - 1               X = Y[a:b]                      <= |Y|
    X = Y + Z                   |Y| + |Z|

A `for e in Y:` loop (or a nested `while Y:` loop that removes an element of Y on every path) runs at most |Y| times;
the paths of its body are enumerated, and when every path appends to at most one of the lists it grows (the element
goes to list A *or* to list B), the growth of these lists is bounded *jointly* by |Y| -- which is what makes
"`simples` is partitioned into `internal` and `externals`, then `simples = internal`" a decreasing step for
|simples| + |externals|.

Judgements offered:
  * while_progress(loop, S): on every path through the body that reaches the next iteration, |S| decreased by >= 1;
  * recursion_decreases(fn): at every recursive call f(a, ...) the first argument is a list with |a| <= |P| - 1, P the
    first parameter (a loop `while S:` in between is summarised through the potential |S| + |a|).
Everything unknown is unknown (None): the judgement is then "not proved", never "proved".
"""
from __future__ import annotations

import ast
import itertools

from . import pat

U = ast.unparse
_fresh = itertools.count()
MAX_PATHS = 200


class GiveUp(Exception):
    pass


class Lin:
    """c0 + sum c_s * s  with integer coefficients; symbols stand for non-negative integers"""
    __slots__ = ("t", "c")

    def __init__(self, t=None, c=0):
        self.t = {k: v for k, v in (t or {}).items() if v}
        self.c = c

    @staticmethod
    def sym(s):
        return Lin({s: 1})

    def __add__(self, o):
        if isinstance(o, int):
            return Lin(self.t, self.c + o)
        t = dict(self.t)
        for k, v in o.t.items():
            t[k] = t.get(k, 0) + v
        return Lin(t, self.c + o.c)

    def __sub__(self, o):
        if isinstance(o, int):
            return Lin(self.t, self.c - o)
        t = dict(self.t)
        for k, v in o.t.items():
            t[k] = t.get(k, 0) - v
        return Lin(t, self.c - o.c)

    def __eq__(self, o):
        return isinstance(o, Lin) and self.t == o.t and self.c == o.c

    def __hash__(self):
        return hash((tuple(sorted(self.t.items())), self.c))

    def __repr__(self):
        parts = [f"{v}*{k}" if v != 1 else k for k, v in sorted(self.t.items())]
        return " + ".join(parts + ([str(self.c)] if self.c or not parts else []))


class State:
    """env: name -> Lin upper bound of len(name) | None (unknown);  groups: joint constraints on fresh symbols"""

    def __init__(self, env=None, groups=None, nonempty=None, alias=None):
        self.env = dict(env or {})
        self.groups = list(groups or [])        # [(frozenset(fresh symbols), Lin bound)]   sum of the symbols <= bound
        self.nonempty = set(nonempty or ())
        self.alias = dict(alias or {})          # name -> name it was bound to by plain `X = Y`

    def copy(self):
        return State(self.env, self.groups, self.nonempty, self.alias)

    def get(self, name):
        if name not in self.env:
            self.env[name] = Lin.sym("n:" + name)      # its length where the analysed region starts
        return self.env[name]

    def upper(self, lin, depth=0):
        """an upper bound of `lin` in terms of entry symbols only (fresh symbols eliminated through their groups)"""
        if lin is None or depth > 8:
            return None
        fresh = [s for s in lin.t if s.startswith("x:")]
        if not fresh:
            return lin
        out = Lin({s: v for s, v in lin.t.items() if not s.startswith("x:")}, lin.c)
        done = set()
        for s in fresh:
            if s in done:
                continue
            if lin.t[s] <= 0:
                done.add(s)                    # - c * x <= 0
                continue
            grp = next(((g, b) for g, b in self.groups if s in g), None)
            if grp is None:
                return None
            g, b = grp
            members = [m for m in g if m in lin.t and lin.t[m] > 0]
            coef = max(lin.t[m] for m in members)
            bb = self.upper(b, depth + 1)
            if bb is None:
                return None
            for _ in range(coef):
                out = out + bb
            done |= set(g)
        return self.upper(out, depth + 1)

    def le0(self, lin):
        u = self.upper(lin)
        return u is not None and u.c <= 0 and all(v <= 0 for v in u.t.values())


def _mutated(name, st):
    st.nonempty.discard(name)
    # a plain alias shares the object: what is known about the other name is gone
    for a, b in list(st.alias.items()):
        if a == name or b == name:
            other = b if a == name else a
            st.env[other] = None
            st.nonempty.discard(other)


def _collection_name(e):
    return e.id if isinstance(e, ast.Name) else None


def size_of(e, st):
    """upper bound (Lin) of the length of the value of e, or None"""
    if isinstance(e, ast.Name):
        return st.get(e.id)
    if isinstance(e, (ast.List, ast.Tuple, ast.Set)):
        total = Lin()
        for x in e.elts:
            if isinstance(x, ast.Starred):
                s = size_of(x.value, st)
                if s is None:
                    return None
                total = total + s
            else:
                total = total + 1
        return total
    if isinstance(e, ast.Call):
        f = e.func
        if isinstance(f, ast.Name) and f.id in ("list", "tuple", "sorted", "reversed", "set", "frozenset", "copy", "deepcopy",
                                                "iter") and len(e.args) >= 1:
            return size_of(e.args[0], st)
        if isinstance(f, ast.Name) and f.id in ("list", "tuple", "set", "dict") and not e.args:
            return Lin()
        if isinstance(f, ast.Name) and f.id in ("filter", "map") and len(e.args) == 2:
            return size_of(e.args[1], st)
        if isinstance(f, ast.Attribute) and f.attr in ("copy", "__copy__", "__deepcopy__") and isinstance(f.value, ast.Name):
            return size_of(f.value, st)
        return None
    if isinstance(e, (ast.ListComp, ast.GeneratorExp, ast.SetComp)) and len(e.generators) == 1:
        return size_of(e.generators[0].iter, st)
    if isinstance(e, ast.Subscript) and isinstance(e.slice, ast.Slice):
        base = size_of(e.value, st)
        sl = e.slice
        # X[1:] / X[:-1] of a list known to be non-empty: one element less
        if base is not None and isinstance(e.value, ast.Name) and e.value.id in st.nonempty and sl.step is None and (
                (pat.const_value(sl.lower) == 1 and sl.upper is None) or (sl.lower is None and pat.const_value(sl.upper) == -1)):
            return base - 1
        return base
    if isinstance(e, ast.BinOp) and isinstance(e.op, ast.Add):
        l, r = e.left, e.right
        # X[:i] + X[i + 1:]  -- one element dropped
        if isinstance(l, ast.Subscript) and isinstance(r, ast.Subscript) and isinstance(l.slice, ast.Slice) \
                and isinstance(r.slice, ast.Slice) and U(l.value) == U(r.value) and l.slice.lower is None \
                and r.slice.upper is None and l.slice.upper is not None and r.slice.lower is not None \
                and l.slice.step is None and r.slice.step is None:
            a, b = l.slice.upper, r.slice.lower
            if isinstance(b, ast.BinOp) and isinstance(b.op, ast.Add) and pat.const_value(b.right) == 1 \
                    and ast.dump(b.left) == ast.dump(a):
                s = size_of(l.value, st)
                return None if s is None else s - 1
        ls, rs = size_of(l, st), size_of(r, st)
        return None if ls is None or rs is None else ls + rs
    if isinstance(e, ast.IfExp):
        a, b = size_of(e.body, st), size_of(e.orelse, st)
        return _join_lin(a, b, st)
    return None


def _join_lin(a, b, st):
    if a is None or b is None:
        return None
    if a == b:
        return a
    if st.le0(a - b):
        return b
    if st.le0(b - a):
        return a
    return None


def _join(s1, s2):
    out = State(groups=s1.groups + [g for g in s2.groups if g not in s1.groups],
                nonempty=s1.nonempty & s2.nonempty, alias={k: v for k, v in s1.alias.items() if s2.alias.get(k) == v})
    for k in set(s1.env) | set(s2.env):
        a = s1.env[k] if k in s1.env else Lin.sym("n:" + k)
        b = s2.env[k] if k in s2.env else Lin.sym("n:" + k)
        out.env[k] = _join_lin(a, b, out)
    return out


def _calls_in(node):
    return [n for n in ast.walk(node) if isinstance(n, ast.Call)]


PURE_CALLEES = {"len", "float", "int", "abs", "map", "filter", "tuple", "list", "sorted", "max", "min", "sum", "any", "all",
                "enumerate", "zip", "isinstance", "print", "iter", "reversed", "set", "frozenset", "str", "repr", "id", "copy",
                "deepcopy", "range", "bool", "round", "type", "hash", "next", "divmod", "dict"}
LIST_METHODS = {"append", "add", "insert", "appendleft", "pop", "remove", "popleft", "extend", "update", "extendleft", "clear",
                "sort", "reverse", "index", "count", "copy", "discard"}


def _apply_calls(expr, st):
    """side effects of the method calls inside an expression on list lengths"""
    for n in _calls_in(expr):
        f = n.func
        # a list handed to a callee that is not known to be pure may come back with any length
        pure = (isinstance(f, ast.Name) and f.id in PURE_CALLEES) or \
            (isinstance(f, ast.Attribute) and f.attr in LIST_METHODS and isinstance(f.value, ast.Name))
        if not pure:
            for a in list(n.args) + [k.value for k in n.keywords]:
                a = a.value if isinstance(a, ast.Starred) else a
                if isinstance(a, ast.Name) and a.id in st.env and isinstance(st.env[a.id], Lin) \
                        and (st.env[a.id].t or st.env[a.id].c):
                    _mutated(a.id, st)
                    st.env[a.id] = None
        if not (isinstance(f, ast.Attribute) and isinstance(f.value, ast.Name)):
            continue
        X = f.value.id
        if f.attr in ("append", "add", "insert", "appendleft"):
            cur = st.get(X)
            _mutated(X, st)
            st.env[X] = None if cur is None else cur + 1
            st.nonempty.add(X)
        elif f.attr in ("pop", "remove", "popleft"):
            cur = st.get(X)
            _mutated(X, st)
            st.env[X] = None if cur is None else cur - 1
        elif f.attr in ("extend", "update", "extendleft"):
            cur, add = st.get(X), (size_of(n.args[0], st) if n.args else None)
            _mutated(X, st)
            st.env[X] = None if cur is None or add is None else cur + add
        elif f.attr == "clear":
            _mutated(X, st)
            st.env[X] = Lin()
        elif f.attr in ("sort", "reverse", "index", "count", "copy", "discard"):
            pass


class Path:
    def __init__(self, st, kind):
        self.st, self.kind = st, kind       # kind: fall | continue | break | exit


def run_block(stmts, st, budget):
    """[Path] -- all paths through a statement list (loops inside are summarised)"""
    paths = [Path(st, "fall")]
    for s in stmts:
        nxt = []
        for p in paths:
            if p.kind != "fall":
                nxt.append(p)
                continue
            nxt += run_stmt(s, p.st, budget)
        paths = nxt
        budget[0] -= len(paths)
        if budget[0] < 0:
            raise GiveUp("too many paths")
    return paths


def run_stmt(s, st, budget):
    if isinstance(s, (ast.Pass, ast.Assert, ast.Global, ast.Nonlocal, ast.Import, ast.ImportFrom, ast.FunctionDef)):
        return [Path(st, "fall")]
    if isinstance(s, ast.Continue):
        return [Path(st, "continue")]
    if isinstance(s, ast.Break):
        return [Path(st, "break")]
    if isinstance(s, (ast.Return, ast.Raise)):
        return [Path(st, "exit")]
    if isinstance(s, ast.Expr):
        st = st.copy()
        _apply_calls(s.value, st)
        return [Path(st, "fall")]
    if isinstance(s, (ast.Assign, ast.AnnAssign)):
        st = st.copy()
        value = s.value
        targets = s.targets if isinstance(s, ast.Assign) else [s.target]
        if value is None:
            return [Path(st, "fall")]
        size = size_of(value, st)
        _apply_calls(value, st)
        was_nonempty = set(st.nonempty)
        for t in targets:
            if isinstance(t, ast.Name):
                plain = isinstance(value, ast.Name)
                st.alias.pop(t.id, None)
                for a in [a for a, b in st.alias.items() if b == t.id]:
                    st.alias.pop(a)
                st.env[t.id] = size
                st.nonempty.discard(t.id)
                if plain:
                    st.alias[t.id] = value.id
                    if value.id in was_nonempty:
                        st.nonempty.add(t.id)
                elif isinstance(value, ast.Call) and isinstance(value.func, ast.Name) and value.func.id in ("list", "tuple", "sorted") \
                        and len(value.args) == 1 and isinstance(value.args[0], ast.Name) and value.args[0].id in was_nonempty:
                    st.nonempty.add(t.id)
            elif isinstance(t, (ast.Tuple, ast.List)):
                for x in ast.walk(t):
                    if isinstance(x, ast.Name):
                        st.env[x.id] = None
                        st.nonempty.discard(x.id)
            elif isinstance(t, ast.Subscript) and isinstance(t.value, ast.Name):
                if isinstance(t.slice, ast.Slice):              # X[a:b] = Y : unknown change of length
                    _mutated(t.value.id, st)
                    st.env[t.value.id] = None
        return [Path(st, "fall")]
    if isinstance(s, ast.AugAssign):
        st = st.copy()
        _apply_calls(s.value, st)
        if isinstance(s.target, ast.Name):
            X = s.target.id
            cur = st.get(X)
            add = size_of(s.value, st) if isinstance(s.op, ast.Add) else None
            _mutated(X, st)
            st.env[X] = None if cur is None or add is None else cur + add
        return [Path(st, "fall")]
    if isinstance(s, ast.Delete):
        st = st.copy()
        for t in s.targets:
            if isinstance(t, ast.Subscript) and isinstance(t.value, ast.Name):
                X = t.value.id
                cur = st.get(X)
                _mutated(X, st)
                st.env[X] = None if cur is None else (cur if isinstance(t.slice, ast.Slice) else cur - 1)
        return [Path(st, "fall")]
    if isinstance(s, ast.If):
        st = st.copy()
        _apply_calls(s.test, st)
        st_t, st_f = st.copy(), st.copy()
        _refine(s.test, st_t, st_f)
        return run_block(s.body, st_t, budget) + run_block(s.orelse, st_f, budget)
    if isinstance(s, ast.With):
        return run_block(s.body, st, budget)
    if isinstance(s, ast.Try):
        # handlers may run after any prefix of the body: everything the body or a handler writes becomes unknown
        st = st.copy()
        for x in ast.walk(s):
            if isinstance(x, ast.Name) and isinstance(x.ctx, ast.Store):
                st.env[x.id] = None
            if isinstance(x, ast.Call) and isinstance(x.func, ast.Attribute) and isinstance(x.func.value, ast.Name):
                st.env[x.func.value.id] = None
        return [Path(st, "fall")] + [Path(st.copy(), k) for k in ("break", "continue")
                                     if any(isinstance(x, ast.Break if k == "break" else ast.Continue) for x in ast.walk(s))]
    if isinstance(s, (ast.For, ast.While)):
        return loop_paths(s, st, budget)
    raise GiveUp("statement " + type(s).__name__)


def _refine(test, st_t, st_f):
    """emptiness facts from a test"""
    t, neg = pat._strip_not(test)
    name = None
    if isinstance(t, ast.Name):
        name, empty_when_true = t.id, False
    elif isinstance(t, ast.Call) and isinstance(t.func, ast.Name) and t.func.id == "len" and t.args and isinstance(t.args[0], ast.Name):
        name, empty_when_true = t.args[0].id, False
    elif isinstance(t, ast.Compare) and len(t.ops) == 1 and isinstance(t.left, ast.Call) and isinstance(t.left.func, ast.Name) \
            and t.left.func.id == "len" and t.left.args and isinstance(t.left.args[0], ast.Name):
        c = pat.const_value(t.comparators[0])
        op = t.ops[0]
        if (c == 0 and isinstance(op, ast.Eq)) or (c == 1 and isinstance(op, ast.Lt)) or (c == 0 and isinstance(op, ast.LtE)):
            name, empty_when_true = t.left.args[0].id, True
        elif (c == 0 and isinstance(op, (ast.NotEq, ast.Gt))) or (c == 1 and isinstance(op, ast.GtE)):
            name, empty_when_true = t.left.args[0].id, False
    if name is None:
        return
    if neg:
        empty_when_true = not empty_when_true
    (st_f if empty_when_true else st_t).nonempty.add(name)
    empty_state = st_t if empty_when_true else st_f
    empty_state.env[name] = Lin()


def loop_collection(test):
    """the list whose non-emptiness keeps a while loop running: `while S`, `while len(S)`, `while len(S) != 0 / > 0`"""
    t = test
    if isinstance(t, ast.Name):
        return t.id
    if isinstance(t, ast.Call) and isinstance(t.func, ast.Name) and t.func.id == "len" and t.args and isinstance(t.args[0], ast.Name):
        return t.args[0].id
    if isinstance(t, ast.Compare) and len(t.ops) == 1 and isinstance(t.left, ast.Call) and isinstance(t.left.func, ast.Name) \
            and t.left.func.id == "len" and t.left.args and isinstance(t.left.args[0], ast.Name):
        c, op = pat.const_value(t.comparators[0]), t.ops[0]
        if (c == 0 and isinstance(op, (ast.NotEq, ast.Gt))) or (c == 1 and isinstance(op, ast.GtE)):
            return t.left.args[0].id
    return None


def _written_names(body):
    names = set()
    for s in body:
        for x in ast.walk(s):
            if isinstance(x, ast.Name) and isinstance(x.ctx, (ast.Store, ast.Del)):
                names.add(x.id)
            if isinstance(x, ast.Call) and isinstance(x.func, ast.Attribute) and isinstance(x.func.value, ast.Name) \
                    and x.func.attr in ("append", "add", "insert", "pop", "remove", "extend", "update", "clear", "popleft",
                                        "appendleft", "extendleft", "discard"):
                names.add(x.func.value.id)
            if isinstance(x, (ast.Subscript,)) and isinstance(x.ctx, (ast.Store, ast.Del)) and isinstance(x.value, ast.Name):
                names.add(x.value.id)
    return names


def _body_effect(body, budget, nonempty=()):
    """paths of one iteration, started from fresh symbols: [(kind, {name: Lin delta or None}, State)]"""
    st0 = State(nonempty=nonempty)
    paths = run_block(body, st0, budget)
    out = []
    for p in paths:
        deltas = {}
        for name, lin in p.st.env.items():
            start = Lin.sym("n:" + name)
            deltas[name] = None if lin is None else lin - start
        out.append((p.kind, deltas, p.st))
    return out


def loop_paths(loop, st, budget):
    """the ways out of a nested loop: completed (then its `else` clause runs), or left through one of its `break` paths
    (which runs at most once, after any number of complete iterations)"""
    base, breaks = summarise_loop(loop, st, budget, with_breaks=True)
    out = run_block(getattr(loop, "orelse", []) or [], base.copy(), budget)
    for d in breaks:
        b = base.copy()
        for name, dl in d.items():
            if dl is not None and not dl.t and dl.c == 0:
                continue
            cur = b.get(name)
            _mutated(name, b)
            b.env[name] = None if (dl is None or dl.t or cur is None) else cur + dl.c
        out.append(Path(b, "fall"))
    return out


def summarise_loop(loop, st, budget, with_breaks=False):
    """state after the complete iterations of a `for` loop, or of a `while S:` loop that removes an element of S on every
    path (with_breaks: also the effect of each `break` path, which happens at most once)"""
    st = st.copy()
    written = _written_names(loop.body) | _written_names(getattr(loop, "orelse", []))
    if isinstance(loop, ast.For):
        for x in ast.walk(loop.target):
            if isinstance(x, ast.Name):
                written.add(x.id)
        it = loop.iter
        if isinstance(it, ast.Call) and isinstance(it.func, ast.Name) and it.func.id in ("enumerate", "reversed", "iter", "sorted",
                                                                                         "list", "tuple") and it.args:
            it = it.args[0]
        if isinstance(it, ast.Call) and isinstance(it.func, ast.Name) and it.func.id == "range" and len(it.args) == 1 \
                and isinstance(it.args[0], ast.Call) and isinstance(it.args[0].func, ast.Name) and it.args[0].func.id == "len" \
                and it.args[0].args:
            it = it.args[0].args[0]
        if isinstance(it, ast.Call) and isinstance(it.func, ast.Name) and it.func.id == "zip" and it.args:
            it = it.args[0]                       # zip stops at the shortest
        count = size_of(it, st)
        itname = _collection_name(it)
        if itname is not None and itname in written:
            count = None                          # the iterated list is changed while it is iterated
        S = None
    else:
        S = loop_collection(loop.test)
        count = st.get(S) if S is not None else None
    try:
        effects = _body_effect(loop.body, budget)
    except GiveUp:
        effects = None
    ok = effects is not None and count is not None
    if ok and S is not None:
        # every path that reaches the next iteration removes an element of S
        for kind, d, _ in effects:
            if kind in ("fall", "continue"):
                dl = d.get(S, Lin())
                if dl is None or not State().le0(dl + 1) or dl.t:
                    ok = False
    if not ok:
        for name in written:
            st.env[name] = None
            st.nonempty.discard(name)
        return (st, []) if with_breaks else st
    live = [(k, d) for k, d, _ in effects if k != "exit"]
    breaks = []
    if with_breaks:
        breaks = [d for k, d in live if k == "break"]
        live = [(k, d) for k, d in live if k != "break"]
    grown, unknown = {}, set()
    for name in written:
        ds = [d.get(name, Lin()) for _, d in live]
        if any(x is None or x.t for x in ds):
            unknown.add(name)
            continue
        mx = max([x.c for x in ds] + [0])
        if mx > 0:
            grown[name] = mx
    for name in unknown:
        st.env[name] = None
        st.nonempty.discard(name)
    if grown:
        joint = all(sum(max(d.get(n, Lin()).c, 0) for n in grown) <= 1 for _, d in live)
        syms = {}
        for name, mx in grown.items():
            syms[name] = "x:%d" % next(_fresh)
            cur = st.get(name)
            st.env[name] = None if cur is None else cur + Lin.sym(syms[name])
            st.nonempty.discard(name)
        if joint:
            st.groups.append((frozenset(syms.values()), count))
        else:
            for name, mx in grown.items():
                b = Lin()
                for _ in range(mx):
                    b = b + count
                st.groups.append((frozenset([syms[name]]), b))
    for name in written - unknown - set(grown):
        st.nonempty.discard(name)               # only shrunk: the old bound still holds
    if S is not None and not any(k == "break" for k, _ in live) and not breaks and S not in unknown:
        st.env[S] = Lin()
    return (st, breaks) if with_breaks else st


# ---------------------------------------------------------------------------------------------------------------------
def while_progress(loop):
    """(True, text) when every path through the body that reaches the next test removed >= 1 element of the loop list"""
    S = loop_collection(loop.test)
    if S is None:
        return False, "the loop test is not the non-emptiness of a list"
    try:
        paths = run_block(loop.body, State(nonempty={S}), [MAX_PATHS])
    except GiveUp as ex:
        return False, f"size analysis gave up: {ex}"
    n = 0
    for p in paths:
        if p.kind in ("fall", "continue"):
            n += 1
            lin = p.st.env.get(S, Lin.sym("n:" + S))
            up = p.st.upper(lin) if lin is not None else None
            if up is not None and not up.t and up.c <= 0:
                continue                         # emptied: the loop was entered with at least one element
            if lin is None or not p.st.le0(lin - Lin.sym("n:" + S) + 1):
                return False, f"on some path len({S}) is not shown to decrease (bound: {p.st.upper(lin) if lin is not None else 'unknown'})"
    return True, f"len({S}) decreases by at least one on each of the {n} path(s) through the body (size bounds)"


def _potential_loop(loop, st, arg, budget):
    """`while S:` summarised through the potential |S| + |arg|: returns the state after the loop, or None"""
    S = loop_collection(loop.test)
    if S is None or S == arg:
        return None
    try:
        effects = _body_effect(loop.body, budget, nonempty={S})
    except GiveUp:
        return None
    dec = 1
    for kind, d, pst in effects:
        if kind == "exit":
            continue
        if kind == "break":
            return None
        ds, da = d.get(S, Lin()), d.get(arg, Lin())
        if ds is None or da is None:
            return None
        if not pst.le0(ds + 1):                      # |S| itself decreases: the loop ends
            return None
        tot = ds + da
        if pst.le0(tot + 1):
            continue
        if pst.le0(tot):
            dec = 0
            continue
        return None
    out = summarise_loop(loop, st, budget)
    s0, a0 = st.get(S), st.get(arg)
    if s0 is None or a0 is None:
        return None
    bonus = dec if S in st.nonempty else 0           # at least one iteration when S is not empty on entry
    out.env[arg] = s0 + a0 - bonus
    out.env[S] = Lin()
    return out


def recursion_decreases(fn):
    """(True, text) when at every direct recursive call the first argument is a list shorter than the first parameter"""
    node = fn.node
    if not fn.params:
        return False, "no parameter"
    P = fn.params[0]
    calls = [n for n in ast.walk(node) if isinstance(n, ast.Call) and isinstance(n.func, ast.Name) and n.func.id == fn.name]
    if not calls:
        return False, "no direct recursive call by name"
    args = set()
    for c in calls:
        if not c.args or not isinstance(c.args[0], ast.Name):
            return False, "the recursive argument is not a local list"
        args.add(c.args[0].id)
    if len(args) != 1:
        return False, "several recursive arguments"
    arg = next(iter(args))
    budget = [MAX_PATHS]
    found = []

    def block(stmts, st):
        paths = [Path(st, "fall")]
        for s in stmts:
            nxt = []
            for p in paths:
                if p.kind != "fall":
                    nxt.append(p)
                    continue
                nxt += stmt(s, p.st)
            paths = nxt
            budget[0] -= len(paths)
            if budget[0] < 0:
                raise GiveUp("too many paths")
        return paths

    def stmt(s, st):
        for c in calls:
            if any(x is c for x in ast.walk(s)) and not isinstance(s, (ast.If, ast.For, ast.While, ast.With, ast.Try)):
                found.append((c, st.copy()))
        if isinstance(s, ast.If):
            st = st.copy()
            st_t, st_f = st.copy(), st.copy()
            _refine(s.test, st_t, st_f)
            return block(s.body, st_t) + block(s.orelse, st_f)
        if isinstance(s, ast.While) and any(isinstance(x, ast.Name) and x.id == arg for b in s.body for x in ast.walk(b)) \
                and not any(any(x is c for x in ast.walk(s)) for c in calls):
            out = _potential_loop(s, st, arg, budget)
            if out is not None:
                return [Path(out, "fall")]
        if isinstance(s, (ast.For, ast.While, ast.With, ast.Try)) and any(any(x is c for x in ast.walk(s)) for c in calls):
            raise GiveUp("recursive call inside a loop")
        return run_stmt(s, st, budget)
    try:
        block(node.body, State())
    except GiveUp as ex:
        return False, f"size analysis gave up: {ex}"
    if len(found) < len(calls):
        return False, "a recursive call was not reached by the analysis"
    for c, st in found:
        lin = st.env.get(arg, Lin.sym("n:" + arg))
        if lin is None or not st.le0(lin - Lin.sym("n:" + P) + 1):
            return False, f"len({arg}) is not shown to be smaller than len({P}) at the recursive call " \
                          f"(bound: {st.upper(lin) if lin is not None else 'unknown'})"
    return True, f"len({arg}) <= len({P}) - 1 at every recursive call (size bounds with the potential len(loop list) + len({arg}))"
