"""Engine F: finite-domain abstract evaluation.

`Ev` is a small interpreter of my own over the AST of one function fragment
(assignments, if, for, while, return, comparisons, boolean / arithmetic
operators, a hook that supplies the abstract value of calls).  A rule evaluates
a fragment on every cell of a finite abstract domain -- the partition induced
by the constants the fragment compares its variables with -- so one
representative per cell is exhaustive (decision-table extraction, not
sampling).  Nothing of the repository is imported or executed.  Anything the
interpreter cannot interpret raises `Undecided` (reported as exit 2, never as
"pass").
"""
from __future__ import annotations

import ast
from fractions import Fraction as Fr

U = ast.unparse


class Undecided(Exception):
    pass


class _Ret(Exception):
    def __init__(self, v):
        self.v = v


class _Brk(Exception):
    pass


class _Cont(Exception):
    pass


_MISSING = object()


class Raised(Exception):
    """the fragment executed a `raise` / failed `assert`"""

    def __init__(self, what):
        self.what = what


PURE_BUILTINS = {"abs": abs, "min": min, "max": max, "len": len, "tuple": tuple, "list": list,
                 "sorted": sorted, "bool": bool, "sum": sum, "any": any, "all": all, "set": set,
                 "range": range, "enumerate": enumerate, "zip": zip, "reversed": reversed, "int": int, "round": round,
                 "float": float, "isinstance": None, "id": id, "map": map, "str": str, "Fraction": Fr, "iter": iter, "next": next, "divmod": divmod, "pow": pow, "hasattr": hasattr,
                 "dict": dict, "frozenset": frozenset, "repr": repr, "filter": filter}


CONTAINER_METHODS = {"append", "pop", "remove", "insert", "add", "index", "count", "extend", "sort", "reverse", "copy",
                     "discard", "get", "items", "keys", "values", "setdefault", "update", "clear"}


import functools as _functools
import itertools as _itertools
import operator as _operator
import types as _types

# side-effect-free standard-library plumbing the interpreted code may use; these are part of the interpreter, not of the
# analysed repository
import builtins as _builtins
_OPERATOR_NAMES = {n for n in getattr(_operator, "__all__", []) if not hasattr(_builtins, n)}
import numbers as _numbers
import decimal as _decimal
PURE_MODULES = {"operator": _operator, "itertools": _itertools, "functools": _functools, "numbers": _numbers}
PURE_MODULE_NAMES = {"reduce": _functools.reduce, "partial": _functools.partial, "chain": _itertools.chain,
                     "islice": _itertools.islice, "accumulate": _itertools.accumulate, "product": _itertools.product,
                     "zip_longest": _itertools.zip_longest, "starmap": _itertools.starmap, "repeat": _itertools.repeat,
                     "count": _itertools.count, "cycle": _itertools.cycle, "takewhile": _itertools.takewhile,
                     "dropwhile": _itertools.dropwhile, "groupby": _itertools.groupby, "tee": _itertools.tee,
                     "combinations": _itertools.combinations, "permutations": _itertools.permutations,
                     "pairwise": getattr(_itertools, "pairwise", None), "itemgetter": _operator.itemgetter,
                     "attrgetter": _operator.attrgetter, "methodcaller": _operator.methodcaller,
                     # abstract numeric classes used in isinstance validations
                     "Number": _numbers.Number, "Complex": _numbers.Complex, "Real": _numbers.Real,
                     "Rational": _numbers.Rational, "Integral": _numbers.Integral, "Decimal": _decimal.Decimal}


def _is_pure_callable(f):
    mod = getattr(f, "__module__", None) or getattr(getattr(f, "__self__", None), "__module__", None)
    return callable(f) and (mod in ("operator", "_operator", "itertools", "functools", "_functools")
                            or isinstance(f, (_functools.partial, _operator.itemgetter, _operator.attrgetter,
                                              _operator.methodcaller))
                            or getattr(f, "__self__", None) is _itertools.chain)


NUMBER_METHODS = {"limit_denominator", "is_integer", "as_integer_ratio", "conjugate", "bit_length"}   # pure


class Ev:
    """evaluation of a pure fragment over representatives; `hook(ev, call)` may supply the value of a call
    (return NotImplemented to fall through); `attr_hook(ev, node)` the value of attribute reads."""
    # int / int: most abstract worlds feed ints where the library would meet Fractions and want the exact quotient;
    # a rule whose inputs are the ints the library itself passes (node counts) asks for Python's own float quotient
    INT_DIV_IS_FLOAT = False

    def __init__(self, env, hook=None, attr_hook=None, asserts=False, store_hook=None):
        self.store_hook = store_hook
        self.env = dict(env)
        self.hook = hook
        self.attr_hook = attr_hook
        self.asserts = asserts
        self.steps = 0

    def run(self, body):
        # a generator function is evaluated eagerly: its yields are collected and handed out as an iterator
        is_gen = any(isinstance(n, (ast.Yield, ast.YieldFrom)) for st in body for n in self._own_nodes(st))
        self.yields = []
        try:
            self.block(body)
        except _Ret as r:
            return iter(self.yields) if is_gen else r.v
        return iter(self.yields) if is_gen else None

    @staticmethod
    def _own_nodes(st):
        """nodes of a statement, not descending into nested function definitions"""
        stack = [st]
        while stack:
            n = stack.pop()
            yield n
            for c in ast.iter_child_nodes(n):
                if not isinstance(c, (ast.FunctionDef, ast.Lambda, ast.AsyncFunctionDef)):
                    stack.append(c)

    def block(self, body):
        for st in body:
            self.stmt(st)

    BUDGET = 20000          # statements per evaluation; a rule that runs a numeric iteration raises it for its run

    def tick(self):
        self.steps += 1
        if self.steps > self.BUDGET:
            raise Undecided("evaluation budget exceeded")

    def stmt(self, st):
        self.tick()
        if isinstance(st, ast.Expr):
            if isinstance(st.value, ast.Constant):
                return
            self.ev(st.value)
            return
        if isinstance(st, ast.Pass):
            return
        if isinstance(st, ast.FunctionDef) and not st.decorator_list and not st.args.vararg and not st.args.kwarg \
                and not st.args.kwonlyargs:
            # local helper function: a closure over the current environment (read at call time)
            params = [a.arg for a in st.args.posonlyargs + st.args.args]
            defaults = [self.ev(d) for d in st.args.defaults]
            outer, body = self, st.body

            def local_fn(*vals, **kw):
                sub = Ev(dict(outer.env), hook=outer.hook, attr_hook=outer.attr_hook, asserts=outer.asserts,
                         store_hook=outer.store_hook)
                for i, p in enumerate(params):
                    if i < len(vals):
                        sub.env[p] = vals[i]
                    elif p in kw:
                        sub.env[p] = kw[p]
                    elif i - (len(params) - len(defaults)) >= 0:
                        sub.env[p] = defaults[i - (len(params) - len(defaults))]
                    else:
                        raise Undecided("missing argument of local function " + st.name)
                return sub.run(body)
            local_fn._ev_closure = True
            self.env[st.name] = local_fn
            return
        if isinstance(st, ast.Assert):
            if self.asserts and not self.ev(st.test):
                raise Raised("AssertionError")
            return
        if isinstance(st, ast.Raise):
            raise Raised(U(st.exc) if st.exc else "raise")
        if isinstance(st, ast.Assign):
            v = self.ev(st.value)
            for t in st.targets:
                self.assign(t, v)
            return
        if isinstance(st, ast.AugAssign):
            cur = self.ev(st.target)
            v = self.ev(st.value)
            # objects with an in-place operator (lists, sets, mutable stand-ins) are updated in place, as in Python:
            # the update is then visible through every alias of the object
            dunder = {ast.Add: "__iadd__", ast.Sub: "__isub__", ast.Mult: "__imul__", ast.Div: "__itruediv__",
                      ast.BitOr: "__ior__", ast.BitAnd: "__iand__", ast.BitXor: "__ixor__", ast.FloorDiv: "__ifloordiv__",
                      ast.Mod: "__imod__", ast.Pow: "__ipow__"}.get(type(st.op))
            if dunder and hasattr(type(cur), dunder):
                res = getattr(cur, dunder)(v)
                if res is not NotImplemented:
                    self.assign(st.target, res)
                    return
            self.assign(st.target, self.binop(st.op, cur, v))
            return
        if isinstance(st, ast.If):
            self.block(st.body if self.ev(st.test) else st.orelse)
            return
        if isinstance(st, ast.Match):
            subject = self.ev(st.subject)
            for case in st.cases:
                binds = {}
                if self._match(case.pattern, subject, st.subject, binds):
                    saved = {k: self.env.get(k, _MISSING) for k in binds}
                    self.env.update(binds)
                    if case.guard is None or self.ev(case.guard):
                        self.block(case.body)
                        return
                    for k, v in saved.items():
                        if v is _MISSING:
                            self.env.pop(k, None)
                        else:
                            self.env[k] = v
            return
        if isinstance(st, ast.Return):
            raise _Ret(self.ev(st.value) if st.value is not None else None)
        if isinstance(st, ast.For):
            broke = False
            seq = self.ev(st.iter)
            if type(seq) is list:
                # a list that the body changes while it is traversed: the iterator goes by position, as Python's does
                def by_position(lst=seq):
                    i = 0
                    while i < len(lst):
                        yield lst[i]
                        i += 1
                items = by_position()
            else:
                items = list(seq)
            for x in items:
                self.assign(st.target, x)
                try:
                    self.block(st.body)
                except _Brk:
                    broke = True
                    break
                except _Cont:
                    continue
            if not broke:
                self.block(st.orelse)
            return
        if isinstance(st, ast.While):
            n = 0
            broke = False
            while self.ev(st.test):
                n += 1
                if n > 2000:
                    raise Undecided("loop bound")
                try:
                    self.block(st.body)
                except _Brk:
                    broke = True
                    break
                except _Cont:
                    continue
            if not broke:
                self.block(st.orelse)
            return
        if isinstance(st, ast.Try):
            self._try(st)
            return
        if isinstance(st, ast.With):
            for it in st.items:
                v = self.ev(it.context_expr)
                if it.optional_vars is not None:
                    self.assign(it.optional_vars, v)
            self.block(st.body)
            return
        if isinstance(st, ast.Delete):
            for t in st.targets:
                if isinstance(t, ast.Subscript):
                    del self.ev(t.value)[self.ev(t.slice)]
                elif isinstance(t, ast.Name):
                    self.env.pop(t.id, None)
                else:
                    raise Undecided("del " + U(t))
            return
        if isinstance(st, (ast.Import, ast.ImportFrom, ast.Global, ast.Nonlocal)):
            return
        if isinstance(st, ast.AnnAssign):
            if st.value is not None:
                self.assign(st.target, self.ev(st.value))
            return
        if isinstance(st, ast.Continue):
            raise _Cont()
        if isinstance(st, ast.Break):
            raise _Brk()
        raise Undecided("statement " + U(st)[:50])

    def _try(self, st):
        import builtins
        try:
            try:
                self.block(st.body)
            except (_Ret, _Brk, _Cont, Undecided):
                raise
            except Raised as r:
                name = r.what.split("(")[0].strip()
                self._handle(st, name, r)
            except Exception as ex:      # raised by a stand-in object
                self._handle(st, type(ex).__name__, ex)
            else:
                self.block(st.orelse)
        finally:
            if st.finalbody:
                self.block(st.finalbody)

    def _handle(self, st, name, exc):
        import builtins
        for h in st.handlers:
            if h.type is None:
                return self.block(h.body)
            ts = h.type.elts if isinstance(h.type, ast.Tuple) else [h.type]
            expanded = []
            for t in ts:
                v = self.env.get(t.id) if isinstance(t, ast.Name) else None      # EXC = (ValueError, TypeError)
                if isinstance(v, type) and issubclass(v, BaseException):
                    expanded.append(ast.Name(id=v.__name__, ctx=ast.Load()))
                elif isinstance(v, tuple) and v and all(isinstance(x, type) and issubclass(x, BaseException) for x in v):
                    expanded += [ast.Name(id=x.__name__, ctx=ast.Load()) for x in v]
                else:
                    expanded.append(t)
            for t in expanded:
                tn = U(t)
                cls = getattr(builtins, tn, None)
                ecls = getattr(builtins, name, None)
                if tn == name or (isinstance(cls, type) and isinstance(ecls, type) and issubclass(ecls, cls)):
                    if h.name:
                        self.env[h.name] = exc
                    return self.block(h.body)
        raise exc

    def _match(self, pat_, value, subject_expr, binds):
        """structural pattern matching on the evaluated subject; class patterns go through `isinstance(...)` as a call,
        so that the hooks which answer isinstance for stand-in objects apply"""
        if isinstance(pat_, ast.MatchAs):
            if pat_.pattern is not None and not self._match(pat_.pattern, value, subject_expr, binds):
                return False
            if pat_.name is not None:
                binds[pat_.name] = value
            return True
        if isinstance(pat_, ast.MatchOr):
            return any(self._match(p, value, subject_expr, binds) for p in pat_.patterns)
        if isinstance(pat_, ast.MatchValue):
            return value == self.ev(pat_.value)
        if isinstance(pat_, ast.MatchSingleton):
            return value is pat_.value
        if isinstance(pat_, ast.MatchClass):
            if pat_.patterns or pat_.kwd_patterns:
                raise Undecided("class pattern with sub-patterns")
            holder = "__match_subject__"
            old = self.env.get(holder, _MISSING)
            self.env[holder] = value
            try:
                call = ast.Call(func=ast.Name(id="isinstance", ctx=ast.Load()),
                                args=[ast.Name(id=holder, ctx=ast.Load()), pat_.cls], keywords=[])
                ast.copy_location(call, pat_)
                ast.fix_missing_locations(call)
                return bool(self.ev(call))
            finally:
                if old is _MISSING:
                    self.env.pop(holder, None)
                else:
                    self.env[holder] = old
        if isinstance(pat_, ast.MatchSequence):
            try:
                vs = list(value)
            except TypeError:
                return False
            if isinstance(value, (str, bytes)):
                return False
            stars = [i for i, p in enumerate(pat_.patterns) if isinstance(p, ast.MatchStar)]
            if not stars:
                return len(vs) == len(pat_.patterns) and all(self._match(p, v, subject_expr, binds) for p, v in zip(pat_.patterns, vs))
            i = stars[0]
            after = len(pat_.patterns) - i - 1
            if len(vs) < len(pat_.patterns) - 1:
                return False
            ok = all(self._match(p, v, subject_expr, binds) for p, v in zip(pat_.patterns[:i], vs[:i])) and \
                all(self._match(p, v, subject_expr, binds) for p, v in zip(pat_.patterns[i + 1:], vs[len(vs) - after:]))
            if ok and pat_.patterns[i].name is not None:
                binds[pat_.patterns[i].name] = vs[i:len(vs) - after]
            return ok
        raise Undecided("pattern " + type(pat_).__name__)

    def assign(self, t, v):
        if isinstance(t, ast.Name):
            self.env[t.id] = v
        elif isinstance(t, (ast.Tuple, ast.List)):
            vs = list(v)
            stars = [i for i, e in enumerate(t.elts) if isinstance(e, ast.Starred)]
            if len(stars) == 1:                       # a, *rest, z = values
                i = stars[0]
                after = len(t.elts) - i - 1
                if len(vs) < len(t.elts) - 1:
                    raise Raised("ValueError")
                for e, x in zip(t.elts[:i], vs[:i]):
                    self.assign(e, x)
                self.assign(t.elts[i].value, vs[i:len(vs) - after])
                for e, x in zip(t.elts[i + 1:], vs[len(vs) - after:]):
                    self.assign(e, x)
                return
            if len(vs) != len(t.elts):
                if type(v) in (list, tuple) or hasattr(v, "__next__"):
                    # a concrete sequence / iterator of the wrong length: Python raises ValueError here
                    raise Raised("ValueError(unpack)")
                raise Undecided("unpacking arity")
            for e, x in zip(t.elts, vs):
                self.assign(e, x)
        elif isinstance(t, ast.Subscript):
            self.ev(t.value)[self.ev(t.slice)] = v
        elif isinstance(t, ast.Attribute) and self.store_hook is not None:
            self.store_hook(self, t, v)
        else:
            raise Undecided("assign " + U(t))

    @staticmethod
    def binop(op, l, r):
        if isinstance(op, ast.Add):
            return l + r
        if isinstance(op, ast.Sub):
            return l - r
        if isinstance(op, ast.Mult):
            return l * r
        if isinstance(op, ast.Div):
            if Ev.INT_DIV_IS_FLOAT and isinstance(l, int) and isinstance(r, int) and not isinstance(l, bool):
                return l / r                 # as Python does it: the quotient of two ints is a float
            return Fr(l) / r if isinstance(l, (int, Fr)) and isinstance(r, (int, Fr)) else l / r
        if isinstance(op, ast.Mod):
            return l % r
        if isinstance(op, ast.FloorDiv):
            return l // r
        if isinstance(op, ast.Pow):
            return l ** r
        if isinstance(op, ast.BitAnd):
            return l & r
        if isinstance(op, ast.BitOr):
            return l | r
        if isinstance(op, ast.BitXor):
            return l ^ r
        if isinstance(op, ast.MatMult):
            return l @ r
        if isinstance(op, ast.LShift):
            return l << r
        if isinstance(op, ast.RShift):
            return l >> r
        raise Undecided("operator " + type(op).__name__)

    def ev(self, e):
        self.tick()
        if isinstance(e, ast.Constant):
            return e.value
        if isinstance(e, ast.Name):
            if e.id in self.env:
                return self.env[e.id]
            if e.id in ("True", "False", "None"):
                return {"True": True, "False": False, "None": None}[e.id]
            if PURE_BUILTINS.get(e.id) is not None:
                return PURE_BUILTINS[e.id]
            if PURE_MODULE_NAMES.get(e.id) is not None:
                return PURE_MODULE_NAMES[e.id]
            if e.id in _OPERATOR_NAMES:
                return getattr(_operator, e.id)          # from operator import or_, add, neg ...
            raise Undecided("name " + e.id)
        if isinstance(e, (ast.Tuple, ast.List, ast.Set)) and any(isinstance(x, ast.Starred) for x in e.elts):
            vals = []
            for x in e.elts:
                if isinstance(x, ast.Starred):
                    vals.extend(self.ev(x.value))
                else:
                    vals.append(self.ev(x))
            return tuple(vals) if isinstance(e, ast.Tuple) else (vals if isinstance(e, ast.List) else set(vals))
        if isinstance(e, ast.Tuple):
            return tuple(self.ev(x) for x in e.elts)
        if isinstance(e, ast.List):
            return [self.ev(x) for x in e.elts]
        if isinstance(e, ast.Slice):
            return slice(self.ev(e.lower) if e.lower else None, self.ev(e.upper) if e.upper else None,
                         self.ev(e.step) if e.step else None)
        if isinstance(e, ast.Dict):
            return {self.ev(k): self.ev(v) for k, v in zip(e.keys, e.values) if k is not None}
        if isinstance(e, ast.Set):
            return {self.ev(x) for x in e.elts}
        if isinstance(e, ast.JoinedStr):
            parts = []
            for v in e.values:
                if isinstance(v, ast.Constant):
                    parts.append(str(v.value))
                    continue
                try:
                    val = self.ev(v.value)
                    spec = self.ev(v.format_spec) if v.format_spec is not None else ""
                    if v.conversion == 114:
                        val = repr(val)
                    elif v.conversion == 115:
                        val = str(val)
                    elif v.conversion == 97:
                        val = ascii(val)
                    parts.append(format(val, spec))
                except (Undecided, TypeError, ValueError, AttributeError):
                    parts.append("<?>")         # a message about an abstract object
            return "".join(parts)
        if isinstance(e, ast.BoolOp):
            v = None
            for x in e.values:
                v = self.ev(x)
                if isinstance(e.op, ast.And) and not v:
                    return v
                if isinstance(e.op, ast.Or) and v:
                    return v
            return v
        if isinstance(e, ast.UnaryOp):
            v = self.ev(e.operand)
            if isinstance(e.op, ast.Not):
                return not v
            if isinstance(e.op, ast.USub):
                return -v
            if isinstance(e.op, ast.UAdd):
                return v
            if isinstance(e.op, ast.Invert):
                return ~v
            raise Undecided("unary " + U(e))
        if isinstance(e, ast.IfExp):
            return self.ev(e.body) if self.ev(e.test) else self.ev(e.orelse)
        if isinstance(e, ast.Compare):
            l = self.ev(e.left)
            for op, c in zip(e.ops, e.comparators):
                r = self.ev(c)
                if not self.compare(op, l, r):
                    return False
                l = r
            return True
        if isinstance(e, ast.BinOp):
            return self.binop(e.op, self.ev(e.left), self.ev(e.right))
        if isinstance(e, ast.Subscript):
            base = self.ev(e.value)
            if isinstance(e.slice, ast.Slice):
                lo = self.ev(e.slice.lower) if e.slice.lower else None
                hi = self.ev(e.slice.upper) if e.slice.upper else None
                stp = self.ev(e.slice.step) if e.slice.step else None
                return base[lo:hi:stp]
            idx = self.ev(e.slice)
            try:
                return base[idx]
            except IndexError:
                if isinstance(base, (list, tuple, str)):
                    raise Raised(f"IndexError({type(base).__name__} index {idx!r} out of range, length {len(base)})") from None
                raise
        if isinstance(e, ast.Attribute):
            if isinstance(e.value, ast.Name) and e.value.id not in self.env and e.value.id in PURE_MODULES \
                    and hasattr(PURE_MODULES[e.value.id], e.attr):
                return getattr(PURE_MODULES[e.value.id], e.attr)
            if isinstance(e.value, (ast.Name, ast.Attribute)):
                try:
                    base = self.ev(e.value) if not (isinstance(e.value, ast.Name) and e.value.id not in self.env
                                                    and e.value.id not in PURE_MODULE_NAMES) else None
                except Undecided:
                    base = None
                if base is _itertools.chain and e.attr == "from_iterable":
                    return _itertools.chain.from_iterable
            if self.attr_hook:
                h = self.attr_hook(self, e)
                if h is not NotImplemented:
                    return h
            if e.attr in ("numerator", "denominator", "real", "imag"):
                try:
                    base = self.ev(e.value)
                except Undecided:
                    base = None
                if isinstance(base, (int, float, Fr)) and not isinstance(base, bool) and hasattr(base, e.attr):
                    return getattr(base, e.attr)                   # parts of a concrete number
            raise Undecided("attribute " + U(e))
        if isinstance(e, ast.Lambda):
            params = [a.arg for a in e.args.args]
            outer = self

            def fn(*vals):
                sub = Ev(dict(outer.env), hook=outer.hook, attr_hook=outer.attr_hook, asserts=outer.asserts,
                         store_hook=outer.store_hook)
                for p, v in zip(params, vals):
                    sub.env[p] = v
                return sub.ev(e.body)
            fn._ev_closure = True
            return fn
        if isinstance(e, ast.GeneratorExp):
            # a generator expression is an iterator: its outermost iterable is evaluated now, its elements when they are
            # asked for (`any(unite(i) for i in ...)` stops at the first true element, and an element may have effects)
            return self._gen(e, 0, self.ev(e.generators[0].iter))
        if isinstance(e, ast.ListComp):
            out = []
            self._comp(e, 0, out)
            return out
        if isinstance(e, ast.SetComp):
            out = []
            self._comp(e, 0, out)
            return set(out)
        if isinstance(e, ast.DictComp):
            out = []
            pair = ast.Tuple(elts=[e.key, e.value], ctx=ast.Load())
            self._comp(ast.ListComp(elt=pair, generators=e.generators), 0, out)
            return dict(out)
        if isinstance(e, ast.NamedExpr):
            v = self.ev(e.value)
            self.assign(e.target, v)
            return v
        if isinstance(e, ast.Yield):
            self.yields.append(self.ev(e.value) if e.value is not None else None)
            return None
        if isinstance(e, ast.YieldFrom):
            self.yields.extend(list(self.ev(e.value)))
            return None
        if isinstance(e, ast.Call):
            # arguments are evaluated exactly once (they may have side effects such as list.pop)
            args = []
            for a in e.args:
                if isinstance(a, ast.Starred):
                    args.extend(self.ev(a.value))
                else:
                    args.append(self.ev(a))
            kwargs = {k.arg: self.ev(k.value) for k in e.keywords if k.arg}
            if self.hook:
                h = self.hook(self, e, args, kwargs)
                if h is not NotImplemented:
                    return h
            if isinstance(e.func, ast.Name) and PURE_BUILTINS.get(e.func.id) is not None:
                return PURE_BUILTINS[e.func.id](*args, **kwargs)
            if isinstance(e.func, ast.Name) and e.func.id == "print":
                return None
            if isinstance(e.func, ast.Name) and e.func.id == "isinstance" and len(args) == 2 and (
                    isinstance(args[1], type) or (isinstance(args[1], tuple) and all(isinstance(t, type) for t in args[1]))):
                return isinstance(args[0], args[1])
            if isinstance(e.func, ast.Name) and e.func.id == "sorted":
                return sorted(*args, **kwargs)
            if isinstance(e.func, ast.Attribute) and e.func.attr in CONTAINER_METHODS:
                recv = self.ev(e.func.value)
                if isinstance(recv, (list, set, tuple, dict)) and hasattr(recv, e.func.attr):
                    return getattr(recv, e.func.attr)(*args, **kwargs)
            if isinstance(e.func, ast.Name) and getattr(self.env.get(e.func.id), "_ev_closure", False):
                return self.env[e.func.id](*args, **kwargs)          # local function / lambda bound to a name
            if isinstance(e.func, ast.Name) and e.func.id == "getattr" and 2 <= len(args) <= 3 and isinstance(args[1], str):
                obj, attr = args[0], args[1]
                if hasattr(obj, "__dict__") and attr in getattr(obj, "__dict__", {}):
                    return obj.__dict__[attr]
                if hasattr(type(obj), attr) and not attr.startswith("__"):
                    return getattr(obj, attr)                        # a method of a stand-in object
                try:                                                 # as the attribute access obj.<attr>
                    return self.ev(ast.copy_location(ast.Attribute(value=e.args[0], attr=attr, ctx=ast.Load()), e))
                except Undecided:
                    if len(args) == 3:
                        return args[2]
                    raise Undecided(f"getattr(.., {attr!r})")
            if isinstance(e.func, (ast.Name, ast.Attribute)):
                try:
                    fv = self.ev(e.func)
                except Undecided:
                    fv = None
                if fv is not None and (_is_pure_callable(fv) or getattr(fv, "_ev_callable", False)):
                    return fv(*args, **kwargs)       # operator.add, reduce, chain.from_iterable; repository function values
            if isinstance(e.func, (ast.Call, ast.Subscript, ast.IfExp)):
                fv = self.ev(e.func)                                 # getattr(obj, name)(..), table[key](..)
                if getattr(fv, "_ev_closure", False) or _is_pure_callable(fv) or (
                        callable(fv) and getattr(getattr(fv, "__self__", None), "__class__", None) is not None
                        and not isinstance(getattr(fv, "__self__", None), type(_operator))):
                    return fv(*args, **kwargs)
                raise Undecided("call of a computed value " + U(e.func)[:40])
            if isinstance(e.func, ast.Attribute) and e.func.attr in NUMBER_METHODS:
                recv = self.ev(e.func.value)
                if isinstance(recv, (int, float, Fr)) and not isinstance(recv, bool) and hasattr(recv, e.func.attr):
                    return getattr(recv, e.func.attr)(*args, **kwargs)
            raise Undecided("call " + U(e.func))
        raise Undecided(U(e)[:50])

    def _gen(self, e, gi, first=None):
        if gi == len(e.generators):
            yield self.ev(e.elt)
            return
        g = e.generators[gi]
        seq = first if gi == 0 else self.ev(g.iter)
        if type(seq) is list:
            def by_position(lst=seq):
                i = 0
                while i < len(lst):
                    yield lst[i]
                    i += 1
            seq = by_position()
        for x in seq:
            self.assign(g.target, x)
            if all(self.ev(c) for c in g.ifs):
                yield from self._gen(e, gi + 1)

    def _comp(self, e, gi, out):
        if gi == len(e.generators):
            out.append(self.ev(e.elt))
            return
        g = e.generators[gi]
        for x in list(self.ev(g.iter)):
            self.assign(g.target, x)
            if all(self.ev(c) for c in g.ifs):
                self._comp(e, gi + 1, out)

    @staticmethod
    def compare(op, l, r):
        if isinstance(op, ast.Lt):
            return l < r
        if isinstance(op, ast.LtE):
            return l <= r
        if isinstance(op, ast.Gt):
            return l > r
        if isinstance(op, ast.GtE):
            return l >= r
        if isinstance(op, ast.Eq):
            return l == r
        if isinstance(op, ast.NotEq):
            return l != r
        if isinstance(op, ast.Is):
            return l is r
        if isinstance(op, ast.IsNot):
            return l is not r
        if isinstance(op, ast.In):
            return l in r
        if isinstance(op, ast.NotIn):
            return l not in r
        raise Undecided("comparison")


def compared_constants(node):
    """numeric constants a fragment compares anything with (to build the partition of a value domain)"""
    out = set()
    for n in ast.walk(node):
        if isinstance(n, ast.Compare):
            for c in [n.left] + list(n.comparators):
                if isinstance(c, ast.Constant) and isinstance(c.value, (int, float)) and not isinstance(c.value, bool):
                    out.add(c.value)
                if isinstance(c, ast.UnaryOp) and isinstance(c.op, ast.USub) and isinstance(c.operand, ast.Constant) \
                        and isinstance(c.operand.value, (int, float)):
                    out.add(-c.operand.value)
    return out


def partition_reps(constants, extra=()):
    """one representative per cell of the partition of the real line induced by the constants
    (each constant itself, a point between neighbours, one below, one above)"""
    cs = sorted(set(Fr(c).limit_denominator(10**6) if isinstance(c, float) else Fr(c) for c in constants) | set(
        Fr(x) for x in extra))
    if not cs:
        return [Fr(0)]
    reps = [cs[0] - 1]
    for i, c in enumerate(cs):
        reps.append(c)
        if i + 1 < len(cs):
            reps.append((c + cs[i + 1]) / 2)
    reps.append(cs[-1] + 1)
    return reps
