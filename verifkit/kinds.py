"""How each rule decides (recorded in the evidence next to every rule).

 S  structural / dataflow analysis of the resolved program (AST, types, call
    graph, effects, dimensions, taint, exception escape): decided for all inputs.
 T  decision table: the rule's own interpreter evaluates the function body on
    every cell of a finite abstract domain (the partition induced by what the
    code can observe); exhaustive for that domain, hence for all inputs that
    reach the function, under the stated abstraction of the callees.
 W  abstract scenarios ("worlds"): the interpreter evaluates the function body on
    a small number of hand-built abstract worlds (stand-in objects whose
    behaviour is tabulated).  Bounded, not exhaustive: it decides the structural
    fact for those scenarios only and relies on the uniformity of loops over the
    number of elements.  Nothing of the repository is imported or executed in
    any of the three.
"""
KIND = {
    "R01.1": "T", "R01.2": "T", "R01.3": "W", "R01.4": "S", "R01.5a": "S", "R01.5b": "S", "R01.6": "W+S", "R01.7": "W", "R01.8": "W", "R01.9": "S", "R01.10": "W", "R06.8": "S", "R07.9": "S", "R14.6": "S",
    "R02.1": "T", "R02.2": "T", "R02.3": "S+W", "R02.3b": "T", "R03.2b": "T", "R02.4": "T", "R02.5": "S", "R02.6": "S", "R02.7": "W",
    "R03.1": "T", "R03.2": "S", "R03.3": "T", "R03.4": "W", "R03.5": "S",
    "R04.1": "W", "R04.2": "W", "R04.3": "W", "R04.4": "S", "R04.5": "W+S", "R04.6": "S", "R04.7": "W",
    "R05.1a": "T", "R05.1b": "T", "R05.2": "W+S", "R05.3": "S", "R05.4a": "W", "R05.4b": "W", "R05.5": "W", "R06.7": "W",
    "R06.1": "T", "R06.2": "W+S", "R06.3": "W", "R06.4": "W", "R06.5": "T", "R06.6": "T", "R16.5": "W",
    "R07.1": "S", "R07.2": "T", "R07.4": "S", "R07.5": "S", "R07.6": "S", "R07.7": "W", "R07.8": "W",
    "R08.1": "S", "R08.2": "S", "R08.3": "S", "R08.4": "S",
    "R09.1": "S", "R09.2": "W", "R09.3": "W+S", "R09.4": "W", "R09.5": "S",
    "R10.1": "S", "R10.2": "S", "R10.3": "S", "R10.4": "S", "R10.5": "W",
    "R11.1": "S", "R11.2": "S", "R11.3": "S", "R11.4": "W",
    "R12.1": "S", "R12.2": "S",
    "R13.1": "S", "R13.2": "S", "R13.3": "S",
    "R14.1": "T", "R14.2": "T", "R14.3": "T", "R14.4": "W", "R14.5": "S",
    "R15.1": "T", "R15.2": "W", "R15.3": "W", "R15.4": "W", "R15.5": "W", "R15.6": "S",
    "R16.1": "T", "R16.2": "W", "R16.3": "W", "R16.4": "W",
    "R17.1": "W", "R17.2": "W", "R17.3": "W", "R17.4": "T", "R17.5": "W", "R17.6": "S",
    "R18.1": "W", "R18.2": "T", "R18.3a": "S", "R18.3b": "S", "R18.4": "W", "R18.5": "T", "R18.6": "T", "R18.7": "T", "R18.8": "W", "R18.9": "W", "R18.10": "W", "R18.11": "S",
    "R19.1a": "S", "R19.1b": "W", "R19.1c": "T", "R19.2": "W", "R19.3": "T", "R19.4": "T", "R19.5": "S", "R19.6": "T",
    "R20.1": "T", "R20.3": "W", "R20.4": "W", "R20.5": "S",
    "R01.11": "W",
    "R19.7": "W",
    "R07.10": "W",
    "R14.7": "S",
    "R02.8": "W",
    "R12.3": "W",
    "R01.12": "W",
    "R03.6": "W",
    "R14.8": "W",
    "R14.9": "W",
    "R14.10": "W",
    "R14.11": "W", "R14.12": "W",
    "R06.9": "T",
    "R07.11": "W", "R07.12": "S",
    "R18.12": "S",
    "R17.7": "W",
    "R13.4": "W",
    "R17.8": "W", "R17.9": "W", "R17.10": "W",
    "R18.13": "W",
    "R18.14": "W",
    "R01.13": "W",
    "SELF": "self-validation of the checker on single-edit variants of the current tree",
}
NAMES = {"S": "structural / dataflow analysis of the resolved program (all inputs)",
         "T": "decision table: abstract evaluation on every cell of a finite abstract domain (exhaustive)",
         "W": "abstract scenarios: abstract evaluation on hand-built stand-in worlds (bounded, not exhaustive)"}


def method(rule):
    if "/" in rule:                       # a borrowed rule R<prop>/<original id>
        rule = rule.split("/", 1)[1]
    k = KIND.get(rule, "?")
    if "+" in k:
        return " + ".join(NAMES.get(x, x) for x in k.split("+"))
    return NAMES.get(k, k)
