"""Capped intermediates (C13, rule R13.3).

Point2D stores int / Fraction coordinates through `limit_denominator(cap)` in its constructor, and its non-in-place
operators (`+ - * /`, unary minus) first *copy* their Point2D operand through that constructor and then operate in
place on the copy.  An input point is already capped, so copying it changes nothing; but a *derived* point (the result
of arithmetic in the same computation) may carry larger denominators, and copying it rounds the intermediate value --
the computation then continues on a rounded value and its result is not the exact rational any more.  The in-place
operators (`*=`, `+=`, ...) never copy.

Decided here, without types being declared anywhere:
  * which expressions may be point-valued: a may-analysis seeded by the typer (Point2D), by the point-sequence
    attributes (`ctrlpoints`, `vertices`), propagated through subscripts, iteration, tuple()/list()/np.dot(...) and
    -- over the resolved call graph -- from call-site arguments into the parameters of the callee (so the generic
    helper `horner_method(node, coefs)` is known to receive points from `BezierCurve.eval`);
  * which expressions are derived: results of `+ - * /` in the same function, or names bound to such (any definition);
  * the premise itself: the non-in-place operators of Point2D do copy through a constructor that caps.
A finding is a non-in-place arithmetic operator whose Point2D *receiver* (left operand; right operand of a scalar
multiplication) is a derived, possibly point-valued value, in a function of the exact path.
"""
from __future__ import annotations

import ast

from . import pat

U = ast.unparse
SEQ_ATTRS = {"ctrlpoints", "vertices"}
SEQ_CALLS = {"tuple", "list", "reversed", "sorted", "iter"}
NP_LINEAR = {"dot", "tensordot", "inner", "matmul", "array", "asarray", "transpose", "flip"}
ARITH = (ast.Add, ast.Sub, ast.Mult, ast.Div)
PV, PS = "point", "points"


def _join(a, b):
    if a == b or b is None:
        return a
    if a is None:
        return b
    return PS if PS in (a, b) else PV


class CapFlow:
    def __init__(self, ctx):
        self.ctx = ctx
        self.M = ctx.model
        self.pparams = {q: {} for q in self.M.funcs}        # qname -> {param name: PV | PS}
        self.rets = {}                                      # qname -> PV | PS: what the function may return
        self.envs = {}
        self.premise = self._premise()
        self.caps = self._caps()
        for _ in range(6):
            changed = False
            for q, fn in self.M.funcs.items():
                env = self._env(fn)
                self.envs[q] = env
                inf = ctx.typer.of(fn)
                for r in ast.walk(fn.node):
                    if isinstance(r, ast.Return) and r.value is not None:
                        k = self.kind(fn, inf, r.value, env)
                        if k and _join(self.rets.get(q), k) != self.rets.get(q):
                            self.rets[q] = _join(self.rets.get(q), k)
                            changed = True
                for call in ast.walk(fn.node):
                    if not isinstance(call, ast.Call):
                        continue
                    for t in inf.targets(call, ("call", "ctor")):
                        if t.qname not in self.pparams:
                            continue
                        ps = [a.arg for a in t.node.args.posonlyargs + t.node.args.args]
                        if ps and (t.kind in ("method", "getter", "setter", "class") or t.name == "__init__") \
                                and (isinstance(call.func, ast.Attribute) or t.name == "__init__"):
                            ps = ps[1:]
                        pairs = list(zip(ps, call.args)) + [(k.arg, k.value) for k in call.keywords if k.arg in ps]
                        for p, a in pairs:
                            if isinstance(a, ast.Starred):
                                continue
                            k = self.kind(fn, inf, a, env)
                            if k and _join(self.pparams[t.qname].get(p), k) != self.pparams[t.qname].get(p):
                                self.pparams[t.qname][p] = _join(self.pparams[t.qname].get(p), k)
                                changed = True
            if not changed:
                break

    # -- which parameters a function passes through the capping constructor *in place*
    def _caps(self):
        """Point2D(p) returns p itself when p is a point (Point2D.__new__) and then runs __init__ on it again, which
        re-applies the cap to the object in place.  caps[q] = parameters that reach such a call unguarded (a call under
        `if not isinstance(p, Point2D)` only converts non-points), directly or through a callee."""
        M = self.M
        new = M.funcs.get("polygon.Point2D.__new__")
        returns_same = False
        if new is not None:
            rooted = set(new.params[1:])
            for n in ast.walk(new.node):          # locals bound to (an element of) an argument
                if isinstance(n, ast.Assign) and isinstance(n.value, (ast.Name, ast.Subscript)) and pat.root_name(n.value) in rooted:
                    rooted |= {t.id for t in n.targets if isinstance(t, ast.Name)}
            for n in ast.walk(new.node):
                if isinstance(n, ast.Return) and n.value is not None:
                    vals = [n.value.body, n.value.orelse] if isinstance(n.value, ast.IfExp) else [n.value]
                    if any(isinstance(v, (ast.Name, ast.Subscript)) and pat.root_name(v) in rooted for v in vals):
                        returns_same = True
        caps = {q: set() for q in M.funcs}
        if not (returns_same and self.premise):
            return caps
        for _ in range(4):
            changed = False
            for q, fn in M.funcs.items():
                if q in ("polygon.Point2D.__new__", "polygon.Point2D.__init__"):
                    continue
                inf = self.ctx.typer.of(fn)
                par = pat.parents_of(fn.node)
                for call in ast.walk(fn.node):
                    if not isinstance(call, ast.Call):
                        continue
                    hits = []
                    f = call.func
                    is_ctor = (isinstance(f, ast.Name) and f.id == "Point2D") or \
                        (isinstance(f, ast.Attribute) and f.attr == "__class__" and fn.cls == "Point2D")
                    if is_ctor and len(call.args) == 1 and isinstance(call.args[0], ast.Name):
                        hits.append(call.args[0].id)
                    for t in inf.targets(call, ("call",)):
                        ps = [a.arg for a in t.node.args.posonlyargs + t.node.args.args]
                        if ps and t.kind in ("method", "getter", "setter", "class") and isinstance(call.func, ast.Attribute):
                            ps = ps[1:]
                        for pname, a in zip(ps, call.args):
                            if pname in caps.get(t.qname, ()) and isinstance(a, ast.Name):
                                hits.append(a.id)
                    for name in hits:
                        if name not in fn.params or name in caps[q]:
                            continue
                        # guarded by `if not isinstance(name, Point2D)`: only non-points are converted
                        guarded, node = False, call
                        while id(node) in par and par[id(node)] is not None:
                            parent = par[id(node)]
                            if isinstance(parent, ast.If) and node in parent.body:
                                t0, neg = pat._strip_not(parent.test)
                                if neg and isinstance(t0, ast.Call) and pat.is_name(t0.func, "isinstance") and t0.args \
                                        and pat.is_name(t0.args[0], name):
                                    guarded = True
                            node = parent
                        if not guarded:
                            caps[q].add(name)
                            changed = True
            if not changed:
                break
        return caps

    # -- the premise: Point2D's non-in-place operators copy their operand through a capping constructor
    def _premise(self):
        M = self.M
        init = M.funcs.get("polygon.Point2D.__init__")
        if init is None:
            return {}
        scope, todo = set(), [init.qname]
        while todo:                                   # the constructor and the Point2D helpers it calls
            q = todo.pop()
            if q in scope or q not in M.funcs or M.funcs[q].cls != "Point2D":
                continue
            scope.add(q)
            todo += list(self.ctx.graph.callees(q))
        caps = any(isinstance(n, ast.Call) and isinstance(n.func, ast.Attribute) and n.func.attr == "limit_denominator"
                   for q in scope for n in ast.walk(M.funcs[q].node))
        if not caps:
            return {}
        copying = {}
        for op in ("__add__", "__sub__", "__mul__", "__rmul__", "__truediv__", "__neg__"):
            fn = M.funcs.get(f"polygon.Point2D.{op}")
            if fn is None:
                continue
            # copies `self` (directly, or through another operator of the class that does)
            txt = [U(n) for n in ast.walk(fn.node) if isinstance(n, ast.Call)]
            direct = any(t.startswith(("self.__copy__(", "copy(self", "deepcopy(self", "self.__deepcopy__(", "Point2D(self",
                                       "self.__class__(self")) for t in txt)
            via = any(t.startswith(("self.__mul__(", "self.__add__(", "self.__sub__(")) for t in txt)
            if direct or via:
                copying[op] = True
        return copying

    # -- per-function environment of possibly point-valued names (flow-insensitive, may)
    def _env(self, fn):
        inf = self.ctx.typer.of(fn)
        env = dict(self.pparams.get(fn.qname, {}))
        for _ in range(4):
            before = dict(env)
            for n in ast.walk(fn.node):
                if isinstance(n, ast.Assign):
                    k = self.kind(fn, inf, n.value, env)
                    for t in n.targets:
                        self._bind(t, k, env)
                elif isinstance(n, ast.AnnAssign) and n.value is not None:
                    self._bind(n.target, self.kind(fn, inf, n.value, env), env)
                elif isinstance(n, ast.AugAssign) and isinstance(n.target, ast.Name):
                    k = self.kind(fn, inf, ast.BinOp(left=n.target, op=n.op, right=n.value), env)
                    self._bind(n.target, k, env)
                elif isinstance(n, (ast.For, ast.comprehension)):
                    self._bind_iter(fn, inf, n.target, n.iter, env)
                elif isinstance(n, ast.NamedExpr):
                    self._bind(n.target, self.kind(fn, inf, n.value, env), env)
            if env == before:
                break
        return env

    def _bind(self, t, k, env):
        if k is None:
            return
        if isinstance(t, ast.Name):
            env[t.id] = _join(env.get(t.id), k)
        elif isinstance(t, (ast.Tuple, ast.List)) and k == PS:
            for e in t.elts:
                self._bind(e.value if isinstance(e, ast.Starred) else e, PS if isinstance(e, ast.Starred) else PV, env)

    def _bind_iter(self, fn, inf, target, it, env):
        if isinstance(it, ast.Call) and isinstance(it.func, ast.Name) and it.func.id == "enumerate" and it.args \
                and isinstance(target, (ast.Tuple, ast.List)) and len(target.elts) == 2:
            return self._bind_iter(fn, inf, target.elts[1], it.args[0], env)
        if isinstance(it, ast.Call) and isinstance(it.func, ast.Name) and it.func.id == "zip" \
                and isinstance(target, (ast.Tuple, ast.List)) and len(target.elts) == len(it.args):
            for t, a in zip(target.elts, it.args):
                self._bind_iter(fn, inf, t, a, env)
            return
        if self.kind(fn, inf, it, env) == PS:
            self._bind(target, PV, env)

    def kind(self, fn, inf, e, env):
        """None (a number / something else) | PV (may be a point) | PS (may be a sequence of points)"""
        if isinstance(e, ast.Name):
            if e.id in env:
                return env[e.id]
        if isinstance(e, (ast.Constant, ast.Compare, ast.BoolOp, ast.JoinedStr)):
            return None
        try:
            t = inf.typeof(e)
        except Exception:
            t = None
        if t is not None:
            cs = self.ctx.typer.classes_of(t)
            if cs and cs == {"Point2D"}:
                return PV
            if isinstance(t, tuple) and t and t[0] in ("tup", "seq", "list"):
                from .model import elem
                try:
                    ce = self.ctx.typer.classes_of(elem(t))
                except Exception:
                    ce = None
                if ce and ce == {"Point2D"}:
                    return PS
        if isinstance(e, ast.Attribute) and e.attr in SEQ_ATTRS:
            return PS
        if isinstance(e, ast.Subscript):
            k = self.kind(fn, inf, e.value, env)
            if k == PS:
                return PS if isinstance(e.slice, ast.Slice) else PV
            return None
        if isinstance(e, ast.Starred):
            return self.kind(fn, inf, e.value, env)
        if isinstance(e, (ast.Tuple, ast.List)):
            ks = [self.kind(fn, inf, x, env) for x in e.elts]
            return PS if any(k == PV for k in ks) else None
        if isinstance(e, (ast.ListComp, ast.GeneratorExp)):
            return PS if self.kind(fn, inf, e.elt, dict(env)) == PV else None
        if isinstance(e, ast.IfExp):
            return _join(self.kind(fn, inf, e.body, env), self.kind(fn, inf, e.orelse, env))
        if isinstance(e, ast.UnaryOp) and isinstance(e.op, (ast.USub, ast.UAdd)):
            return self.kind(fn, inf, e.operand, env)
        if isinstance(e, ast.BinOp):
            l, r = self.kind(fn, inf, e.left, env), self.kind(fn, inf, e.right, env)
            if isinstance(e.op, (ast.Add, ast.Sub)):
                if PS in (l, r):
                    return PS               # list concatenation
                return PV if PV in (l, r) else None
            if isinstance(e.op, (ast.Mult, ast.Div)):
                if l == PV and r == PV:
                    return None             # inner product
                if PS in (l, r):
                    return PS if None in (l, r) else None
                return PV if PV in (l, r) else None
            if isinstance(e.op, ast.MatMult):
                return PS if (l == PS) != (r == PS) else None
            return None
        if isinstance(e, ast.Call):
            f = e.func
            name = f.attr if isinstance(f, ast.Attribute) else f.id if isinstance(f, ast.Name) else None
            if isinstance(f, ast.Name) and name in SEQ_CALLS and e.args:
                return PS if self.kind(fn, inf, e.args[0], env) == PS else None
            if isinstance(f, ast.Name) and name in ("copy", "deepcopy") and e.args:
                return self.kind(fn, inf, e.args[0], env)
            if isinstance(f, ast.Attribute) and U(f.value) in ("np", "numpy") and name in NP_LINEAR:
                ks = [self.kind(fn, inf, a, env) for a in e.args[:2]]
                n_ps = sum(1 for k in ks if k == PS)
                return PS if n_ps == 1 else None
            if isinstance(f, ast.Name) and name == "Point2D":
                return PV
            k = None
            for t in inf.targets(e, ("call",)):
                k = _join(k, self.rets.get(t.qname))
            return k
        return None

    # -- derived values of one function
    def derived_names(self, fn):
        names = set()
        for _ in range(4):
            before = set(names)
            for n in ast.walk(fn.node):
                if isinstance(n, ast.AugAssign) and isinstance(n.op, ARITH) and isinstance(n.target, ast.Name):
                    names.add(n.target.id)
                elif isinstance(n, ast.Assign) and self.is_derived(n.value, names):
                    for t in n.targets:
                        if isinstance(t, ast.Name):
                            names.add(t.id)
            if names == before:
                break
        return names

    @staticmethod
    def is_derived(e, names):
        if isinstance(e, ast.BinOp) and isinstance(e.op, ARITH):
            return True
        if isinstance(e, ast.UnaryOp) and isinstance(e.op, ast.USub):
            return CapFlow.is_derived(e.operand, names)
        if isinstance(e, ast.Name):
            return e.id in names
        if isinstance(e, ast.IfExp):
            return CapFlow.is_derived(e.body, names) or CapFlow.is_derived(e.orelse, names)
        return False

    def findings(self, fn):
        """[(node, text)] -- non-in-place operators whose Point2D receiver is a derived value"""
        if fn.cls == "Point2D" or not self.premise:
            return []
        inf = self.ctx.typer.of(fn)
        env = self.envs.get(fn.qname) or self._env(fn)
        names = self.derived_names(fn)
        out = []
        for n in ast.walk(fn.node):
            if isinstance(n, ast.BinOp) and isinstance(n.op, ARITH):
                l, r = self.kind(fn, inf, n.left, env), self.kind(fn, inf, n.right, env)
                opn = {ast.Add: "__add__", ast.Sub: "__sub__", ast.Mult: "__mul__", ast.Div: "__truediv__"}[type(n.op)]
                if l == PV and self.is_derived(n.left, names) and self.premise.get(opn):
                    out.append((n, f"`{U(n)[:60]}`: the derived point `{U(n.left)[:30]}` is copied through the capped "
                                   f"constructor by Point2D.{opn} before the operation"))
                elif isinstance(n.op, ast.Mult) and r == PV and l != PV and self.is_derived(n.right, names) \
                        and self.premise.get("__rmul__"):
                    out.append((n, f"`{U(n)[:60]}`: the derived point `{U(n.right)[:30]}` is copied through the capped "
                                   f"constructor by Point2D.__rmul__ before the operation"))
            elif isinstance(n, ast.Call):
                # a derived point handed to a callee that passes it through the capping constructor in place
                for t in inf.targets(n, ("call",)):
                    ps = [a.arg for a in t.node.args.posonlyargs + t.node.args.args]
                    if ps and t.kind in ("method", "getter", "setter", "class") and isinstance(n.func, ast.Attribute):
                        ps = ps[1:]
                    for pname, a in zip(ps, n.args):
                        if pname in self.caps.get(t.qname, ()) and self.kind(fn, inf, a, env) == PV and self.is_derived(a, names):
                            out.append((n, f"`{U(n)[:60]}`: the derived point `{U(a)[:30]}` is rounded in place to the "
                                           f"coordinate cap by {t.qname} (Point2D(p) re-initialises p itself)"))
                f = n.func
                if isinstance(f, ast.Name) and f.id == "Point2D" and len(n.args) == 1 \
                        and self.kind(fn, inf, n.args[0], env) == PV and self.is_derived(n.args[0], names) \
                        and self.caps.get("__ctor__") is not None:
                    pass
            elif isinstance(n, ast.UnaryOp) and isinstance(n.op, ast.USub) and self.premise.get("__neg__"):
                if self.kind(fn, inf, n.operand, env) == PV and self.is_derived(n.operand, names):
                    out.append((n, f"`{U(n)[:60]}`: the derived point is copied through the capped constructor by "
                                   f"Point2D.__neg__"))
        return out


def capflow(ctx):
    return ctx.engine("capflow", CapFlow)
