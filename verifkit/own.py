"""Engine O: flow-sensitive, two-level ownership / effect analysis.

Abstract value of an expression = (own, cont)
   own  : set of descriptors the object itself may *be*
   cont : set of descriptors whose state is reachable *through* the object
a descriptor is (parameter name, level) with level 0 = the parameter object
itself, 1 = something strictly reachable from it.

Per function summary (fixpoint over the resolved call graph):
   ret     : descriptors the result may be / may contain (empty = fresh)
   mut[p]  : {(leaf field, 'own'|'deep', gated)} writes that may hit state of p
   cap[p]  : descriptors that may become reachable from p (captures)
`gated` = the write happens below a gate function (JordanCurve.split).
"""
from __future__ import annotations

import ast
import collections

from . import model as P

IMMUTABLE = {"SingletonShape", "EmptyShape", "WholeShape"}
GATES = {"jordancurve.JordanCurve.split"}
PURE = {"float", "int", "len", "round", "isinstance", "id", "str", "bool", "range", "Fraction",
        "getattr", "type", "print", "iter", "ValueError", "TypeError", "hash", "repr", "any", "all",
        "NotImplementedError", "AssertionError", "RuntimeError", "callable"}
CONTAINER = {"tuple", "list", "sorted", "reversed", "zip", "enumerate", "set", "sum", "min", "max",
             "dict", "next", "frozenset"}

EMPTY = (frozenset(), frozenset())


def V(own=(), cont=()):
    return (frozenset(own), frozenset(cont))


def join(a, b):
    return (a[0] | b[0], a[1] | b[1])


def elem(v):
    """something strictly reachable from v"""
    return (v[1], frozenset((p, 1) for p, _ in v[1]))


def box(*vs):
    """fresh container holding vs"""
    c = frozenset()
    for v in vs:
        c |= v[0] | v[1]
    return (frozenset(), c)


class Summ:
    def __init__(self):
        self.ret = EMPTY
        self.mut = collections.defaultdict(set)
        self.cap = collections.defaultdict(set)
        self.why = {}     # (param, field, depth, gated) -> (lineno, text, callee qname or None)

    def key(self):
        return (self.ret,
                frozenset((k, frozenset(v)) for k, v in self.mut.items() if v),
                frozenset((k, frozenset(v)) for k, v in self.cap.items() if v))


class Ownership:
    def __init__(self, ctx):
        self.ctx = ctx
        self.m = ctx.model
        self.t = ctx.typer
        self.S = {q: Summ() for q in self.m.funcs}
        self.recording = False
        self.events = collections.defaultdict(list)   # q -> [event dict] (every effect occurrence, per node)
        self.rounds = self.fixpoint()
        self.recording = True
        for q in self.m.funcs:
            Own(self, q).run()
        self.recording = False

    def fixpoint(self):
        for it in range(60):
            before = {q: s.key() for q, s in self.S.items()}
            for q in self.m.funcs:
                Own(self, q).run()
            if all(self.S[q].key() == before[q] for q in self.S):
                return it + 1
        raise P.AnalysisError("ownership fixpoint did not converge in 60 rounds")

    def immutable_type(self, t):
        cs = self.t.classes_of(t)
        return bool(cs) and all(c in IMMUTABLE for c in cs)

    def explain(self, q, param, key, depth=0, seen=None):
        """call path from function q down to the statement that performs the
        write: list of (function qname, lineno, statement text)"""
        seen = seen or set()
        why = self.S[q].why.get((param,) + key)
        if why is None:
            return [(q, 0, "")]
        lineno, text, callee, cparam, ckey = why
        step = (q, lineno, text)
        if callee is None or (callee, cparam, ckey) in seen or depth > 14:
            return [step]
        seen.add((callee, cparam, ckey))
        return [step] + self.explain(callee, cparam, ckey, depth + 1, seen)

    @staticmethod
    def fmt_path(path):
        return [f"{q} l.{l} `{t}`" for q, l, t in path]


class Own:
    def __init__(self, eng, q):
        self.eng = eng
        self.q = q
        self.fn = eng.m.funcs[q]
        self.inf = eng.t.of(self.fn)
        self.summ = eng.S[q]
        self.ps = self.fn.params
        self.env = {}
        for p in self.ps:
            self.env[p] = V([(p, 0)], [(p, 1)])
        if self.ps and (self.fn.kind == "class" or self.fn.name == "__new__"
                        or (self.fn.cls in IMMUTABLE and self.fn.kind != "static")):
            self.env[self.ps[0]] = EMPTY
        self.retv = EMPTY

    # ------------------------------------------------------------------
    def typ(self, e):
        try:
            return self.inf.typeof(e)
        except Exception:
            return P.UNK

    def targets(self, node, kinds):
        return [tg for k, tg in self.inf.by_node.get(id(node), []) if k in kinds and isinstance(tg, list)]

    def run(self):
        self.block(self.fn.node.body)
        ps = set(self.ps)
        self.summ.ret = join(self.summ.ret, (frozenset(d for d in self.retv[0] if d[0] in ps),
                                             frozenset(d for d in self.retv[1] if d[0] in ps)))

    # ---------- effects
    def effect(self, descs, field, depth, gated, node, via=None):
        for (p, lvl) in descs:
            if p not in self.ps:
                continue
            d = "own" if (depth == "own" and lvl == 0) else "deep"
            k = (field, d, gated)
            if self.eng.recording:
                self.eng.events[self.q].append({"node": node, "param": p, "lvl": lvl, "field": field, "depth": d,
                                                "gated": gated, "via": via})
            if k not in self.summ.mut[p]:
                self.summ.mut[p].add(k)
                self.summ.why[(p,) + k] = (getattr(node, "lineno", 0),
                                           ast.unparse(node)[:70].replace("\n", " "),) + (via or (None, None, None))

    def write_own(self, v, field, node):
        self.effect(v[0], field, "own", False, node)

    def add_contents(self, target_expr, tv, new):
        if not new:
            return
        ps = set(self.ps)
        for (p, lvl) in tv[0]:
            if p in ps:
                self.summ.cap[p] |= {d for d in new if d[0] in ps and d != (p, 0)}
        root = target_expr
        while isinstance(root, (ast.Subscript, ast.Attribute)):
            root = root.value
        if isinstance(root, ast.Name) and root.id in self.env:
            o, c = self.env[root.id]
            self.env[root.id] = (o, c | frozenset(new))

    @staticmethod
    def mapdescs(descs, argmap):
        out = frozenset()
        for (q, lvl) in descs:
            a = argmap.get(q)
            if a is None:
                continue
            out |= a[0] if lvl == 0 else a[1]
        return out

    def apply(self, fn, argmap, node, argexprs=None):
        sm = self.eng.S[fn.qname]
        gate = fn.qname in GATES
        for q, effs in list(sm.mut.items()):
            a = argmap.get(q)
            if a is None:
                continue
            for (field, depth, g) in list(effs):
                self.effect(a[0] if depth == "own" else a[1], field, depth, g or gate, node,
                            via=(fn.qname, q, (field, depth, g)))
        ps = set(self.ps)
        for q, descs in list(sm.cap.items()):
            a = argmap.get(q)
            if a is None:
                continue
            new = self.mapdescs(descs, argmap)
            ex = (argexprs or {}).get(q)
            if ex is not None:
                self.add_contents(ex, a, new)
            else:
                for (p, lvl) in a[0]:
                    if p in ps:
                        self.summ.cap[p] |= {d for d in new if d[0] in ps and d != (p, 0)}
        return (self.mapdescs(sm.ret[0], argmap), self.mapdescs(sm.ret[1], argmap))

    def bind(self, fn, recv, args, kwargs, recv_expr=None, arg_exprs=()):
        ps = fn.params
        m, ex, i = {}, {}, 0
        if ps and fn.has_self and fn.kind != "static":
            m[ps[0]] = recv if recv is not None else EMPTY
            ex[ps[0]] = recv_expr
            i = 1
        va = fn.node.args.vararg.arg if fn.node.args.vararg else None
        for j, a in enumerate(args):
            if i < len(ps) and ps[i] != va:
                m[ps[i]] = a
                ex[ps[i]] = arg_exprs[j] if j < len(arg_exprs) else None
                i += 1
            elif va:
                m[va] = join(m.get(va, EMPTY), box(a))
        for k, v in kwargs.items():
            if k in ps:
                m[k] = v
        return m, ex

    def bind_iteration(self, target, iter_expr, itv):
        """bind a loop / comprehension target to the elements of iter_expr; zip(...) and enumerate(...) are bound
        position-wise so that a fresh list zipped with an operand-owned one stays fresh"""
        if isinstance(iter_expr, ast.Call) and isinstance(iter_expr.func, ast.Name) and isinstance(target, (ast.Tuple, ast.List)):
            if iter_expr.func.id == "zip" and len(iter_expr.args) == len(target.elts) \
                    and all(k.arg == "strict" for k in iter_expr.keywords):
                for t, a in zip(target.elts, iter_expr.args):
                    self.bind_iteration(t, a, self.expr(a))
                return
            if iter_expr.func.id == "enumerate" and len(target.elts) == 2 and iter_expr.args:
                self.store(target.elts[0], EMPTY)
                self.bind_iteration(target.elts[1], iter_expr.args[0], self.expr(iter_expr.args[0]))
                return
        self.store(target, elem(itv) if itv != EMPTY else EMPTY)

    # ---------- statements (flow sensitive)
    def block(self, body):
        for st in body:
            self.stmt(st)

    @staticmethod
    def joinenv(e1, e2):
        out = {}
        for k in set(e1) | set(e2):
            out[k] = join(e1.get(k, EMPTY), e2.get(k, EMPTY))
        return out

    def store(self, tgt, v):
        if isinstance(tgt, ast.Name):
            self.env[tgt.id] = v
        elif isinstance(tgt, (ast.Tuple, ast.List)):
            for e in tgt.elts:
                self.store(e, elem(v) if v != EMPTY else EMPTY)
        elif isinstance(tgt, ast.Starred):
            self.store(tgt.value, v)
        elif isinstance(tgt, ast.Attribute):
            base = self.expr(tgt.value)
            sets = self.targets(tgt, ("setter",))
            if sets:
                for fns in sets:
                    for fn in fns:
                        m, ex = self.bind(fn, base, [v], {}, tgt.value, [None])
                        self.apply(fn, m, tgt, ex)
            else:
                self.write_own(base, self.inf.mangle(tgt.attr), tgt)
                self.add_contents(tgt.value, base, v[0] | v[1])
        elif isinstance(tgt, ast.Subscript):
            base = self.expr(tgt.value)
            self.expr(tgt.slice)
            self.write_own(base, "[item]", tgt)
            self.add_contents(tgt.value, base, v[0] | v[1])

    def stmt(self, st):
        if isinstance(st, ast.Assign):
            v = self.expr(st.value)
            for t in st.targets:
                self.store(t, v)
        elif isinstance(st, ast.AnnAssign):
            if st.value is not None:
                self.store(st.target, self.expr(st.value))
        elif isinstance(st, ast.AugAssign):
            v = self.expr(st.value)
            if isinstance(st.target, ast.Name):
                cur = self.env.get(st.target.id, EMPTY)
                res = None
                for fns in self.targets(st, ("dunder",)):
                    for fn in fns:
                        m, ex = self.bind(fn, cur, [v], {}, st.target, [st.value])
                        r = self.apply(fn, m, st, ex)
                        res = r if res is None else join(res, r)
                if res is None:
                    t = self.typ(st.target)
                    if t in (P.NUM, P.BOOL):
                        res = EMPTY
                    elif isinstance(st.op, ast.Add):
                        res = (cur[0], cur[1] | v[0] | v[1])
                        self.write_own(cur, "[container]", st)
                    elif isinstance(st.op, ast.BitOr):
                        res = join(cur, v)
                    else:
                        res = cur
                self.env[st.target.id] = res
            elif isinstance(st.target, ast.Attribute):
                base = self.expr(st.target.value)
                self.write_own(base, self.inf.mangle(st.target.attr), st)
            else:
                base = self.expr(st.target.value)
                self.write_own(base, "[item]", st)
        elif isinstance(st, ast.For):
            it = self.expr(st.iter)
            for _ in range(3):
                before = dict(self.env)
                self.bind_iteration(st.target, st.iter, it)
                self.block(st.body)
                self.env = self.joinenv(before, self.env)
            self.block(st.orelse)
        elif isinstance(st, ast.While):
            for _ in range(3):
                before = dict(self.env)
                self.expr(st.test)
                self.block(st.body)
                self.env = self.joinenv(before, self.env)
            self.block(st.orelse)
        elif isinstance(st, ast.If):
            self.expr(st.test)
            e0 = dict(self.env)
            self.block(st.body)
            e1 = self.env
            self.env = dict(e0)
            self.block(st.orelse)
            self.env = self.joinenv(e1, self.env)
        elif isinstance(st, ast.Try):
            e0 = dict(self.env)
            self.block(st.body)
            acc = self.env
            for h in st.handlers:
                self.env = self.joinenv(e0, acc)
                self.block(h.body)
                acc = self.joinenv(acc, self.env)
            self.env = acc
            self.block(st.orelse)
            self.block(st.finalbody)
        elif isinstance(st, ast.With):
            for it in st.items:
                v = self.expr(it.context_expr)
                if it.optional_vars is not None:
                    self.store(it.optional_vars, v)
            self.block(st.body)
        elif isinstance(st, (ast.FunctionDef, ast.AsyncFunctionDef)):
            # a closure: analysed at each call in the state of the call (below); remembered by name
            self.__dict__.setdefault("localfns", {})[st.name] = st
        elif isinstance(st, ast.Return):
            if st.value is not None:
                self.retv = join(self.retv, self.expr(st.value))
        elif isinstance(st, ast.Expr):
            self.expr(st.value)
        elif isinstance(st, ast.Assert):
            self.expr(st.test)
        elif isinstance(st, ast.Delete):
            for t in st.targets:
                if isinstance(t, ast.Subscript):
                    self.write_own(self.expr(t.value), "[item]", st)
                elif isinstance(t, ast.Attribute):
                    self.write_own(self.expr(t.value), self.inf.mangle(t.attr), st)

    # ---------- expressions
    def expr(self, e):
        if e is None or isinstance(e, (ast.Constant, ast.JoinedStr)):
            return EMPTY
        if isinstance(e, ast.Name):
            t = self.typ(e)
            if t in (P.NUM, P.BOOL) or self.eng.immutable_type(t):
                return EMPTY
            return self.env.get(e.id, EMPTY)
        if isinstance(e, ast.Attribute):
            base = self.expr(e.value)
            t = self.typ(e)
            res = None
            for fns in self.targets(e, ("getter",)):
                for fn in fns:
                    m, ex = self.bind(fn, base, [], {}, e.value)
                    r = self.apply(fn, m, e, ex)
                    res = r if res is None else join(res, r)
            if t in (P.NUM, P.BOOL) or self.eng.immutable_type(t):
                return EMPTY
            if isinstance(t, tuple) and t and t[0] in ("bound", "type"):
                return base
            return elem(base) if res is None else res
        if isinstance(e, ast.Subscript):
            base = self.expr(e.value)
            self.expr(e.slice)
            t = self.typ(e)
            if t in (P.NUM, P.BOOL):
                return EMPTY
            if isinstance(e.slice, ast.Slice):
                return (frozenset(), base[1])
            return elem(base)
        if isinstance(e, ast.Slice):
            for x in (e.lower, e.upper, e.step):
                self.expr(x)
            return EMPTY
        if isinstance(e, (ast.Tuple, ast.List, ast.Set)):
            return box(*[self.expr(x) for x in e.elts])
        if isinstance(e, ast.Dict):
            return box(*[self.expr(x) for x in list(e.keys) + list(e.values) if x is not None])
        if isinstance(e, (ast.ListComp, ast.GeneratorExp, ast.SetComp)):
            saved = dict(self.env)
            for g in e.generators:
                it = self.expr(g.iter)
                self.bind_iteration(g.target, g.iter, it)
                for c in g.ifs:
                    self.expr(c)
            r = box(self.expr(e.elt))
            self.env = saved
            return r
        if isinstance(e, ast.IfExp):
            self.expr(e.test)
            return join(self.expr(e.body), self.expr(e.orelse))
        if isinstance(e, ast.BoolOp):
            r = EMPTY
            for v in e.values:
                r = join(r, self.expr(v))
            return r
        if isinstance(e, ast.NamedExpr):
            v = self.expr(e.value)
            self.store(e.target, v)
            return v
        if isinstance(e, ast.Compare):
            l = self.expr(e.left)
            rs = [self.expr(c) for c in e.comparators]
            for fns in self.targets(e, ("dunder",)):
                for fn in fns:
                    if fn.name == "__contains__":
                        m, ex = self.bind(fn, rs[0], [l], {}, e.comparators[0], [e.left])
                    else:
                        lt = self.typ(e.left)
                        if self.eng.t.classes_of(lt):
                            m, ex = self.bind(fn, l, [rs[0]], {}, e.left, [e.comparators[0]])
                        else:
                            m, ex = self.bind(fn, rs[0], [l], {}, e.comparators[0], [e.left])
                    self.apply(fn, m, e, ex)
            return EMPTY
        if isinstance(e, ast.UnaryOp):
            o = self.expr(e.operand)
            res = None
            for fns in self.targets(e, ("dunder",)):
                for fn in fns:
                    m, ex = self.bind(fn, o, [], {}, e.operand)
                    r = self.apply(fn, m, e, ex)
                    res = r if res is None else join(res, r)
            if res is not None:
                return res
            return EMPTY if isinstance(e.op, ast.Not) or self.typ(e) in (P.NUM, P.BOOL) else o
        if isinstance(e, ast.BinOp):
            l = self.expr(e.left)
            r = self.expr(e.right)
            res = None
            lt = self.typ(e.left)
            for fns in self.targets(e, ("dunder",)):
                for fn in fns:
                    if self.eng.t.classes_of(lt):
                        m, ex = self.bind(fn, l, [r], {}, e.left, [e.right])
                    else:
                        m, ex = self.bind(fn, r, [l], {}, e.right, [e.left])
                    rr = self.apply(fn, m, e, ex)
                    res = rr if res is None else join(res, rr)
            if res is not None:
                return res
            if self.typ(e) in (P.NUM, P.BOOL):
                return EMPTY
            if isinstance(e.op, (ast.Add, ast.Mult)):
                return (frozenset(), l[1] | r[1])    # sequence concatenation / repetition
            return EMPTY
        if isinstance(e, ast.Call):
            return self.call(e)
        if isinstance(e, ast.Starred):
            return self.expr(e.value)
        if isinstance(e, ast.Lambda):
            return EMPTY
        r = EMPTY
        for c in ast.iter_child_nodes(e):
            if isinstance(c, ast.expr):
                r = join(r, self.expr(c))
        return r

    def call(self, e):
        M = self.eng.m
        f = e.func
        args = [self.expr(a) for a in e.args]
        kwargs = {k.arg: self.expr(k.value) for k in e.keywords if k.arg}
        t = self.typ(e)
        recv = None
        recv_expr = None
        if isinstance(f, ast.Attribute):
            ft = self.typ(f)
            if not (isinstance(ft, tuple) and ft and ft[0] == "bound" and ft[3] == "cls"):
                recv = self.expr(f.value)
                recv_expr = f.value
        elif isinstance(f, ast.Call) and isinstance(f.func, ast.Name) and f.func.id == "getattr" and f.args:
            recv = self.expr(f.args[0])          # getattr(obj, name)(...): obj is the receiver
            recv_expr = f.args[0]
        res = None
        is_map_ctor = (isinstance(f, ast.Name) and f.id == "map" and e.args
                       and isinstance(e.args[0], ast.Name) and e.args[0].id in M.classes)
        for kind, tg in self.inf.by_node.get(id(e), []):
            if not isinstance(tg, list):
                continue
            if kind in ("call", "dunder", "cha"):
                for fn in tg:
                    nm = fn.name
                    if kind == "dunder" and isinstance(f, ast.Name) and f.id in (
                            "copy", "float", "abs", "bool", "tuple", "list", "map", "sorted"):
                        a = args[-1] if f.id == "map" else args[0]
                        ax = e.args[-1] if f.id == "map" else e.args[0]
                        if f.id == "map":
                            a = elem(a)
                        m, ex = self.bind(fn, a, [], {}, ax)
                    elif kind == "dunder" and nm == "__call__":
                        rv = self.env.get(f.id, EMPTY) if isinstance(f, ast.Name) else self.expr(f)
                        m, ex = self.bind(fn, rv, args, kwargs, f, e.args)
                    else:
                        m, ex = self.bind(fn, recv, args, kwargs, recv_expr, e.args)
                    r = self.apply(fn, m, e, ex)
                    res = r if res is None else join(res, r)
            elif kind == "ctor" and not is_map_ctor:
                cname = tg[0].cls if tg else None
                r = self.ctor(cname, tg, args, kwargs, e)
                res = r if res is None else join(res, r)
        if is_map_ctor:
            cname = e.args[0].id
            tg = self.inf.ctor_targets(cname)
            return box(self.ctor(cname, tg, [elem(args[1])], {}, e, is_map=True))
        if res is not None:
            if isinstance(f, ast.Name) and f.id in ("float", "bool", "abs") and t in (P.NUM, P.BOOL):
                return EMPTY
            if isinstance(f, ast.Name) and f.id in ("tuple", "list", "sorted", "map"):
                return (frozenset(), res[0] | res[1] | (args[-1][1]))
            if t in (P.NUM, P.BOOL) or self.eng.immutable_type(t):
                return EMPTY
            return res
        if isinstance(f, ast.Name) and f.id in self.__dict__.get("localfns", {}) and self.__dict__.get("_closure_depth", 0) < 3:
            # a closure of this function: its body runs in the state of the call; what it returns (or yields) comes back
            d = self.localfns[f.id]
            a = d.args
            if not (a.vararg or a.kwarg or a.kwonlyargs) and len(args) <= len(a.posonlyargs + a.args) \
                    and not any(isinstance(x, ast.Starred) for x in e.args) and not kwargs:
                saved_env, saved_ret = dict(self.env), self.retv
                self._closure_depth = self.__dict__.get("_closure_depth", 0) + 1
                try:
                    for prm, val in zip(a.posonlyargs + a.args, args):
                        self.env[prm.arg] = val
                    self.retv = EMPTY
                    self.block(d.body)
                    got = self.retv
                    for n in ast.walk(d):
                        if isinstance(n, ast.Yield) and n.value is not None:
                            got = join(got, box(self.expr(n.value)))
                finally:
                    self._closure_depth -= 1
                    self.retv = saved_ret
                    shadow = {prm.arg for prm in a.posonlyargs + a.args}
                    merged = dict(saved_env)
                    for k, v in self.env.items():
                        if k not in shadow and k in saved_env:
                            merged[k] = join(saved_env[k], v)
                    self.env = merged
                return got
        if isinstance(f, ast.Name):
            if f.id in PURE:
                return EMPTY
            if f.id in CONTAINER:
                return (frozenset(), frozenset().union(*[a[1] for a in args]) if args else frozenset())
            if f.id == "map":
                return (frozenset(), frozenset().union(*[a[1] for a in args[1:]]) if len(args) > 1 else frozenset())
            if f.id == "copy":
                return args[0] if args else EMPTY      # copy of an untyped object: assume alias (sound)
            if f.id == "super":
                return self.env.get(self.ps[0], EMPTY) if self.ps else EMPTY
            if f.id in P.EXT_ROOTS:
                return EMPTY
            return box(*args)
        if isinstance(f, ast.Attribute):
            root = ast.unparse(f.value).split(".")[0].split("(")[0]
            if root in ("itertools", "chain", "functools", "operator", "copy") and root not in self.env:
                # pure standard-library plumbing (chain.from_iterable, functools.reduce, operator.or_ ...): whatever
                # went in may come out
                return box(*(list(args) + list(kwargs.values())))
            if root in P.EXT_ROOTS or self.typ(f.value) == P.EXT:
                return EMPTY
            if f.attr in ("append", "insert", "add", "extend"):
                self.write_own(recv, "[container]", e)
                new = frozenset()
                for a in args:
                    new |= (a[0] | a[1]) if f.attr != "extend" else a[1]
                self.add_contents(f.value, recv, new)
                return EMPTY
            if f.attr in ("pop", "remove", "clear", "sort", "reverse"):
                self.write_own(recv, "[container]", e)
                return elem(recv) if f.attr == "pop" else EMPTY
            return EMPTY
        return EMPTY

    def ctor(self, cname, tg, args, kwargs, e, is_map=False):
        if cname == "Point2D":
            if len(args) == 1:
                at = P.UNK
                if isinstance(e, ast.Call) and e.args and not is_map:
                    at = self.typ(e.args[0])
                if at == "Point2D" or at == P.UNK or (isinstance(at, tuple) and at and at[0] in ("union", "attr?")):
                    return args[0]     # Point2D.__new__ returns its argument when it is a Point2D
            return EMPTY
        if cname in IMMUTABLE:
            return EMPTY
        res = EMPTY
        cont = frozenset()
        for fn in tg:
            m, ex = self.bind(fn, EMPTY, args, kwargs, None, e.args if isinstance(e, ast.Call) and not is_map else ())
            r = self.apply(fn, m, e, ex)
            if fn.name == "__new__":
                res = join(res, r)
            selfp = fn.params[0]
            cont |= self.mapdescs(self.eng.S[fn.qname].cap.get(selfp, ()), m)
        return (res[0], res[1] | cont)


def ownership(ctx):
    return ctx.engine("own", Ownership)


def fmt(v):
    return "{" + ",".join(sorted(f"{p}{'*' if l else ''}" for p, l in v)) + "}"
