"""Names of the functions and methods of the repository the rules were written against (frozen when the rules were
confirmed by reading).  The rules anchor on these and stub them by name in their abstract runs, so the parse-time normal
forms never inline or drop a function of one of these names; helpers a later change introduces are not in the list
and are read through."""
KNOWN = frozenset(['DivideConnecteds', 'ShapeFromJordans', '__abs__', '__add__', '__and__', '__bool__', '__call__', '__contains__', '__contains_simple', '__copy__', '__deepcopy__', '__eq__', '__float__', '__getattr__', '__getitem__', '__iadd__', '__imul__', '__init__', '__intersection', '__invert__', '__isub__', '__iter__', '__itruediv__', '__mul__', '__neg__', '__new__', '__or__', '__repr__', '__rmul__', '__ror__', '__set_jordancurve', '__split_segment', '__str__', '__sub__', '__truediv__', '__xor__', '_contains_jordan', '_contains_point', '_contains_shape', 'and_shapes', 'area', 'bezier_and_bezier', 'bezier_caract_matrix', 'box', 'circle', 'clean', 'closed_linspace', 'comb', 'contains_jordan', 'contains_point', 'contains_shape', 'cross', 'ctrlpoints', 'degree', 'degree_decrease', 'derivate', 'eval', 'filter_distance', 'filter_parameters', 'filter_rotations', 'follow_path', 'from_ctrlpoints', 'from_full_curve', 'from_segments', 'from_vertices', 'gca', 'gcf', 'horner_method', 'indexs_to_jordan', 'inner', 'intersection', 'invert', 'is_rotation', 'jordans', 'lenght', 'lines', 'midpoints_one_shape', 'midpoints_shapes', 'move', 'newton_iteration', 'non_rational_bezier', 'non_rational_bezier_once', 'norm2', 'npts', 'open_linspace', 'or_shapes', 'patch_segment', 'path_jordan', 'path_shape', 'plot', 'plot_shape', 'point_on_curve', 'points', 'polygon', 'polynomial', 'pursue_path', 'regular_polygon', 'rotate', 'scale', 'segments', 'split', 'split_two_jordans', 'square', 'subshapes', 'triangle', 'vertical', 'vertices', 'weights', 'winding_number', 'winding_number_linear'])

# private fields of each class, in the order of their first store (the stand-in worlds of the rules name them)
FIELDS = {'BezierCurve': ['__ctrlpoints'], 'PlanarCurve': ['__planar'], 'JordanCurve': ['__lenght', '__segments'], 'ShapePloter': ['__fig', '__ax'], 'Point2D': ['_x', '_y'], 'SingletonShape': ['__instance'], 'DefinedShape': ['__box'], 'SimpleShape': ['__jordancurve'], 'ConnectedShape': ['__subshapes'], 'DisjointShape': ['__subshapes']}

# name-mangled private methods of each class: (number of parameters, the methods of the class that call them)
PRIVATE_METHODS = {'JordanCurve': {'__split_segment': (3, ['split']), '__intersection': (2, ['intersection'])}, 'SimpleShape': {'__set_jordancurve': (2, ['__init__']), '__contains_simple': (2, ['_contains_shape'])}}


def is_new_helper(name):
    """a function a later change added: not one of the baseline names (whatever its spelling -- a tidy-up may as well
    cut code into a *public* helper), and not a special method"""
    return name not in KNOWN and not (name.startswith("__") and name.endswith("__"))
