"""Parse-time normal form for higher-order spellings.

The engines read first-order Python: loops, comprehensions, operators, method calls.  A maintainer may write the same
thing with `map`, `operator.*`, `functools.partial / reduce`, `itertools.chain`, `itemgetter / attrgetter /
methodcaller`, small closures and one-expression private helpers.  This pass rewrites those spellings -- inside one
module, on the syntax tree, nothing is run -- into the first-order form:

  methodcaller("m", a)(x)  ->  x.m(a)          itemgetter(0, 1)(x) -> (x[0], x[1])       attrgetter("a")(x) -> x.a
  partial(f, a)(x)         ->  f(a, x)         operator.invert(x)  -> ~x   (and the other operator functions)
  map(f, xs)               ->  (f(x) for x in xs)                filter(f, xs) -> (x for x in xs if f(x))
  chain(a, b)              ->  (*a, *b)        chain.from_iterable(xs) -> (y for x in xs for y in x)
  name = <function value>; ... name(x) ...   ->  the function value at the use (single assignment, nothing it reads is
                                                  rebound afterwards); nested `def f(x): return e` likewise
  _helper(x) with `def _helper(p): return e` at module level   ->  e[p := x]
  generator helpers made of for / if nests around `yield e`     ->  generator expressions (then as above)
  `for t in xs: if c: return e` + `return d` helpers            ->  next((e for t in xs if c), d)
  v = reduce(f, xs, init)   ->  v = init; for x in xs: v = f(v, x)      (statement level; `+=`-form for operator.add..)
  for t in (e for s in xs): body   ->  for s in xs: t = e; body

Every rewrite is an equivalence of pure-Python semantics under the stated side conditions; where a side condition
fails the spelling is left alone (the engines then say `undecided`, never a wrong verdict).
"""
import ast
import copy

from .known_names import KNOWN

OPS_BIN = {"add": ast.Add, "sub": ast.Sub, "mul": ast.Mult, "truediv": ast.Div, "floordiv": ast.FloorDiv, "mod": ast.Mod,
           "or_": ast.BitOr, "and_": ast.BitAnd, "xor": ast.BitXor, "pow": ast.Pow, "matmul": ast.MatMult,
           "lshift": ast.LShift, "rshift": ast.RShift}
OPS_CMP = {"eq": ast.Eq, "ne": ast.NotEq, "lt": ast.Lt, "le": ast.LtE, "gt": ast.Gt, "ge": ast.GtE, "is_": ast.Is,
           "is_not": ast.IsNot}
OPS_UN = {"invert": ast.Invert, "inv": ast.Invert, "neg": ast.USub, "pos": ast.UAdd, "not_": ast.Not}
FUNC_MODULES = {"operator": "operator", "functools": "functools", "itertools": "itertools"}


def _is(e, mod, name):
    return isinstance(e, ast.Attribute) and e.attr == name and isinstance(e.value, ast.Name) and e.value.id == mod


def _name(i):
    return ast.Name(id=i, ctx=ast.Load())


def _simple(e):
    """an argument that may be duplicated / moved: no call, no side effect"""
    if isinstance(e, (ast.Name, ast.Constant)):
        return True
    if isinstance(e, ast.Attribute):
        return _simple(e.value)
    if isinstance(e, ast.Subscript):
        return _simple(e.value) and _simple(e.slice)
    if isinstance(e, ast.Tuple):
        return all(_simple(x) for x in e.elts)
    if isinstance(e, ast.UnaryOp):
        return _simple(e.operand)
    return False


class _Subst(ast.NodeTransformer):
    def __init__(self, mapping):
        self.mapping = mapping

    def visit_Name(self, node):
        if isinstance(node.ctx, ast.Load) and node.id in self.mapping:
            return copy.deepcopy(self.mapping[node.id])
        return node

    def visit_Lambda(self, node):
        inner = {a.arg for a in node.args.args + node.args.posonlyargs + node.args.kwonlyargs}
        saved = self.mapping
        self.mapping = {k: v for k, v in saved.items() if k not in inner}
        self.generic_visit(node)
        self.mapping = saved
        return node


def _count(body, name):
    return sum(1 for n in ast.walk(body) if isinstance(n, ast.Name) and n.id == name and isinstance(n.ctx, ast.Load))


def _bound_in(e):
    """names bound inside an expression (comprehension targets, lambda parameters, walrus)"""
    out = set()
    for n in ast.walk(e):
        if isinstance(n, ast.comprehension):
            out |= {t.id for t in ast.walk(n.target) if isinstance(t, ast.Name)}
        if isinstance(n, ast.Lambda):
            out |= {a.arg for a in n.args.args + n.args.posonlyargs + n.args.kwonlyargs}
        if isinstance(n, ast.NamedExpr) and isinstance(n.target, ast.Name):
            out.add(n.target.id)
    return out


def _free(e):
    bound = _bound_in(e)
    return {n.id for n in ast.walk(e) if isinstance(n, ast.Name) and isinstance(n.ctx, ast.Load)} - bound


_fresh = [0]


def _rename_bound(e):
    """give the names an expression binds itself fresh spellings (no capture when it is moved into other code)"""
    bound = _bound_in(e)
    if not bound:
        return e
    _fresh[0] += 1
    ren = {b: f"{b}__{_fresh[0]}" for b in bound}

    class R(ast.NodeTransformer):
        def visit_Name(self, node):
            if node.id in ren:
                return ast.copy_location(ast.Name(id=ren[node.id], ctx=node.ctx), node)
            return node

        def visit_arg(self, node):
            if node.arg in ren:
                node.arg = ren[node.arg]
            return node
    return R().visit(e)


def apply_lambda(lam, args, keywords=()):
    """(lambda p..: body)(args) -> body[p := args]; None when the arities do not fit or an argument that would be
    duplicated is not simple"""
    part = getattr(lam, "_partial", None)
    if part is not None and all(_simple(x) for x in part[1]) and all(_simple(k.value) for k in part[2]) \
            and not any(isinstance(x, ast.Starred) for x in args):
        # partial(f, a, k=v)(x, y, j=w) is f(a, x, y, k=v, j=w)
        inner, fixed, kws = part
        return ast.Call(func=copy.deepcopy(inner), args=[copy.deepcopy(x) for x in fixed] + list(args),
                        keywords=[copy.deepcopy(k) for k in kws] + list(keywords))
    a = lam.args
    if a.kwarg or a.kwonlyargs or keywords:
        return None
    params = [x.arg for x in a.posonlyargs + a.args]
    defaults = [None] * (len(params) - len(a.defaults)) + list(a.defaults)
    if any(isinstance(x, ast.Starred) for x in args):
        return None
    extra = None
    if a.vararg:
        if len(args) < len(params):
            return None
        extra = list(args[len(params):])
        args = list(args[:len(params)])
        if not all(_simple(x) for x in extra):
            return None
    if len(args) > len(params):
        return None
    actual = list(args) + defaults[len(args):]
    if any(x is None for x in actual):
        return None
    body = copy.deepcopy(lam.body)
    for p, x in zip(params, actual):
        if _count(body, p) > 1 and not _simple(x):
            return None
    # no capture: names the body binds itself must not occur free in the arguments
    bound = _bound_in(body)
    if any(bound & _free(x) for x in actual + (extra or [])):
        body = _rename_bound(body)
    mapping = dict(zip(params, actual))
    if a.vararg:
        va = a.vararg.arg

        class Splice(ast.NodeTransformer):                    # f(*args) -> f(x, y)
            def visit_Call(self, n):
                self.generic_visit(n)
                new_args = []
                for x in n.args:
                    if isinstance(x, ast.Starred) and isinstance(x.value, ast.Name) and x.value.id == va:
                        new_args.extend(copy.deepcopy(e) for e in extra)
                    else:
                        new_args.append(x)
                n.args = new_args
                return n
        body = Splice().visit(body)
        mapping[va] = ast.Tuple(elts=[copy.deepcopy(e) for e in extra], ctx=ast.Load())
    return _Subst(mapping).visit(body)


def _lam(params, body):
    return ast.Lambda(args=ast.arguments(posonlyargs=[], args=[ast.arg(arg=p) for p in params], vararg=None, kwonlyargs=[],
                                         kw_defaults=[], kwarg=None, defaults=[]), body=body)


def function_value(e):
    """a lambda for an expression that denotes a function built from the functional toolbox; None otherwise"""
    if isinstance(e, ast.Lambda):
        return e
    if isinstance(e, ast.Attribute) and isinstance(e.value, ast.Name) and e.value.id == "operator":
        n = e.attr
        if n in OPS_BIN:
            return _lam(["_a", "_b"], ast.BinOp(left=_name("_a"), op=OPS_BIN[n](), right=_name("_b")))
        if n in OPS_CMP:
            return _lam(["_a", "_b"], ast.Compare(left=_name("_a"), ops=[OPS_CMP[n]()], comparators=[_name("_b")]))
        if n in OPS_UN:
            return _lam(["_a"], ast.UnaryOp(op=OPS_UN[n](), operand=_name("_a")))
        if n == "contains":
            return _lam(["_a", "_b"], ast.Compare(left=_name("_b"), ops=[ast.In()], comparators=[_name("_a")]))
        if n == "getitem":
            return _lam(["_a", "_b"], ast.Subscript(value=_name("_a"), slice=_name("_b"), ctx=ast.Load()))
        if n == "truth":
            return _lam(["_a"], ast.Call(func=_name("bool"), args=[_name("_a")], keywords=[]))
        return None
    if isinstance(e, ast.Call) and not e.keywords or isinstance(e, ast.Call) and _is(e.func, "functools", "partial"):
        f = e.func
        if _is(f, "operator", "itemgetter") and e.args and not e.keywords:
            items = [ast.Subscript(value=_name("_x"), slice=copy.deepcopy(a), ctx=ast.Load()) for a in e.args]
            return _lam(["_x"], items[0] if len(items) == 1 else ast.Tuple(elts=items, ctx=ast.Load()))
        if _is(f, "operator", "attrgetter") and e.args and not e.keywords \
                and all(isinstance(a, ast.Constant) and isinstance(a.value, str) for a in e.args):
            def chain_of(path):
                v = _name("_x")
                for part in path.split("."):
                    v = ast.Attribute(value=v, attr=part, ctx=ast.Load())
                return v
            items = [chain_of(a.value) for a in e.args]
            return _lam(["_x"], items[0] if len(items) == 1 else ast.Tuple(elts=items, ctx=ast.Load()))
        if _is(f, "operator", "methodcaller") and e.args and isinstance(e.args[0], ast.Constant) \
                and isinstance(e.args[0].value, str):
            return _lam(["_x"], ast.Call(func=ast.Attribute(value=_name("_x"), attr=e.args[0].value, ctx=ast.Load()),
                                         args=[copy.deepcopy(a) for a in e.args[1:]],
                                         keywords=[copy.deepcopy(k) for k in e.keywords]))
        if _is(f, "functools", "partial") and e.args:
            inner = e.args[0]
            fixed = [copy.deepcopy(a) for a in e.args[1:]]
            kws = [copy.deepcopy(k) for k in e.keywords]
            if any(isinstance(a, ast.Starred) for a in fixed):
                return None
            # the number of remaining parameters: known for toolbox functions, one otherwise (the common use; a call
            # with another arity is simply not reduced)
            fv = function_value(inner)
            remaining = 1
            if fv is not None:
                remaining = max(len(fv.args.args) - len(fixed), 0)
            rest = [f"_x{i}" if remaining != 1 else "_x" for i in range(remaining)]
            call = ast.Call(func=copy.deepcopy(inner), args=fixed + [_name(r) for r in rest], keywords=kws)
            lam = _lam(rest, call)
            lam._partial = (inner, fixed, kws)
            return lam
    return None


def _expr_helper(fn, fold=True):
    """lambda for `def f(p..): [docstring] return e`, for generator helpers made of for / if nests around yields, and
    for first-match search loops; None otherwise"""
    a = fn.args
    if a.kwarg or a.kwonlyargs or fn.decorator_list:
        return None
    body = list(fn.body)
    if body and isinstance(body[0], ast.Expr) and isinstance(body[0].value, ast.Constant) and isinstance(body[0].value.value, str):
        body = body[1:]
    if not body:
        return None
    args = copy.deepcopy(a)
    for x in args.posonlyargs + args.args:
        x.annotation = None
    # name = e (bound once, read once, e free of yields) in front of the rest: read through
    while len(body) >= 2 and isinstance(body[0], ast.Assign) and len(body[0].targets) == 1 \
            and isinstance(body[0].targets[0], ast.Name):
        nm, val = body[0].targets[0].id, body[0].value
        rest = ast.Module(body=body[1:], type_ignores=[])
        reads = sum(1 for n in ast.walk(rest) if isinstance(n, ast.Name) and n.id == nm and isinstance(n.ctx, ast.Load))
        writes = sum(1 for n in ast.walk(rest) if isinstance(n, ast.Name) and n.id == nm and not isinstance(n.ctx, ast.Load))
        params_ = {x.arg for x in a.posonlyargs + a.args}
        stores_rest = {n.id for n in ast.walk(rest) if isinstance(n, ast.Name) and not isinstance(n.ctx, ast.Load)}
        if reads != 1 or writes or nm in params_ or (_free(val) & stores_rest) \
                or any(isinstance(n, (ast.Yield, ast.YieldFrom, ast.Await, ast.NamedExpr)) for n in ast.walk(val)) \
                or len(body) != 2 or not isinstance(body[1], ast.Return):
            break
        body = [_Subst({nm: val}).visit(copy.deepcopy(body[1]))]
    # if c: return a / [if d: return b /] return z   ->   return a if c else (b if d else z)
    if fold and len(body) >= 2 and isinstance(body[-1], ast.Return) and body[-1].value is not None and all(
            isinstance(st, ast.If) and not st.orelse and len(st.body) == 1 and isinstance(st.body[0], ast.Return)
            and st.body[0].value is not None for st in body[:-1]):
        e = copy.deepcopy(body[-1].value)
        for st in reversed(body[:-1]):
            e = ast.IfExp(test=copy.deepcopy(st.test), body=copy.deepcopy(st.body[0].value), orelse=e)
        body = [ast.Return(value=e)]
    # a closure factory:  def g(v): return e / return g   ->   return lambda v: e
    if len(body) == 2 and isinstance(body[0], ast.FunctionDef) and isinstance(body[1], ast.Return) \
            and isinstance(body[1].value, ast.Name) and body[1].value.id == body[0].name:
        inner = _expr_helper(body[0])
        if inner is not None:
            body = [ast.Return(value=inner)]
    if len(body) == 1 and isinstance(body[0], ast.Return) and body[0].value is not None:
        if any(isinstance(n, (ast.Yield, ast.YieldFrom, ast.Await)) for n in ast.walk(body[0].value)):
            return None
        return ast.Lambda(args=args, body=copy.deepcopy(body[0].value))
    # generator: a sequence of statements each of which is a nest of for / if around one yield
    if any(isinstance(n, (ast.Yield, ast.YieldFrom)) for st in body for n in ast.walk(st)):
        pieces = []
        for st in body:
            g = _yield_nest(st, [])
            if g is None:
                return None
            pieces.append(g)
        if len(pieces) == 1 and isinstance(pieces[0], ast.GeneratorExp):
            return ast.Lambda(args=args, body=pieces[0])
        elts = []
        for p in pieces:
            elts.append(ast.Starred(value=p, ctx=ast.Load()) if isinstance(p, ast.GeneratorExp) or getattr(p, "_from", False)
                        else p)
        return ast.Lambda(args=args, body=ast.Tuple(elts=elts, ctx=ast.Load()))
    # first match: for t in xs: if c: return e   /   return d
    if len(body) == 2 and isinstance(body[0], ast.For) and not body[0].orelse and isinstance(body[1], ast.Return) \
            and len(body[0].body) == 1 and isinstance(body[0].body[0], ast.If) and not body[0].body[0].orelse \
            and len(body[0].body[0].body) == 1 and isinstance(body[0].body[0].body[0], ast.Return) \
            and body[0].body[0].body[0].value is not None:
        lp, cond = body[0], body[0].body[0]
        gen = ast.GeneratorExp(elt=copy.deepcopy(cond.body[0].value),
                               generators=[ast.comprehension(target=copy.deepcopy(lp.target), iter=copy.deepcopy(lp.iter),
                                                             ifs=[copy.deepcopy(cond.test)], is_async=0)])
        default = copy.deepcopy(body[1].value) if body[1].value is not None else ast.Constant(value=None)
        return ast.Lambda(args=args, body=ast.Call(func=_name("next"), args=[gen, default], keywords=[]))
    return None


def _yield_nest(st, gens):
    """generator expression for a nest   for..: [if..:] yield e   (gens = the enclosing generators so far)"""
    if isinstance(st, ast.Expr) and isinstance(st.value, ast.Yield) and st.value.value is not None:
        if not gens:
            return copy.deepcopy(st.value.value)              # a bare element
        return ast.GeneratorExp(elt=copy.deepcopy(st.value.value), generators=gens)
    if isinstance(st, ast.Expr) and isinstance(st.value, ast.YieldFrom):
        if not gens:
            v = copy.deepcopy(st.value.value)
            v._from = True
            return v
        gens = gens + [ast.comprehension(target=ast.Name(id="_y", ctx=ast.Store()), iter=copy.deepcopy(st.value.value),
                                         ifs=[], is_async=0)]
        return ast.GeneratorExp(elt=_name("_y"), generators=gens)
    if isinstance(st, ast.For) and not st.orelse and len(st.body) == 1:
        g = ast.comprehension(target=copy.deepcopy(st.target), iter=copy.deepcopy(st.iter), ifs=[], is_async=0)
        return _yield_nest(st.body[0], gens + [g])
    if isinstance(st, ast.If) and not st.orelse and len(st.body) == 1 and gens:
        gens = gens[:-1] + [ast.comprehension(target=gens[-1].target, iter=gens[-1].iter,
                                              ifs=gens[-1].ifs + [copy.deepcopy(st.test)], is_async=0)]
        return _yield_nest(st.body[0], gens)
    return None


class _Reduce(ast.NodeTransformer):
    """one round of expression rewriting; `changed` says whether anything happened"""

    def __init__(self, helpers, locals_stack=None):
        self.helpers = helpers          # module-level expression helpers: name -> Lambda
        self.scopes = [{}]              # per function: local function values name -> Lambda
        self.shadow = [set()]           # names bound locally (they hide module-level helpers)
        self.changed = False
        self.used_helpers = set()
        self.hoist, self.hoist_ok = [], False
        self.local_defs = [{}]

    # -- scopes
    def visit_FunctionDef(self, node):
        stores = {}
        for n in ast.walk(node):
            if isinstance(n, ast.Name) and isinstance(n.ctx, (ast.Store, ast.Del)):
                stores.setdefault(n.id, []).append(n)
        params = {a.arg for a in node.args.posonlyargs + node.args.args + node.args.kwonlyargs}
        if node.args.vararg:
            params.add(node.args.vararg.arg)
        if node.args.kwarg:
            params.add(node.args.kwarg.arg)
        nested = {st.name: st for st in ast.walk(node) if isinstance(st, (ast.FunctionDef, ast.AsyncFunctionDef))
                  and st is not node}
        local = {}
        # closures with an expression body, defined once at the top level of this function and never rebound
        for st in node.body:
            if isinstance(st, ast.FunctionDef) and st.name not in stores and st.name not in params:
                lam = _expr_helper(st)
                if lam is not None and sum(1 for x in nested.values() if x.name == st.name) == 1:
                    local[st.name] = (lam, st.lineno, st)
        # name = <function value>, assigned exactly once
        for n in ast.walk(node):
            if isinstance(n, ast.Assign) and len(n.targets) == 1 and isinstance(n.targets[0], ast.Name):
                nm = n.targets[0].id
                if len(stores.get(nm, [])) == 1 and nm not in params and nm not in nested:
                    fv = function_value(n.value)
                    if fv is not None:
                        local[nm] = (fv, n.lineno, n)
        # side condition: nothing the function value reads is rebound after its definition
        ok = {}
        for nm, (lam, line, st) in local.items():
            free = _free(lam) - {a.arg for a in lam.args.args}
            late = [s for f in free for s in stores.get(f, []) if s.lineno > line]
            early_use = [u for u in ast.walk(node) if isinstance(u, ast.Name) and u.id == nm and isinstance(u.ctx, ast.Load)
                         and u.lineno < line]
            if not late and not early_use:
                ok[nm] = (lam, st)
        self.scopes.append({k: v[0] for k, v in ok.items()})
        self.shadow.append(set(stores) | params | set(nested))
        self.local_defs.append({st.name: st for st in node.body if isinstance(st, ast.FunctionDef)})
        self.generic_visit(node)
        scope = self.scopes.pop()
        self.shadow.pop()
        self.local_defs.pop()
        # definitions whose every use was replaced are dead
        dead = set()
        for nm, (lam, st) in ok.items():
            if not any(isinstance(u, ast.Name) and u.id == nm and isinstance(u.ctx, ast.Load) for u in ast.walk(node)):
                dead.add(id(st))
        if dead:
            class Drop(ast.NodeTransformer):
                def generic_visit(s, n):
                    super().generic_visit(n)
                    for f in ("body", "orelse", "finalbody"):
                        b = getattr(n, f, None)
                        if isinstance(b, list) and b and isinstance(b[0], ast.stmt):
                            nb = [x for x in b if id(x) not in dead]
                            setattr(n, f, nb or [ast.copy_location(ast.Pass(), b[0])])
                    return n
            Drop().visit(node)
            self.changed = True
        return node

    visit_AsyncFunctionDef = visit_FunctionDef

    def _lookup(self, e):
        """the lambda a callee expression stands for, or None"""
        fv = function_value(e)
        if fv is not None:
            return fv
        if isinstance(e, ast.Name):
            for scope, shadow in zip(reversed(self.scopes), reversed(self.shadow)):
                if e.id in scope:
                    return scope[e.id]
                if e.id in shadow:
                    return None
            if e.id in self.helpers:
                self.used_helpers.add(e.id)
                return self.helpers[e.id]
        return None

    # -- expressions
    def visit_Call(self, node):
        self.generic_visit(node)
        f = node.func
        # map / filter / chain
        if isinstance(f, ast.Name) and f.id == "map" and len(node.args) >= 2 and not node.keywords \
                and not any(isinstance(a, ast.Starred) for a in node.args) and "map" not in self.shadow[-1]:
            _fresh[0] += 1
            names = [f"_m{_fresh[0]}_{i}" for i in range(len(node.args) - 1)]
            call = ast.Call(func=node.args[0], args=[_name(n) for n in names], keywords=[])
            call = self._reduce_call(call) or call
            if len(names) == 1:
                target, it = ast.Name(id=names[0], ctx=ast.Store()), node.args[1]
            else:
                target = ast.Tuple(elts=[ast.Name(id=n, ctx=ast.Store()) for n in names], ctx=ast.Store())
                it = ast.Call(func=_name("zip"), args=list(node.args[1:]), keywords=[])
            self.changed = True
            return ast.copy_location(ast.GeneratorExp(elt=call, generators=[
                ast.comprehension(target=target, iter=it, ifs=[], is_async=0)]), node)
        if isinstance(f, ast.Name) and f.id == "filter" and len(node.args) == 2 and not node.keywords \
                and "filter" not in self.shadow[-1]:
            _fresh[0] += 1
            nm = f"_f{_fresh[0]}"
            if isinstance(node.args[0], ast.Constant) and node.args[0].value is None:
                test = _name(nm)
            else:
                test = ast.Call(func=node.args[0], args=[_name(nm)], keywords=[])
                test = self._reduce_call(test) or test
            self.changed = True
            return ast.copy_location(ast.GeneratorExp(elt=_name(nm), generators=[
                ast.comprehension(target=ast.Name(id=nm, ctx=ast.Store()), iter=node.args[1], ifs=[test], is_async=0)]), node)
        if _is(f, "itertools", "starmap") and len(node.args) == 2 and not node.keywords:
            fv = self._lookup(node.args[0])
            xs = node.args[1]
            arity = None
            if isinstance(xs, ast.Call) and not xs.keywords and (
                    (isinstance(xs.func, ast.Name) and xs.func.id == "zip") or _is(xs.func, "itertools", "product")):
                arity = len(xs.args)
            elif isinstance(xs, ast.GeneratorExp) and isinstance(xs.elt, ast.Tuple):
                arity = len(xs.elt.elts)
            elif fv is not None and not fv.args.defaults:
                arity = len(fv.args.args)
            elif isinstance(node.args[0], ast.Name) and node.args[0].id in self.local_defs[-1]:
                d = self.local_defs[-1][node.args[0].id].args
                if not (d.vararg or d.kwarg or d.kwonlyargs or d.defaults):
                    arity = len(d.posonlyargs + d.args)
            if arity:
                _fresh[0] += 1
                names = [f"_s{_fresh[0]}_{i}" for i in range(arity)]
                call = ast.Call(func=node.args[0], args=[_name(n) for n in names], keywords=[])
                call = self._reduce_call(call) or call
                target = ast.Tuple(elts=[ast.Name(id=n, ctx=ast.Store()) for n in names], ctx=ast.Store())
                self.changed = True
                return ast.copy_location(ast.GeneratorExp(elt=call, generators=[
                    ast.comprehension(target=target, iter=xs, ifs=[], is_async=0)]), node)
        if _is(f, "itertools", "product") and len(node.args) >= 2 and not node.keywords \
                and not any(isinstance(a, ast.Starred) for a in node.args):
            _fresh[0] += 1
            names = [f"_p{_fresh[0]}_{i}" for i in range(len(node.args))]
            # product() reads its arguments completely before the first tuple: the same tuples in the same order as the
            # nested loops whenever the arguments are free of side effects on one another (sequences)
            if all(_simple(a) or isinstance(a, ast.Call) and isinstance(a.func, ast.Name) and a.func.id in ("enumerate", "range")
                   for a in node.args):
                self.changed = True
                return ast.copy_location(ast.GeneratorExp(
                    elt=ast.Tuple(elts=[_name(n) for n in names], ctx=ast.Load()),
                    generators=[ast.comprehension(target=ast.Name(id=n, ctx=ast.Store()), iter=a, ifs=[], is_async=0)
                                for n, a in zip(names, node.args)]), node)
        if _is(f, "itertools", "compress") and len(node.args) == 2 and not node.keywords:
            _fresh[0] += 1
            a, b = f"_k{_fresh[0]}a", f"_k{_fresh[0]}b"
            self.changed = True
            return ast.copy_location(ast.GeneratorExp(elt=_name(a), generators=[ast.comprehension(
                target=ast.Tuple(elts=[ast.Name(id=a, ctx=ast.Store()), ast.Name(id=b, ctx=ast.Store())], ctx=ast.Store()),
                iter=ast.Call(func=_name("zip"), args=list(node.args), keywords=[]), ifs=[_name(b)], is_async=0)]), node)
        if _is(f, "itertools", "islice") and len(node.args) in (2, 3) and not node.keywords and _simple(node.args[0]):
            # a slice of a sequence (the engines say `undecided` if the name turns out to hold an iterator)
            lo, hi = (None, node.args[1]) if len(node.args) == 2 else (node.args[1], node.args[2])
            def bound(b):
                return None if b is None or (isinstance(b, ast.Constant) and b.value is None) else b
            self.changed = True
            return ast.copy_location(ast.Subscript(value=node.args[0], slice=ast.Slice(lower=bound(lo), upper=bound(hi), step=None),
                                                   ctx=ast.Load()), node)
        if _is(f, "itertools", "chain") and not node.keywords:
            self.changed = True
            return ast.copy_location(ast.Tuple(elts=[a if isinstance(a, ast.Starred) else ast.Starred(value=a, ctx=ast.Load())
                                                     for a in node.args], ctx=ast.Load()), node)
        if isinstance(f, ast.Attribute) and f.attr == "from_iterable" and _is(f.value, "itertools", "chain") \
                and len(node.args) == 1 and not node.keywords:
            _fresh[0] += 1
            a, b = f"_c{_fresh[0]}a", f"_c{_fresh[0]}b"
            self.changed = True
            return ast.copy_location(ast.GeneratorExp(elt=_name(b), generators=[
                ast.comprehension(target=ast.Name(id=a, ctx=ast.Store()), iter=node.args[0], ifs=[], is_async=0),
                ast.comprehension(target=ast.Name(id=b, ctx=ast.Store()), iter=_name(a), ifs=[], is_async=0)]), node)
        if isinstance(f, ast.Name) and f.id == "getattr" and len(node.args) == 2 and not node.keywords \
                and isinstance(node.args[1], ast.Constant) and isinstance(node.args[1].value, str) \
                and node.args[1].value.isidentifier() and "getattr" not in self.shadow[-1]:
            self.changed = True
            return ast.copy_location(ast.Attribute(value=node.args[0], attr=node.args[1].value, ctx=ast.Load()), node)
        r = self._reduce_call(node)
        if r is not None:
            self.changed = True
            return ast.copy_location(r, node)
        return node

    # -- statements: an argument that is used more than once by the inlined body is computed once, before the statement
    def _simple_stmt(self, node):
        saved, self.hoist = self.hoist, []
        self.hoist_ok = True
        self.generic_visit(node)
        self.hoist_ok = False
        pre, self.hoist = self.hoist, saved
        if not pre:
            return node
        out = []
        for nm, e in pre:
            a = ast.Assign(targets=[ast.Name(id=nm, ctx=ast.Store())], value=e)
            ast.copy_location(a, node)
            out.append(ast.fix_missing_locations(a))
        return out + [node]

    visit_Assign = visit_Return = visit_Expr = visit_AugAssign = _simple_stmt

    def _no_hoist(self, node):
        saved, self.hoist_ok = self.hoist_ok, False
        self.generic_visit(node)
        self.hoist_ok = saved
        return node

    visit_Lambda = visit_GeneratorExp = visit_ListComp = visit_SetComp = visit_DictComp = visit_IfExp = visit_BoolOp = _no_hoist

    def _reduce_call(self, call):
        lam = self._lookup(call.func)
        if lam is None:
            return None
        r = apply_lambda(lam, call.args, call.keywords)
        if r is None and self.hoist_ok and not call.keywords and not any(isinstance(a, ast.Starred) for a in call.args):
            args = []
            new = []
            for a in call.args:
                if _simple(a):
                    args.append(a)
                else:
                    _fresh[0] += 1
                    nm = f"_h{_fresh[0]}"
                    new.append((nm, a))
                    args.append(_name(nm))
            r = apply_lambda(lam, args)
            if r is not None:
                self.hoist.extend(new)
        if r is None:
            return None
        # the substituted body may contain further reducible calls
        return self.visit(r)

    def visit_keyword(self, node):
        # key=itemgetter(0): a function value in argument position becomes the lambda itself
        self.generic_visit(node)
        if node.arg in ("key", "default", "initial"):
            fv = function_value(node.value) if node.arg == "key" else None
            if fv is not None and not isinstance(node.value, ast.Lambda):
                node.value = fv
                self.changed = True
        return node


def _genexp_elements(e):
    """(target, iter, ifs, element) of a one-generator generator expression / list comprehension"""
    if isinstance(e, (ast.GeneratorExp, ast.ListComp)) and len(e.generators) == 1 and not e.generators[0].is_async:
        g = e.generators[0]
        return g.target, g.iter, g.ifs, e.elt
    return None


class _Statements(ast.NodeTransformer):
    """statement-level forms: reduce(...) -> accumulation loop;  for t in (e for s in xs) -> for s in xs: t = e"""

    def __init__(self):
        self.changed = False

    def _block(self, stmts):
        out = []
        for st in stmts:
            out.extend(self._stmt(st))
        return out

    def generic_visit(self, node):
        super().generic_visit(node)
        for f in ("body", "orelse", "finalbody"):
            b = getattr(node, f, None)
            if isinstance(b, list) and b and isinstance(b[0], ast.stmt):
                setattr(node, f, self._block(b))
        return node

    @staticmethod
    def _eager_positions(e):
        """sub-expressions of e that are evaluated exactly once, unconditionally, when e is"""
        out = []
        stack = [e]
        while stack:
            n = stack.pop()
            out.append(n)
            if isinstance(n, (ast.Lambda, ast.BoolOp, ast.IfExp)):
                if isinstance(n, ast.BoolOp):
                    stack.append(n.values[0])
                if isinstance(n, ast.IfExp):
                    stack.append(n.test)
                continue
            if isinstance(n, (ast.GeneratorExp, ast.ListComp, ast.SetComp, ast.DictComp)):
                stack.append(n.generators[0].iter)
                continue
            stack.extend(c for c in ast.iter_child_nodes(n) if isinstance(c, ast.expr))
        return out

    def _stmt(self, st):
        # a reduce(...) nested in the expression of a simple statement is computed in front of it
        if isinstance(st, (ast.Assign, ast.Return, ast.Expr, ast.AugAssign)) and st.value is not None:
            nested = [n for n in self._eager_positions(st.value) if n is not st.value and isinstance(n, ast.Call)
                      and _is(n.func, "functools", "reduce") and len(n.args) == 3 and not n.keywords]
            if nested:
                target = nested[0]
                _fresh[0] += 1
                tmp = f"_red{_fresh[0]}"

                class Put(ast.NodeTransformer):
                    def visit_Call(s2, n):
                        if n is target:
                            return ast.copy_location(_name(tmp), n)
                        return s2.generic_visit(n)
                pre = ast.Assign(targets=[ast.Name(id=tmp, ctx=ast.Store())], value=target)
                ast.copy_location(pre, st)
                ast.fix_missing_locations(pre)
                st.value = Put().visit(st.value)
                self.changed = True
                return self._block([pre, st])
        # v = reduce(f, xs[, init])  /  return reduce(...)
        val = st.value if isinstance(st, (ast.Assign, ast.Return)) else None
        if isinstance(val, ast.Call) and _is(val.func, "functools", "reduce") and len(val.args) == 3 and not val.keywords:
            f, xs, init = val.args
            fv = function_value(f)
            if isinstance(st, ast.Assign) and len(st.targets) == 1 and isinstance(st.targets[0], ast.Name):
                acc = st.targets[0].id
            elif isinstance(st, ast.Return):
                _fresh[0] += 1
                acc = f"_acc{_fresh[0]}"
            else:
                acc = None
            if acc is not None and not any(isinstance(n, ast.Name) and n.id == acc for n in ast.walk(xs)):
                _fresh[0] += 1
                item = f"_r{_fresh[0]}"
                step = None
                if isinstance(f, ast.Attribute) and isinstance(f.value, ast.Name) and f.value.id == "operator" and f.attr in OPS_BIN:
                    step = ast.AugAssign(target=ast.Name(id=acc, ctx=ast.Store()), op=OPS_BIN[f.attr](), value=_name(item))
                else:
                    call = ast.Call(func=f, args=[_name(acc), _name(item)], keywords=[])
                    r = apply_lambda(fv, call.args) if fv is not None else None
                    step = ast.Assign(targets=[ast.Name(id=acc, ctx=ast.Store())], value=r or call)
                loop = ast.For(target=ast.Name(id=item, ctx=ast.Store()), iter=xs, body=[step], orelse=[])
                pre = ast.Assign(targets=[ast.Name(id=acc, ctx=ast.Store())], value=init)
                new = [pre, loop] + ([ast.Return(value=_name(acc))] if isinstance(st, ast.Return) else [])
                for n in new:
                    ast.copy_location(n, st)
                    ast.fix_missing_locations(n)
                self.changed = True
                return self._block(new)
        # T = operator.iadd(operator.imul(T, a), b)   ->   T *= a; T += b      (the in-place operator functions)
        if isinstance(st, ast.Assign) and len(st.targets) == 1 and isinstance(st.targets[0], ast.Name):
            T = st.targets[0].id
            INPLACE = {"iadd": ast.Add, "isub": ast.Sub, "imul": ast.Mult, "itruediv": ast.Div, "ior": ast.BitOr,
                       "iand": ast.BitAnd, "ixor": ast.BitXor, "ifloordiv": ast.FloorDiv, "imod": ast.Mod}

            def chain_of(e):
                if isinstance(e, ast.Name) and e.id == T:
                    return []
                if isinstance(e, ast.Call) and isinstance(e.func, ast.Attribute) and isinstance(e.func.value, ast.Name) \
                        and e.func.value.id == "operator" and e.func.attr in INPLACE and len(e.args) == 2 and not e.keywords:
                    inner = chain_of(e.args[0])
                    if inner is None or any(isinstance(n, ast.Name) and n.id == T for n in ast.walk(e.args[1])):
                        return None
                    return inner + [ast.AugAssign(target=ast.Name(id=T, ctx=ast.Store()), op=INPLACE[e.func.attr](),
                                                  value=e.args[1])]
                return None
            steps = chain_of(st.value)
            if steps:
                for n in steps:
                    ast.copy_location(n, st)
                    ast.fix_missing_locations(n)
                self.changed = True
                return steps
        # for t in (e for s in xs if c): body   ->   for s in xs: if c: t = e; body
        if isinstance(st, ast.For) and not st.orelse:
            ge = _genexp_elements(st.iter)
            if ge is not None and isinstance(st.iter, ast.GeneratorExp):
                target, it, ifs, elt = ge
                inner = {t.id for t in ast.walk(target) if isinstance(t, ast.Name)}
                used_after = {n.id for n in ast.walk(ast.Module(body=st.body, type_ignores=[])) if isinstance(n, ast.Name)}
                has_break = any(isinstance(n, (ast.Break, ast.Continue)) for b in st.body for n in ast.walk(b)) and bool(ifs)
                if not has_break:
                    bind = ast.Assign(targets=[st.target], value=elt)
                    body = [bind] + st.body
                    # the element substituted into a single use keeps `total += f(x)` in one statement
                    if isinstance(st.target, ast.Name) and len(st.body) == 1 and _count(st.body[0], st.target.id) == 1 \
                            and not any(isinstance(n, ast.Name) and n.id == st.target.id and isinstance(n.ctx, ast.Store)
                                        for n in ast.walk(st.body[0])) and st.target.id.startswith("_"):
                        body = [_Subst({st.target.id: elt}).visit(copy.deepcopy(st.body[0]))]
                    for c in reversed(ifs):
                        body = [ast.If(test=c, body=body, orelse=[])]
                    new = ast.For(target=target, iter=it, body=body, orelse=[])
                    ast.copy_location(new, st)
                    ast.fix_missing_locations(new)
                    self.changed = True
                    return self._block([new])
        return [st]


class _ClassTable:
    """the classes of one module: bases, linearisation, subclasses, methods, class-level constants (closed world: no
    subclass outside the module overrides a private helper or a hook table)"""

    def __init__(self, tree):
        self.classes = {c.name: c for c in tree.body if isinstance(c, ast.ClassDef)}
        self.stored_attrs = {t.attr for n in ast.walk(tree) if isinstance(n, (ast.Assign, ast.AugAssign, ast.AnnAssign, ast.Delete))
                             for tt in (n.targets if isinstance(n, (ast.Assign, ast.Delete)) else [n.target])
                             for t in ast.walk(tt) if isinstance(t, ast.Attribute)}
        self.strings = {n.value for n in ast.walk(tree) if isinstance(n, ast.Constant) and isinstance(n.value, str)}

    def bases(self, c):
        return [b.id for b in self.classes[c].bases if isinstance(b, ast.Name) and b.id in self.classes]

    def mro(self, c):
        out = []

        def go(x):
            if x not in out:
                out.append(x)
                for b in self.bases(x):
                    go(b)
        go(c)
        return out

    def subclasses(self, c):
        return [k for k in self.classes if k != c and c in self.mro(k)]

    def method(self, c, name):
        for st in self.classes[c].body:
            if isinstance(st, ast.FunctionDef) and st.name == name:
                return st
        return None

    def const(self, c, name):
        for st in self.classes[c].body:
            if isinstance(st, ast.Assign) and len(st.targets) == 1 and isinstance(st.targets[0], ast.Name) \
                    and st.targets[0].id == name:
                return st.value
        return None

    def resolve(self, c, name, what):
        """(defining class, node) of `name` looked up from class c; None when a subclass of c defines it too (the
        receiver may be an instance of that subclass)"""
        get = self.method if what == "method" else self.const
        if name.startswith("__") and not name.endswith("__"):
            node = get(c, name)                        # name-mangled: private to the lexically enclosing class
            return (c, node) if node is not None else None
        if any(self.method(k, name) is not None or self.const(k, name) is not None for k in self.subclasses(c)):
            return None
        for k in self.mro(c):
            node = get(k, name)
            if node is not None:
                return (k, node)
            if self.method(k, name) is not None or self.const(k, name) is not None:
                return None
        return None


def _kind_of(fn):
    names = [d.id for d in fn.decorator_list if isinstance(d, ast.Name)]
    if len(names) != len(fn.decorator_list):
        return None
    if not names:
        return "method"
    if names == ["staticmethod"]:
        return "static"
    if names == ["classmethod"]:
        return "class"
    return None


def _constant_like(e, classes):
    if isinstance(e, ast.Constant):
        return True
    if isinstance(e, ast.Name):
        return True
    if isinstance(e, ast.Attribute):
        return _constant_like(e.value, classes)
    if isinstance(e, ast.Tuple):
        return all(_constant_like(x, classes) for x in e.elts)
    if isinstance(e, ast.UnaryOp):
        return _constant_like(e.operand, classes)
    if isinstance(e, ast.BinOp):
        return _constant_like(e.left, classes) and _constant_like(e.right, classes)
    return False


class _MethodInline(ast.NodeTransformer):
    """inside the methods of a class: `self._h(x)` -> the body of the private expression helper `_h` (when no subclass
    overrides it), `Cls._h(x)` likewise for static helpers, `self.TABLE` / `cls.TABLE` / `Cls.TABLE` -> the immutable
    class-level constant (a tuple of classes, a number ...) it names"""

    def __init__(self, table):
        self.t = table
        self.cls = None
        self.recv = None        # (name of self / cls parameter, "self" | "cls") of the method being visited
        self.changed = False
        self.active = set()

    def visit_ClassDef(self, node):
        saved = self.cls
        self.cls = node.name if node.name in self.t.classes and self.t.classes[node.name] is node else None
        self.generic_visit(node)
        self.cls = saved
        return node

    def visit_FunctionDef(self, node):
        saved = self.recv
        if self.cls is not None and node in self.t.classes[self.cls].body:
            kind = _kind_of(node)
            first = (node.args.posonlyargs + node.args.args)[0].arg if (node.args.posonlyargs + node.args.args) else None
            stores = {n.id for n in ast.walk(node) if isinstance(n, ast.Name) and isinstance(n.ctx, (ast.Store, ast.Del))}
            if first is not None and first not in stores:
                if node.name == "__new__" or kind == "class":
                    self.recv = (first, "cls")
                elif kind == "method" or any(isinstance(d, ast.Attribute) and d.attr == "setter" for d in node.decorator_list) \
                        or any(isinstance(d, ast.Name) and d.id == "property" for d in node.decorator_list):
                    self.recv = (first, "self")
                else:
                    self.recv = None
            else:
                self.recv = None
        self.generic_visit(node)
        self.recv = saved
        return node

    def _owner(self, e):
        """class from which an attribute of `e` is looked up, and how the receiver is spelled"""
        if isinstance(e, ast.Name):
            if self.recv is not None and e.id == self.recv[0] and self.cls is not None:
                return self.cls, self.recv[1]
            if e.id in self.t.classes:
                return e.id, "classname"
        return None, None

    def visit_Attribute(self, node):
        self.generic_visit(node)
        if not isinstance(node.ctx, ast.Load) or node.attr in self.t.stored_attrs:
            return node
        owner, how = self._owner(node.value)
        if owner is None:
            return node
        if how == "classname":
            # Cls.X: looked up from Cls upwards (no dynamic receiver)
            for k in self.t.mro(owner):
                v = self.t.const(k, node.attr)
                if v is not None:
                    break
                if self.t.method(k, node.attr) is not None:
                    return node
            else:
                return node
        else:
            r = self.t.resolve(owner, node.attr, "const")
            if r is None:
                return node
            v = r[1]
        if v is not None and _constant_like(v, self.t.classes) and not isinstance(v, ast.Name):
            self.changed = True
            return ast.copy_location(copy.deepcopy(v), node)
        return node

    def visit_Call(self, node):
        self.generic_visit(node)
        f = node.func
        if not isinstance(f, ast.Attribute) or not f.attr.startswith("_") or (f.attr.startswith("__") and f.attr.endswith("__")) \
                or f.attr in KNOWN:
            return node
        owner, how = self._owner(f.value)
        if owner is None:
            return node
        if how == "classname":
            found = None
            for k in self.t.mro(owner):
                m = self.t.method(k, f.attr)
                if m is not None:
                    found = (k, m)
                    break
            r = found
        else:
            r = self.t.resolve(owner, f.attr, "method")
        if r is None:
            return node
        k, m = r
        kind = _kind_of(m)
        if kind is None or (k, m.name) in self.active:
            return node
        if how == "classname" and kind == "method":
            return node                       # Cls.method(obj, ..): left alone
        bare = copy.deepcopy(m)
        bare.decorator_list = []
        # a method that decides by early returns stays a method: the rules' path-splitting evaluators read its
        # statements, a conditional expression in the middle of the caller would hide them
        lam = _expr_helper(bare, fold=False)
        if lam is None:
            return node
        args = list(node.args)
        if kind == "method":
            args = [f.value] + args
        elif kind == "class":
            args = [f.value if how in ("cls", "classname") else ast.Attribute(value=f.value, attr="__class__", ctx=ast.Load())] + args
        r2 = apply_lambda(lam, args, node.keywords)
        if r2 is None:
            return node
        # the helper was written inside class k: its own name-mangled references stay meaningful only there
        if k != self.cls and any(isinstance(n, ast.Attribute) and n.attr.startswith("__") and not n.attr.endswith("__")
                                 for n in ast.walk(r2)):
            return node
        self.changed = True
        self.active.add((k, m.name))
        try:
            r2 = self.visit(r2)
        finally:
            self.active.discard((k, m.name))
        return ast.copy_location(r2, node)


def normalise(tree):
    # module-level expression helpers (private names only: a public function is an interface the rules may anchor on)
    helpers = {}
    for st in tree.body:
        if isinstance(st, ast.FunctionDef) and st.name.startswith("_") and not st.name.startswith("__") and st.name not in KNOWN:
            lam = _expr_helper(st)
            if lam is not None and sum(1 for x in tree.body if isinstance(x, (ast.FunctionDef, ast.ClassDef, ast.Assign))
                                       and getattr(x, "name", None) == st.name) == 1:
                helpers[st.name] = lam
    # helpers may use helpers: reduce their bodies first (bounded)
    for _ in range(6):
        red = _Reduce(helpers)
        tree = red.visit(tree)
        stm = _Statements()
        tree = stm.visit(tree)
        mi = _MethodInline(_ClassTable(tree))
        tree = mi.visit(tree)
        if not (red.changed or stm.changed or mi.changed):
            break
        for nm in list(helpers):
            r2 = _Reduce({k: v for k, v in helpers.items() if k != nm})
            helpers[nm] = r2.visit(helpers[nm])
    # helper definitions nobody refers to any longer are dead
    live = {n.id for n in ast.walk(tree) if isinstance(n, ast.Name) and isinstance(n.ctx, ast.Load)}
    tree.body = [st for st in tree.body if not (isinstance(st, ast.FunctionDef) and st.name in helpers and st.name not in live)]
    return ast.fix_missing_locations(tree)
