"""Where can the iteration order of a `set` reach a result?

Per function, a small flow-sensitive abstract interpretation tracks which set
*creation sites* a value may come from, through local names, tuples / lists /
dicts that hold sets (one or two levels), `d.setdefault(k, set())`, `d[k]`,
`.items()` / `.values()` iteration and comprehension targets.

  origin = (creation node, level)   level 0: the value is that set
                                    level k: a container nested k deep around it

A consumption of a level-0 value is *order sensitive* when it turns the set
into a sequence or visits it element by element: for / comprehension over it,
list() tuple() iter() next() enumerate() zip() map() reversed() str() repr()
`*s`, s.pop(), returning it, handing it to an unknown function.  It is order
insensitive for sorted() len() min() max() sum() any() all() set() frozenset(),
membership, comparisons and the set algebra; a comprehension that is itself the
direct argument of one of those is order insensitive too.

analyse(fn, inf) -> {creation node: Site}; Site.sensitive lists the consuming
nodes, Site.types the element types seen at creation and at .add().
"""
from __future__ import annotations

import ast

INSENSITIVE = {"sorted", "len", "min", "max", "sum", "any", "all", "set", "frozenset", "bool", "isinstance", "id", "type"}
SEQUENCING = {"list", "tuple", "iter", "next", "enumerate", "zip", "map", "reversed", "str", "repr", "filter", "dict"}
SET_METHODS_SAME = {"union", "intersection", "difference", "symmetric_difference", "copy"}
SET_METHODS_NONE = {"add", "discard", "remove", "update", "clear", "issubset", "issuperset", "isdisjoint",
                    "intersection_update", "difference_update"}
U = ast.unparse


class Site:
    def __init__(self, node):
        self.node, self.types, self.sensitive = node, [], []


def is_creation(n):
    if isinstance(n, (ast.Set, ast.SetComp)):
        return True
    return isinstance(n, ast.Call) and isinstance(n.func, ast.Name) and n.func.id in ("set", "frozenset")


def lift(v, k=1):
    return frozenset((o, min(l + k, 3)) for o, l in v)


def unlift(v):
    return frozenset((o, l - 1) for o, l in v if l >= 1)


class _A:
    def __init__(self, fn, inf):
        self.fn, self.inf = fn, inf
        self.sites = {}
        self.byid = {}

    def site(self, n):
        if id(n) not in self.byid:
            self.byid[id(n)] = Site(n)
            self.sites[n] = self.byid[id(n)]
        return self.byid[id(n)]

    def elem_type(self, e):
        t = self.inf.typeof(e)
        r = "?"
        if isinstance(t, tuple) and t and t[0] == "seq":
            r = t[1]
        elif isinstance(t, tuple) and t and t[0] == "tup":
            r = t[1][0] if t[1] else "?"
        if r == "?" and isinstance(e, ast.Name):
            # a local list filled by append(): the type of what is appended
            ts = {self.inf.typeof(x.args[0]) for x in ast.walk(self.fn.node)
                  if isinstance(x, ast.Call) and isinstance(x.func, ast.Attribute) and x.func.attr == "append"
                  and isinstance(x.func.value, ast.Name) and x.func.value.id == e.id and x.args}
            if len(ts) == 1:
                r = ts.pop()
        return r

    def consume(self, v, node):
        for o, l in v:
            if l == 0 and node not in self.byid[o].sensitive:
                self.byid[o].sensitive.append(node)

    def add_type(self, v, t):
        for o, l in v:
            if l == 0:
                self.byid[o].types.append(t)

    # ---- expressions
    def val(self, e, env, insensitive_ctx=False):
        if e is None:
            return frozenset()
        if is_creation(e):
            s = self.site(e)
            if isinstance(e, ast.Call):
                for a in e.args:
                    av = self.val(a, env, True)        # set(x) consumes x order-insensitively
                    s.types.append(self.elem_type(a))
                    del av
            elif isinstance(e, ast.SetComp):
                self.comp(e, env, True)
                s.types.append(self.inf.typeof(e.elt))
            else:
                for x in e.elts:
                    self.val(x, env)
                    s.types.append(self.inf.typeof(x))
            return frozenset({(id(e), 0)})
        if isinstance(e, ast.Name):
            return env.get(e.id, frozenset())
        if isinstance(e, (ast.Tuple, ast.List)):
            out = frozenset()
            for x in e.elts:
                if isinstance(x, ast.Starred):
                    v = self.val(x.value, env)
                    self.consume(v, x)
                    out |= v
                else:
                    out |= lift(self.val(x, env))
            return out
        if isinstance(e, ast.Dict):
            out = frozenset()
            for k, x in zip(e.keys, e.values):
                if k is not None:
                    self.val(k, env)
                out |= lift(self.val(x, env))
            return out
        if isinstance(e, ast.Subscript):
            b = self.val(e.value, env)
            self.val(e.slice, env) if not isinstance(e.slice, ast.Slice) else None
            return b if isinstance(e.slice, ast.Slice) else unlift(b)
        if isinstance(e, ast.IfExp):
            self.val(e.test, env)
            return self.val(e.body, env, insensitive_ctx) | self.val(e.orelse, env, insensitive_ctx)
        if isinstance(e, ast.BoolOp):
            out = frozenset()
            for x in e.values:
                out |= self.val(x, env, insensitive_ctx)
            return out
        if isinstance(e, ast.BinOp):
            l, r = self.val(e.left, env), self.val(e.right, env)
            if isinstance(e.op, (ast.BitOr, ast.BitAnd, ast.Sub, ast.BitXor)):
                return frozenset(x for x in l | r if x[1] == 0)
            if isinstance(e.op, ast.Add):
                return frozenset(x for x in l | r if x[1] >= 1)      # concatenation of containers
            return frozenset()
        if isinstance(e, (ast.UnaryOp,)):
            self.val(e.operand, env)
            return frozenset()
        if isinstance(e, ast.Compare):
            self.val(e.left, env)
            for c in e.comparators:
                self.val(c, env)
            return frozenset()
        if isinstance(e, (ast.ListComp, ast.GeneratorExp, ast.SetComp, ast.DictComp)):
            return self.comp(e, env, insensitive_ctx)
        if isinstance(e, ast.NamedExpr):
            v = self.val(e.value, env)
            env[e.target.id] = v
            return v
        if isinstance(e, ast.Starred):
            v = self.val(e.value, env)
            self.consume(v, e)
            return v
        if isinstance(e, ast.Attribute):
            self.val(e.value, env)
            return frozenset()
        if isinstance(e, ast.Call):
            return self.call(e, env)
        if isinstance(e, ast.JoinedStr):
            for x in e.values:
                if isinstance(x, ast.FormattedValue):
                    self.consume(self.val(x.value, env), x)
            return frozenset()
        if isinstance(e, ast.Lambda):
            return frozenset()
        for c in ast.iter_child_nodes(e):
            if isinstance(c, ast.expr):
                self.val(c, env)
        return frozenset()

    def call(self, e, env):
        f = e.func
        if isinstance(f, ast.Name):
            if f.id in INSENSITIVE:
                out = frozenset()
                for a in e.args:
                    v = self.val(a, env, True)
                    if f.id == "sorted":
                        out |= frozenset(x for x in v if x[1] >= 1)      # a sorted container still holds its sets
                for k in e.keywords:
                    self.val(k.value, env)
                return out
            if f.id in SEQUENCING:
                out = frozenset()
                for a in e.args:
                    v = self.val(a, env)
                    self.consume(v, e)
                    out |= frozenset(x for x in v if x[1] >= 1)       # container conversion keeps what it holds
                return out
            # unknown / repository function: a set handed over escapes
            for a in list(e.args) + [k.value for k in e.keywords]:
                self.consume(self.val(a, env), e)
            return frozenset()
        if isinstance(f, ast.Attribute):
            base = self.val(f.value, env)
            m = f.attr
            argv = [self.val(a, env) for a in e.args]
            if m == "setdefault" and len(e.args) == 2:
                if isinstance(f.value, ast.Name):
                    env[f.value.id] = env.get(f.value.id, frozenset()) | lift(argv[1])
                return argv[1] | unlift(base)
            if m == "get" and e.args:
                return unlift(base) | (argv[1] if len(argv) > 1 else frozenset())
            if m == "values" and not e.args:
                return base                    # the values of a dict of sets: a container of sets
            if m == "items" and not e.args:
                return lift(base)              # pairs (key, set); precise binding of `for k, v in d.items()` is in bind()
            if m == "keys" and not e.args:
                return frozenset()
            if m == "add" and argv is not None and e.args:
                self.add_type(base, self.inf.typeof(e.args[0]))
                return frozenset()
            if m == "update" and e.args:
                self.add_type(base, self.elem_type(e.args[0]))
                return frozenset()
            if m == "pop" and any(l == 0 for o, l in base):
                self.consume(base, e)
                return frozenset()
            if m in SET_METHODS_SAME:
                out = frozenset(x for x in base if x[1] == 0)
                for v in argv:
                    out |= frozenset(x for x in v if x[1] == 0)
                return out
            if m in SET_METHODS_NONE:
                return frozenset()
            if m in ("append", "insert", "extend") and isinstance(f.value, ast.Name) and argv:
                add = lift(argv[-1]) if m != "extend" else argv[-1]
                if add:
                    env[f.value.id] = env.get(f.value.id, frozenset()) | add
                return frozenset()
            if m == "join":
                for v in argv:
                    self.consume(v, e)
                return frozenset()
            # a method of some object receiving a set
            for v in argv:
                self.consume(v, e)
            for k in e.keywords:
                self.consume(self.val(k.value, env), e)
            return frozenset()
        self.val(f, env)
        for a in e.args:
            self.consume(self.val(a, env), e)
        return frozenset()

    def bind(self, target, iter_expr, env, node, insensitive_ctx):
        """bind the loop / comprehension target to the elements of iter_expr"""
        it = iter_expr
        if isinstance(it, ast.Call) and isinstance(it.func, ast.Attribute) and not it.args and it.func.attr in ("items", "values", "keys"):
            b = self.val(it.func.value, env)
            if it.func.attr == "items" and isinstance(target, (ast.Tuple, ast.List)) and len(target.elts) == 2:
                self.assign(target.elts[0], frozenset(), env)
                self.assign(target.elts[1], unlift(b), env)
            elif it.func.attr == "values":
                self.assign(target, unlift(b), env)
            else:
                self.assign(target, frozenset(), env)
            return
        if isinstance(it, ast.Call) and isinstance(it.func, ast.Name) and it.func.id == "enumerate" and it.args \
                and isinstance(target, (ast.Tuple, ast.List)) and len(target.elts) == 2:
            self.assign(target.elts[0], frozenset(), env)
            self.bind(target.elts[1], it.args[0], env, node, insensitive_ctx)
            return
        if isinstance(it, ast.Call) and isinstance(it.func, ast.Name) and it.func.id == "zip" \
                and isinstance(target, (ast.Tuple, ast.List)) and len(target.elts) == len(it.args):
            for t, a in zip(target.elts, it.args):
                self.bind(t, a, env, node, insensitive_ctx)
            return
        itv = self.val(it, env)
        if not insensitive_ctx:
            self.consume(itv, node)
        self.assign(target, unlift(itv), env)

    def assign(self, target, v, env):
        if isinstance(target, ast.Name):
            env[target.id] = v
        elif isinstance(target, (ast.Tuple, ast.List)):
            for t in target.elts:
                self.assign(t.value if isinstance(t, ast.Starred) else t, unlift(v), env)
        elif isinstance(target, ast.Subscript):
            b = target.value
            while isinstance(b, ast.Subscript):
                b = b.value
            if isinstance(b, ast.Name) and v:
                depth, x = 0, target
                while isinstance(x, ast.Subscript):
                    depth, x = depth + 1, x.value
                env[b.id] = env.get(b.id, frozenset()) | lift(v, depth)
        # attribute stores: the set escapes into an object
        elif isinstance(target, ast.Attribute):
            self.consume(v, target)

    def comp(self, e, env, insensitive_ctx):
        saved = dict(env)
        for g in e.generators:
            # a set comprehension / a generator handed to sorted(), min(), ... does not expose the order
            self.bind(g.target, g.iter, env, g, insensitive_ctx or isinstance(e, ast.SetComp))
            for c in g.ifs:
                self.val(c, env)
        if isinstance(e, ast.DictComp):
            self.val(e.key, env)
            out = lift(self.val(e.value, env))
        else:
            out = lift(self.val(e.elt, env))
        env.clear()
        env.update(saved)
        if isinstance(e, ast.SetComp):
            return frozenset()
        return out

    # ---- statements
    def block(self, body, env):
        for st in body:
            self.stmt(st, env)

    @staticmethod
    def join(a, b):
        out = dict(a)
        for k, v in b.items():
            out[k] = out.get(k, frozenset()) | v
        return out

    def stmt(self, st, env):
        if isinstance(st, ast.Assign):
            v = self.val(st.value, env)
            for t in st.targets:
                self.assign(t, v, env)
        elif isinstance(st, ast.AnnAssign):
            if st.value is not None:
                self.assign(st.target, self.val(st.value, env), env)
        elif isinstance(st, ast.AugAssign):
            v = self.val(st.value, env)
            if isinstance(st.target, ast.Name):
                cur = env.get(st.target.id, frozenset())
                if isinstance(st.op, (ast.BitOr, ast.BitAnd, ast.Sub, ast.BitXor)):
                    env[st.target.id] = cur | frozenset(x for x in v if x[1] == 0)
                elif isinstance(st.op, ast.Add):
                    env[st.target.id] = cur | frozenset(x for x in v if x[1] >= 1)
        elif isinstance(st, ast.Expr):
            self.val(st.value, env)
        elif isinstance(st, ast.Return):
            if st.value is not None:
                v = self.val(st.value, env)
                self.consume(v, st)
        elif isinstance(st, ast.If):
            self.val(st.test, env)
            a, b = dict(env), dict(env)
            self.block(st.body, a)
            self.block(st.orelse, b)
            env.clear()
            env.update(self.join(a, b))
        elif isinstance(st, (ast.For, ast.While)):
            for _ in range(2):
                before = dict(env)
                if isinstance(st, ast.For):
                    self.bind(st.target, st.iter, env, st, False)
                else:
                    self.val(st.test, env)
                self.block(st.body, env)
                merged = self.join(before, env)
                env.clear()
                env.update(merged)
            self.block(st.orelse, env)
        elif isinstance(st, ast.Try):
            self.block(st.body, env)
            for h in st.handlers:
                self.block(h.body, env)
            self.block(st.orelse, env)
            self.block(st.finalbody, env)
        elif isinstance(st, ast.With):
            for it in st.items:
                self.val(it.context_expr, env)
            self.block(st.body, env)
        elif isinstance(st, (ast.Assert,)):
            self.val(st.test, env)
        elif isinstance(st, ast.Raise):
            if st.exc is not None:
                self.val(st.exc, env)
        elif isinstance(st, ast.Delete):
            pass


def analyse(fn, inf):
    a = _A(fn, inf)
    # sites are registered on first evaluation; make sure every creation in the function is known
    for n in ast.walk(fn.node):
        if is_creation(n):
            a.site(n)
    a.block(fn.node.body, {})
    return a.sites
