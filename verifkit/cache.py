"""R10.1 cache coherence.

A lazily computed field F of class K (pattern `if self.F is None: ... self.F =
...`) caches a value derived from the object's state.  Abstract state of one
object along a path through a method of K:

    cache in {N: certainly None, M: maybe set}   x   stale in {False, True}

    RESET  (self.F = None)                       -> (N, False)
    FILL   (self.F = <expr>)                     -> (M, False)
    W      (a write to state reachable from self that is not an orientation-
            preserving isometry of the points)   -> stale := (cache == M)
    CALL   (a method of K invoked on self)        -> that method's transformer
    `if self.F is None:` body                    -> (N, False)

Every normal exit of every method must have stale == False.  Transformers are
computed by fixpoint; the classification of Point2D.move/rotate as isometries
is derived by verifkit.affine, not frozen.
"""
from __future__ import annotations

import ast
import itertools

from . import affine
from .model import AnalysisError
from .own import ownership

N, Mb = "N", "M"
ALL_STATES = [(c, s) for c in (N, Mb) for s in (False, True)]


def find_lazy_caches(ctx):
    """[(class K, mangled field, field as written, filler Fn)]: a field of an instance of K that is tested for absence
    and filled in the same function -- by a method of K on `self`, or by any function on a parameter of static type K
    (`if key not in jordan._memo: jordan._memo[key] = ...`)"""
    out = []
    for q, fn in sorted(ctx.model.funcs.items()):
        if fn.name == "__new__" or not fn.node.args.args:
            continue      # `if cls.__instance is None` in __new__ is the singleton pattern, not a cache
        inf = None
        for i, a in enumerate(fn.node.args.posonlyargs + fn.node.args.args):
            pname = a.arg
            if i == 0 and fn.cls and fn.kind in ("method", "getter", "setter"):
                owners = [fn.cls]
            elif fn.kind == "class" and i == 0:
                continue
            else:
                inf = inf or ctx.typer.of(fn)
                owners = [c for c in ctx.typer.classes_of(inf.env.get(pname)) if c in ctx.model.classes]
                if len(owners) != 1:
                    continue
            for n in ast.walk(fn.node):
                if isinstance(n, ast.If):
                    f, pol = cache_test(n.test, pname)
                    # miss form: the fill is inside the `if`; hit form (`if self.F is not None: return self.F`): after it
                    scope = ast.walk(n) if pol == "miss" else ast.walk(fn.node)
                    if f and any(_stores_field(b, pname, f) and not _is_reset(b) for b in scope):
                        ctx_cls = fn.cls or owners[0]
                        mangled = f"_{ctx_cls}{f}" if f.startswith("__") and not f.endswith("__") else f
                        out.append((owners[0], mangled, f, fn))
    return out


def _is_value_type(t):
    from .model import NUM, BOOL
    if t in (NUM, BOOL):
        return True
    if isinstance(t, tuple) and t and t[0] == "seq":
        return _is_value_type(t[1])
    if isinstance(t, tuple) and t and t[0] == "tup":
        return bool(t[1]) and all(_is_value_type(x) for x in t[1])
    return t == "Box"


def find_eager_snapshots(ctx, lazy=None):
    """[(class K, mangled field, field as written, filler Fn)]: an instance field that stores a *value* (number, box)
    obtained by querying mutable objects that the instance keeps (float(sub), sub.box(), abs(curve) ...): a snapshot of
    derived state taken eagerly, e.g. in a setter.  It goes stale exactly like a lazily filled cache."""
    lazy = {(c, m) for c, m, _, _ in (lazy if lazy is not None else find_lazy_caches(ctx))}
    out = []
    for q, fn in sorted(ctx.model.funcs.items()):
        if not fn.cls or fn.kind not in ("method", "setter") or not fn.params or fn.name == "__new__":
            continue
        selfn = fn.params[0]
        inf = ctx.typer.of(fn)
        defs = {}
        for n in ast.walk(fn.node):
            if isinstance(n, ast.Assign):
                for t in n.targets:
                    for nm in ([t] if isinstance(t, ast.Name) else list(t.elts) if isinstance(t, (ast.Tuple, ast.List)) else []):
                        if isinstance(nm, ast.Name):
                            defs.setdefault(nm.id, []).append(n.value)
            elif isinstance(n, (ast.For, ast.comprehension)):
                for nm in ast.walk(n.target):
                    if isinstance(nm, ast.Name):
                        defs.setdefault(nm.id, []).append(n.iter)
        for n in ast.walk(fn.node):
            if not (isinstance(n, ast.Assign) and len(n.targets) == 1 and isinstance(n.targets[0], ast.Attribute)
                    and isinstance(n.targets[0].value, ast.Name) and n.targets[0].value.id == selfn):
                continue
            f = n.targets[0].attr
            mangled = f"_{fn.cls}{f}" if f.startswith("__") and not f.endswith("__") else f
            if (fn.cls, mangled) in lazy or not _is_value_type(inf.typeof(n.value)):
                continue
            # does the value come from a query on a repository object?
            seen, work, queried = set(), [n.value], False
            while work and not queried:
                e = work.pop()
                for x in ast.walk(e):
                    if isinstance(x, ast.Name) and x.id not in seen:
                        seen.add(x.id)
                        work += defs.get(x.id, [])
                    if isinstance(x, ast.Call):
                        tgs = inf.targets(x, ("call", "dunder"))
                        if any(t.has_self and t.cls and t.mod in ("shape", "jordancurve", "curve") for t in tgs):
                            queried = True
                    if isinstance(x, ast.Attribute) and any(t.kind == "getter" and t.mod in ("shape", "jordancurve", "curve")
                                                             for t in inf.targets(x, ("getter",))) \
                            and _is_value_type(inf.typeof(x)):
                        queried = True
            if queried and (fn.cls, mangled) not in {(c, m) for c, m, _, _ in out}:
                out.append((fn.cls, mangled, f, fn))
    return out


def cache_param(filler, fsrc):
    """name of the parameter of `filler` whose field `fsrc` is the cache"""
    for a in filler.node.args.posonlyargs + filler.node.args.args:
        for n in ast.walk(filler.node):
            if isinstance(n, ast.If) and cache_test(n.test, a.arg)[0] == fsrc:
                return a.arg
    return filler.params[0] if filler.params else None


def cache_test(test, selfn):
    """(field name F, polarity) when the test is the cache test of a lazily filled field:
         self.F is None      / key not in self.F     -> 'miss'  (body fills)
         self.F is not None  / key in self.F         -> 'hit'   (body returns the cached value, the rest fills)
       `not <test>` flips the polarity"""
    if isinstance(test, ast.UnaryOp) and isinstance(test.op, ast.Not):
        f, pol = cache_test(test.operand, selfn)
        return (f, {"miss": "hit", "hit": "miss"}[pol]) if f else (None, None)
    if isinstance(test, ast.Compare) and len(test.ops) == 1 and isinstance(test.ops[0], (ast.Is, ast.IsNot)) \
            and isinstance(test.comparators[0], ast.Constant) and test.comparators[0].value is None \
            and isinstance(test.left, ast.Attribute) and isinstance(test.left.value, ast.Name) \
            and test.left.value.id == selfn:
        return test.left.attr, ("miss" if isinstance(test.ops[0], ast.Is) else "hit")
    if isinstance(test, ast.Compare) and len(test.ops) == 1 and isinstance(test.ops[0], (ast.NotIn, ast.In)):
        c = test.comparators[0]
        if isinstance(c, ast.Attribute) and isinstance(c.value, ast.Name) and c.value.id == selfn:
            return c.attr, ("miss" if isinstance(test.ops[0], ast.NotIn) else "hit")
    return None, None


def _is_none_test(test, selfn):
    f, pol = cache_test(test, selfn)
    return f if pol == "miss" else None


def _is_reset(n):
    return isinstance(n, ast.Assign) and isinstance(n.value, ast.Constant) and n.value.value is None


def max_fill_stores(body, selfn, f):
    """largest number of non-reset stores to self.F along one path through `body` (a store in a loop counts twice)"""
    total = 0
    for st in body:
        if isinstance(st, ast.If):
            total += max(max_fill_stores(st.body, selfn, f), max_fill_stores(st.orelse, selfn, f))
        elif isinstance(st, (ast.For, ast.While)):
            total += 2 * max_fill_stores(st.body, selfn, f) + max_fill_stores(st.orelse, selfn, f)
        elif isinstance(st, ast.Try):
            total += max_fill_stores(st.body, selfn, f) + max([max_fill_stores(h.body, selfn, f) for h in st.handlers] + [0]) \
                + max_fill_stores(st.orelse, selfn, f) + max_fill_stores(st.finalbody, selfn, f)
        elif isinstance(st, ast.With):
            total += max_fill_stores(st.body, selfn, f)
        elif _stores_field(st, selfn, f) and not _is_reset(st):
            total += 2 if isinstance(st, ast.AugAssign) else 1
    return total


def _stores_field(n, selfn, f):
    if isinstance(n, (ast.Assign, ast.AugAssign)):
        tgts = n.targets if isinstance(n, ast.Assign) else [n.target]
        for t in tgts:
            if isinstance(t, ast.Subscript):        # memo dict entry  self.F[key] = value
                t = t.value
            if isinstance(t, ast.Attribute) and t.attr == f and isinstance(t.value, ast.Name) and t.value.id == selfn:
                return True
    return False


def cache_fields(ctx):
    """mangled names of all lazily cached fields (their coherence is decided by R10.1)"""
    return {m for _, m, _, _ in find_lazy_caches(ctx)}


# functions whose value is invariant under an orientation-preserving isometry of all control points
ISOMETRY_INVARIANT = {"jordancurve.IntegrateJordan.lenght", "jordancurve.IntegrateJordan.area",
                      "curve.IntegratePlanar.lenght", "curve.IntegratePlanar.area"}


def _through_private_helpers(ctx, called, depth=0):
    """the repository functions a set of callees stands for: a private helper a later change cut out of the filler
    (`__signed_lenght`) is replaced by what it calls itself"""
    from .known_names import KNOWN
    out = set()
    for q in called:
        fn = ctx.model.funcs.get(q)
        nm = q.rsplit(".", 1)[-1]
        if fn is not None and depth < 3 and q not in ISOMETRY_INVARIANT \
                and not (nm.startswith("__") and nm.endswith("__")) and nm not in KNOWN:
            inf = ctx.typer.of(fn)
            inner = {t.qname for x in ast.walk(fn.node) for t in inf.targets(x)}
            if inner:
                out |= _through_private_helpers(ctx, inner, depth + 1)
                continue
        out.add(q)
    return out


def filler_is_isometry_invariant(ctx, filler, fsrc):
    """the cached value is computed only from isometry-invariant integrals of self"""
    selfn = cache_param(filler, fsrc)
    inf = ctx.typer.of(filler)
    for n in ast.walk(filler.node):
        if isinstance(n, ast.If) and cache_test(n.test, selfn)[0] == fsrc:
            called = set()
            if cache_test(n.test, selfn)[1] == "miss":
                region = n.body
            else:       # hit form: everything of the function but the cache-hit branch computes the value
                skip = {id(x) for b in n.body for x in ast.walk(b)} | {id(x) for x in ast.walk(n.test)}
                region = [x for x in ast.walk(filler.node) if id(x) not in skip]
            for b in region:
                for x in (ast.walk(b) if region is n.body else [b]):
                    for t in inf.targets(x):
                        called.add(t.qname)
            called = _through_private_helpers(ctx, called)
            return bool(called) and called <= ISOMETRY_INVARIANT
    # eager snapshot (no cache test): every repository query the filler makes must be invariant
    called = {t.qname for x in ast.walk(filler.node) for t in inf.targets(x, ("call", "dunder"))
              if t.mod in ("shape", "jordancurve", "curve")}
    invariant = {q for q in called if q in ISOMETRY_INVARIANT or q.rsplit(".", 1)[-1] in ("__float__", "__abs__", "__bool__")}
    return bool(called) and called <= invariant


def is_composite(ctx, cls):
    """instances of cls (or a subclass) can hold other instances of cls (sub-objects share the derived state)"""
    from .model import FIELD_TYPES
    fam = set([cls] + ctx.model.subclasses(cls))

    def classes_in(t):
        if isinstance(t, str):
            return {t} if t in ctx.model.classes else set()
        if isinstance(t, tuple) and t:
            if t[0] in ("tup", "union"):
                return set().union(*[classes_in(x) for x in t[1]]) if t[1] else set()
            return classes_in(t[1])
        return set()
    for (c, f), t in FIELD_TYPES.items():
        if c in fam:
            for k in classes_in(t):
                if k in fam or set(ctx.model.subclasses(k)) & fam:
                    return f"{c}.{f}"
    return None


class CacheCoherence:
    def __init__(self, ctx, cls, field_mangled, field_src, filler=None, trusted_updates=()):
        self.ctx, self.cls, self.F, self.Fsrc = ctx, cls, field_mangled, field_src
        self.trusted_updates = set(trusted_updates)     # methods whose incremental cache update is verified elsewhere
        self.updates = {}
        self._consts = {}          # string constants bound to the parameters of the helper being inlined
        self._inline_depth = 0
        self.exempt_isometries = bool(filler) and filler_is_isometry_invariant(ctx, filler, field_src)
        self.composite = is_composite(ctx, cls)
        self.O = ownership(ctx)
        self.derived = derived_fields(ctx, cls) - {field_mangled} - cache_fields(ctx)
        self.kinds = affine.point_kinds(ctx)
        self.kmethods = {}
        fam = []
        for k in [cls] + ctx.model.subclasses(cls):
            for b in [k] + ctx.model.mro(k)[1:]:          # inherited methods act on instances of the class too
                if b not in fam:
                    fam.append(b)
        for k in fam:
            for fn in list(ctx.model.methods[k].values()) + list(ctx.model.setters[k].values()):
                if fn.has_self and fn.kind != "static":
                    self.kmethods[fn.qname] = fn
        self.tables = {q: {st: set() for st in ALL_STATES} for q in self.kmethods}
        self.wlog = {}
        for _ in range(12):
            before = {q: {st: frozenset(v) for st, v in t.items()} for q, t in self.tables.items()}
            for q, fn in self.kmethods.items():
                for st in ALL_STATES:
                    self.tables[q][st] = self.run_method(fn, {st})
            if all({st: frozenset(v) for st, v in self.tables[q].items()} == before[q] for q in self.tables):
                break
        else:
            raise AnalysisError("cache-coherence transformers did not converge")

    # -- derived-state writes
    def root_writer(self, callee, cparam, ckey):
        seen = set()
        q = callee
        while True:
            why = self.O.S[q].why.get((cparam,) + ckey)
            if why is None or why[2] is None or (why[2], why[3], why[4]) in seen:
                return q
            seen.add((why[2], why[3], why[4]))
            q, cparam, ckey = why[2], why[3], why[4]

    def is_derived_field(self, field):
        return field in self.derived

    def node_events(self, fn, node):
        """classify the recorded effects at one AST node: ('call', [qnames]) / ('W', text) / None"""
        selfn = fn.params[0]
        evs = [e for e in self.O.events.get(fn.qname, []) if e["node"] is node and e["param"] == selfn
               and self.is_derived_field(e["field"])]
        # getattr(x, method)(...) inside a helper that is being inlined with method = "<constant>": only that method
        if isinstance(node, ast.Call) and isinstance(node.func, ast.Call) and isinstance(node.func.func, ast.Name) \
                and node.func.func.id == "getattr" and len(node.func.args) >= 2 and isinstance(node.func.args[1], ast.Name) \
                and node.func.args[1].id in self._consts:
            want = self._consts[node.func.args[1].id]
            evs = [e for e in evs if e["via"] is None or e["via"][0] is None or e["via"][0].rsplit(".", 1)[-1] == want]
        inf = self.ctx.typer.of(fn)
        tgs = [t for t in inf.targets(node) if t.qname in self.kmethods]
        if tgs and self._receiver_is_self(node, selfn):
            return ("call", sorted({t.qname for t in tgs}))
        w = []
        for e in evs:
            if e["via"] is None or e["via"][0] is None:
                w.append(f"direct write of {e['field']}")
                continue
            root = self.root_writer(*e["via"])
            kind = self.kinds.get(root, (None,))[0]
            if kind in affine.ISOMETRY and self.exempt_isometries:
                continue
            w.append(f"{e['field']} via {root}")
        if w:
            return ("W", sorted(set(w)))
        return None

    def _string_args(self, call, callee):
        """{parameter: constant} for string literals passed to parameters of `callee` that only ever receive literals"""
        if not isinstance(call, ast.Call):
            return {}
        known = self.ctx.typer.param_string_constants()
        ps = [a.arg for a in callee.node.args.posonlyargs + callee.node.args.args]
        if callee.kind in ("method", "getter", "setter", "class") and isinstance(call.func, ast.Attribute) and ps:
            ps = ps[1:]
        out = {}
        for pn, a in list(zip(ps, call.args)) + [(k.arg, k.value) for k in call.keywords if k.arg in ps]:
            if isinstance(a, ast.Constant) and isinstance(a.value, str) and (callee.qname, pn) in known:
                out[pn] = a.value
        return out

    @staticmethod
    def _receiver_is_self(node, selfn):
        def is_self(x):
            return isinstance(x, ast.Name) and x.id == selfn
        if isinstance(node, ast.Call):
            f = node.func
            if isinstance(f, ast.Attribute):
                return is_self(f.value)
            if isinstance(f, ast.Name):
                return any(is_self(a) for a in node.args)
        if isinstance(node, ast.Attribute):
            return is_self(node.value)
        if isinstance(node, ast.Compare):
            return is_self(node.left) or any(is_self(c) for c in node.comparators)
        if isinstance(node, ast.BinOp):
            return is_self(node.left) or is_self(node.right)
        if isinstance(node, ast.UnaryOp):
            return is_self(node.operand)
        if isinstance(node, ast.AugAssign):
            return is_self(node.target)
        return False

    # -- abstract interpretation of one method
    def post_order(self, node):
        if isinstance(node, ast.Assign):
            order = [node.value] + list(node.targets)
        elif isinstance(node, ast.AugAssign):
            order = [node.value, node.target]
        else:
            order = list(ast.iter_child_nodes(node))
        for c in order:
            if isinstance(c, (ast.Lambda, ast.FunctionDef)):
                continue
            yield from self.post_order(c)
        yield node

    def apply_simple(self, fn, st, states):
        selfn = fn.params[0]
        for node in self.post_order(st):
            if isinstance(node, ast.AugAssign) and node is st and isinstance(node.target, ast.Attribute) \
                    and node.target.attr == self.Fsrc and isinstance(node.target.value, ast.Name) \
                    and node.target.value.id == selfn:
                # UPDATE: the new value is computed from the old cached value, not from the state: it is as stale as
                # before (unless this incremental update is verified against the transformation law, see R10.1)
                self.updates.setdefault(fn.qname, []).append(getattr(node, "lineno", 0))
                if fn.qname in self.trusted_updates:
                    states = {(Mb, False)}
                continue
            if isinstance(node, ast.Assign) and node is st:
                for t in node.targets:
                    if isinstance(t, ast.Attribute) and t.attr == self.Fsrc and isinstance(t.value, ast.Name) \
                            and t.value.id == selfn:
                        v = node.value
                        selfref = any(isinstance(x, ast.Attribute) and x.attr == self.Fsrc and isinstance(x.value, ast.Name)
                                      and x.value.id == selfn for x in ast.walk(v))
                        if selfref:      # self.F = g(self.F): an UPDATE, see above
                            self.updates.setdefault(fn.qname, []).append(getattr(node, "lineno", 0))
                            if fn.qname in self.trusted_updates:
                                states = {(Mb, False)}
                            continue
                        empty = (isinstance(v, ast.Constant) and v.value is None) or (isinstance(v, ast.Dict) and not v.keys) \
                            or (isinstance(v, ast.Call) and isinstance(v.func, ast.Name) and v.func.id == "dict" and not v.args)
                        states = {(N, False)} if empty else {(Mb, False)}
                    if isinstance(t, ast.Subscript) and isinstance(t.value, ast.Attribute) and t.value.attr == self.Fsrc \
                            and isinstance(t.value.value, ast.Name) and t.value.value.id == selfn:
                        states = {(Mb, False)}
                continue
            if isinstance(node, ast.Call) and isinstance(node.func, ast.Attribute) and node.func.attr == "clear" \
                    and isinstance(node.func.value, ast.Attribute) and node.func.value.attr == self.Fsrc \
                    and isinstance(node.func.value.value, ast.Name) and node.func.value.value.id == selfn:
                states = {(N, False)}
                continue
            ev = self.node_events(fn, node)
            if ev is None:
                continue
            if ev[0] == "call":
                new = set()
                for q in ev[1]:
                    bound = self._string_args(node, self.kmethods[q])
                    if bound and self._inline_depth < 3:
                        # a helper that dispatches on a string argument (`self.__apply("scale", ..)`): interpret its
                        # body for this constant instead of using its all-constants summary
                        saved, self._consts = self._consts, bound
                        self._inline_depth += 1
                        try:
                            for s in states:
                                new |= self.run_method(self.kmethods[q], {s})
                        finally:
                            self._consts = saved
                            self._inline_depth -= 1
                        continue
                    for s in states:
                        new |= self.tables[q][s]
                states = new
            else:
                self.wlog.setdefault(fn.qname, []).append((getattr(node, "lineno", 0), ev[1]))
                states = {(c, True if c == Mb else False) for (c, s) in states}
        return states

    def block(self, fn, body, states, exits):
        for st in body:
            if not states:
                break
            states = self.stmt(fn, st, states, exits)
        return states

    def stmt(self, fn, st, states, exits):
        selfn = fn.params[0]
        if isinstance(st, ast.If):
            states = self.apply_simple(fn, st.test, states)
            f, pol = cache_test(st.test, selfn)
            if f == self.Fsrc:
                miss, hit = ({(N, False)} if states else set()), {s for s in states if s[0] == Mb}
                a = self.block(fn, st.body, miss if pol == "miss" else hit, exits)
                b = self.block(fn, st.orelse, hit if pol == "miss" else miss, exits)
                return a | b
            a = self.block(fn, st.body, set(states), exits)
            b = self.block(fn, st.orelse, set(states), exits)
            return a | b
        if isinstance(st, (ast.For, ast.While)):
            head = st.iter if isinstance(st, ast.For) else st.test
            acc = self.apply_simple(fn, head, set(states))
            for _ in range(6):
                out = self.block(fn, st.body, set(acc), exits)
                out = self.apply_simple(fn, head, out) if isinstance(st, ast.While) else out
                if out <= acc:
                    break
                acc |= out
            return self.block(fn, st.orelse, set(acc), exits) | (acc if self._has_break(st) else set())
        if isinstance(st, ast.Try):
            after = self.block(fn, st.body, set(states), exits)
            hs = set()
            for h in st.handlers:
                hs |= self.block(fn, h.body, set(states) | after, exits)
            after = self.block(fn, st.orelse, after, exits) | hs
            return self.block(fn, st.finalbody, after, exits) if st.finalbody else after
        if isinstance(st, ast.With):
            return self.block(fn, st.body, states, exits)
        if isinstance(st, ast.Return):
            if st.value is not None:
                states = self.apply_simple(fn, st.value, states)
            exits |= states
            return set()
        if isinstance(st, ast.Raise):
            return set()
        if isinstance(st, (ast.Break, ast.Continue, ast.Pass)):
            return states      # conservative: treated as fall-through
        return self.apply_simple(fn, st, states)

    @staticmethod
    def _has_break(loop):
        return any(isinstance(n, ast.Break) for n in ast.walk(loop))

    def run_method(self, fn, states):
        exits = set()
        out = self.block(fn, fn.node.body, set(states), exits)
        return exits | out


def derived_fields(ctx, cls):
    """fields of `cls` and of everything it is made of (closure over the field-type table)"""
    from .model import FIELD_TYPES
    seen, work, out = set(), [cls] + ctx.model.subclasses(cls), set()
    while work:
        k = work.pop()
        if k in seen:
            continue
        seen.add(k)
        for (c, f), t in FIELD_TYPES.items():
            if c == k:
                out.add(f)
                stack = [t]
                while stack:
                    x = stack.pop()
                    if isinstance(x, str) and x in ctx.model.classes:
                        work.append(x)
                    elif isinstance(x, tuple) and x:
                        stack += list(x[1]) if x[0] in ("tup", "union") else [x[1]]
    return out


def coherence(ctx, cls, field_mangled, field_src, filler=None, trusted_updates=()):
    return ctx.engine(("cache", cls, field_mangled, tuple(sorted(trusted_updates))),
                      lambda c: CacheCoherence(c, cls, field_mangled, field_src, filler, trusted_updates))
